#!/bin/bash
# usage: mut.sh <PID> <file relative to repo> <python-regex-from> <to>   -> runs the check on a scratch copy with one edit
# prints the verdict lines; scratch copy is removed afterwards.
set -e
PID=$1; FILE=$2; FROM=$3; TO=$4
S=$(mktemp -d /tmp/st_repo.XXXXXX)
rsync -a --exclude _build --exclude .git /repo/ $S/
python3 - "$S/$FILE" "$FROM" "$TO" <<'PY'
import re,sys
p,fr,to=sys.argv[1:4]
s=open(p).read()
n=len(re.findall(fr,s,flags=re.S))
if n==0: print("MUTATION DID NOT MATCH"); sys.exit(3)
s=re.sub(fr,to,s,count=1,flags=re.S)
open(p,'w').write(s)
PY
set +e
AMGCL_SA_REPO=$S AMGCL_SA_WORK=$S/.work python3 /verif/check.py $PID --tier ${TIER:-quick} 2>&1 | sed "s|$S|<scratch>|g" | grep -E "^(VIOLATION|  rule=|ANALYSIS|KNOWN|C[0-9]+ \[)" | cut -c1-400
echo "exit=${PIPESTATUS[0]}"
# evidence was rewritten by the scratch run; caller re-runs the real check afterwards
rm -rf $S
