// amgcl-sa: fact extractor for the static checks in /verif.
//
// Parses one translation unit with the real compile flags and dumps, as JSON,
// every function whose body lives under --root (template instantiations with
// resolved callees; with --patterns also uninstantiated templates): a
// structured statement/expression tree with stable node ids, the clang CFG
// over those ids (branch conditions, successor order true/false), constructor
// initialisers, OpenMP directives with clauses, plus record layouts and enums.
// Rules are evaluated by the python side (sa/*.py); this program decides
// nothing.
//
// usage: amgcl-sa --out=f.json [--root=/repo] [--patterns] [--also=/verif]
//                 [--only=<regex on file>] unit.cpp -- <compile flags>

#include "clang/AST/ASTConsumer.h"
#include "clang/AST/ASTContext.h"
#include "clang/AST/ExprCXX.h"
#include "clang/AST/ExprOpenMP.h"
#include "clang/AST/OpenMPClause.h"
#include "clang/AST/RecursiveASTVisitor.h"
#include "clang/AST/TemplateBase.h"
#include "clang/AST/DeclTemplate.h"
#include "clang/AST/StmtCXX.h"
#include "clang/AST/StmtOpenMP.h"
#include "clang/Analysis/CFG.h"
#include "clang/Basic/OpenMPKinds.h"
#include "clang/Frontend/CompilerInstance.h"
#include "clang/Frontend/FrontendAction.h"
#include "clang/Tooling/CommonOptionsParser.h"
#include "clang/Tooling/Tooling.h"
#include "llvm/Support/CommandLine.h"
#include "llvm/Support/Regex.h"
#include "llvm/Support/raw_ostream.h"

#include <fstream>
#include <map>
#include <set>
#include <sstream>
#include <string>
#include <unordered_map>
#include <vector>

using namespace clang;
using namespace clang::tooling;

static llvm::cl::OptionCategory Cat("amgcl-sa options");
static llvm::cl::opt<std::string> OutFile("out", llvm::cl::desc("output json"), llvm::cl::Required, llvm::cl::cat(Cat));
static llvm::cl::opt<std::string> Root("root", llvm::cl::desc("repository root"), llvm::cl::init("/repo"), llvm::cl::cat(Cat));
static llvm::cl::opt<std::string> Also("also", llvm::cl::desc("second root (controls, units)"), llvm::cl::init(""), llvm::cl::cat(Cat));
static llvm::cl::opt<std::string> Only("only", llvm::cl::desc("regex on file name; dump only matching functions"), llvm::cl::init(""), llvm::cl::cat(Cat));
static llvm::cl::opt<bool> Patterns("patterns", llvm::cl::desc("also dump dependent (uninstantiated) bodies"), llvm::cl::cat(Cat));
static llvm::cl::opt<bool> NoInst("no-inst", llvm::cl::desc("do not dump instantiations / non-dependent bodies"), llvm::cl::cat(Cat));

namespace {

std::string jesc(llvm::StringRef s) {
    std::string o;
    o.reserve(s.size() + 2);
    for (unsigned char c : s) {
        switch (c) {
            case '"': o += "\\\""; break;
            case '\\': o += "\\\\"; break;
            case '\n': o += "\\n"; break;
            case '\r': o += "\\r"; break;
            case '\t': o += "\\t"; break;
            default:
                if (c < 0x20 || c >= 0x7f) {
                    char b[8];
                    snprintf(b, sizeof b, "\\u%04x", c);
                    o += b;
                } else
                    o += (char)c;
        }
    }
    return o;
}

struct Dumper {
    ASTContext &C;
    SourceManager &SM;
    PrintingPolicy PP;
    std::unique_ptr<llvm::Regex> only;

    std::unordered_map<const Decl *, int> declId;
    std::vector<std::string> declJson;  // indexed by id
    std::unordered_map<std::string, int> typeId;
    std::vector<std::string> types;
    std::unordered_map<std::string, int> fileId;
    std::vector<std::string> files;

    std::vector<std::string> funcs, records, enums;
    std::set<const FunctionDecl *> doneF;
    std::vector<const FunctionDecl *> pendingLambdas;
    bool inLambdaQueue = false;
    std::set<const CXXRecordDecl *> doneR;

    // per function
    std::unordered_map<const Stmt *, int> nodeId;
    int nextNode = 0;
    std::string curFile;

    Dumper(ASTContext &c) : C(c), SM(c.getSourceManager()), PP(c.getLangOpts()) {
        PP.SuppressTagKeyword = true;
        PP.Bool = true;
        PP.SuppressUnwrittenScope = true;
        if (!Only.empty()) only.reset(new llvm::Regex(Only));
    }

    int typeOf(QualType t) {
        std::string s = t.isNull() ? std::string("?") : t.getAsString(PP);
        auto it = typeId.find(s);
        if (it != typeId.end()) return it->second;
        int id = types.size();
        types.push_back(s);
        typeId[s] = id;
        return id;
    }
    int fileOf(const std::string &f) {
        auto it = fileId.find(f);
        if (it != fileId.end()) return it->second;
        int id = files.size();
        files.push_back(f);
        fileId[f] = id;
        return id;
    }

    std::string fileName(SourceLocation L) {
        if (L.isInvalid()) return "";
        L = SM.getExpansionLoc(L);
        auto fn = SM.getFilename(L);
        return fn.str();
    }
    unsigned lineOf(SourceLocation L) {
        if (L.isInvalid()) return 0;
        return SM.getExpansionLineNumber(L);
    }
    // line where a macro argument / token was written (for things inside macros)
    unsigned spellLineOf(SourceLocation L) {
        if (L.isInvalid()) return 0;
        return SM.getSpellingLineNumber(L);
    }
    bool inRoot(const std::string &f) {
        if (f.empty()) return false;
        bool ok = llvm::StringRef(f).startswith(Root) || (!Also.empty() && llvm::StringRef(f).startswith(Also));
        return ok;
    }

    // qualified name without template arguments
    std::string qname(const NamedDecl *D) {
        std::vector<std::string> parts;
        const DeclContext *DC = D->getDeclContext();
        while (DC && !DC->isTranslationUnit()) {
            if (auto *NS = dyn_cast<NamespaceDecl>(DC)) {
                if (!NS->isAnonymousNamespace() && !NS->isInline()) parts.push_back(NS->getNameAsString());
            } else if (auto *RD = dyn_cast<RecordDecl>(DC)) {
                parts.push_back(RD->getNameAsString());
            } else if (auto *FD = dyn_cast<FunctionDecl>(DC)) {
                parts.push_back(FD->getNameAsString());
            } else if (auto *ED = dyn_cast<EnumDecl>(DC)) {
                if (ED->isScoped()) parts.push_back(ED->getNameAsString());
            }
            DC = DC->getParent();
        }
        std::string s;
        for (auto it = parts.rbegin(); it != parts.rend(); ++it) s += *it + "::";
        s += D->getNameAsString();
        return s;
    }
    std::string fullname(const NamedDecl *D) {
        std::string s;
        llvm::raw_string_ostream os(s);
        D->getNameForDiagnostic(os, PP, true);
        os.flush();
        return s;
    }

    int declOf(const Decl *D) {
        if (!D) return -1;
        D = D->getCanonicalDecl();
        auto it = declId.find(D);
        if (it != declId.end()) return it->second;
        int id = declJson.size();
        declId[D] = id;
        declJson.push_back("");
        std::ostringstream o;
        o << "{";
        if (auto *ND = dyn_cast<NamedDecl>(D)) {
            o << "\"n\":\"" << jesc(ND->getNameAsString()) << "\"";
            const char *k = "other";
            if (isa<ParmVarDecl>(D)) k = "param";
            else if (auto *VD = dyn_cast<VarDecl>(D)) {
                if (VD->isStaticLocal()) k = "staticlocal";
                else if (VD->isLocalVarDecl()) k = "local";
                else if (VD->isStaticDataMember()) k = "staticmember";
                else k = "global";
            } else if (isa<FieldDecl>(D)) k = "field";
            else if (isa<FunctionDecl>(D)) k = "fn";
            else if (isa<EnumConstantDecl>(D)) k = "enumc";
            else if (isa<NonTypeTemplateParmDecl>(D)) k = "nttp";
            else if (isa<BindingDecl>(D)) k = "binding";
            o << ",\"k\":\"" << k << "\"";
            if (auto *VD = dyn_cast<ValueDecl>(D)) {
                if (!isa<FunctionDecl>(D)) {
                    o << ",\"t\":" << typeOf(VD->getType());
                    QualType qt = VD->getType();
                    if (!qt.isNull()) o << ",\"ct\":" << typeOf(qt.getCanonicalType());
                    if (!qt.isNull()) {
                        if (qt.getNonReferenceType().isConstQualified()) o << ",\"const\":1";
                        if (qt->isReferenceType()) o << ",\"ref\":1";
                        if (qt->isPointerType()) o << ",\"ptr\":1";
                    }
                }
            }
            if (auto *FD = dyn_cast<FieldDecl>(D)) {
                o << ",\"cls\":\"" << jesc(qname(FD->getParent())) << "\"";
                if (FD->isMutable()) o << ",\"mutable\":1";
            }
            if (auto *PD = dyn_cast<ParmVarDecl>(D)) o << ",\"pi\":" << PD->getFunctionScopeIndex();
            if (auto *EC = dyn_cast<EnumConstantDecl>(D)) {
                o << ",\"q\":\"" << jesc(qname(EC)) << "\",\"v\":" << EC->getInitVal().getExtValue();
            }
            if (auto *FD = dyn_cast<FunctionDecl>(D)) {
                o << ",\"q\":\"" << jesc(qname(FD)) << "\"";
                std::string f = fileName(FD->getLocation());
                if (inRoot(f)) o << ",\"f\":" << fileOf(f) << ",\"l\":" << lineOf(FD->getLocation());
            }
            if (auto *VD = dyn_cast<VarDecl>(D)) {
                if (!isa<ParmVarDecl>(D) && !VD->isLocalVarDecl()) o << ",\"q\":\"" << jesc(qname(VD)) << "\"";
            }
        } else {
            o << "\"n\":\"\",\"k\":\"unnamed\"";
        }
        o << "}";
        declJson[id] = o.str();
        return id;
    }

    // ---------------------------------------------------------------- nodes
    struct Out {
        std::ostringstream o;
    };

    const Expr *strip(const Expr *E) {
        while (E) {
            if (auto *P = dyn_cast<ParenExpr>(E)) E = P->getSubExpr();
            else if (auto *I = dyn_cast<ImplicitCastExpr>(E)) E = I->getSubExpr();
            else if (auto *M = dyn_cast<MaterializeTemporaryExpr>(E)) E = M->getSubExpr();
            else if (auto *B = dyn_cast<CXXBindTemporaryExpr>(E)) E = B->getSubExpr();
            else if (auto *W = dyn_cast<ExprWithCleanups>(E)) E = W->getSubExpr();
            else if (auto *F = dyn_cast<FullExpr>(E)) E = F->getSubExpr();
            else if (auto *S = dyn_cast<SubstNonTypeTemplateParmExpr>(E)) E = S->getReplacement();
            else if (auto *CE = dyn_cast<CXXConstructExpr>(E)) {
                // elidable / copy-move of a single argument: see through
                if (CE->getNumArgs() == 1 && CE->getConstructor()->isCopyOrMoveConstructor() && !isa<CXXTemporaryObjectExpr>(CE))
                    E = CE->getArg(0);
                else
                    break;
            } else
                break;
        }
        return E;
    }

    void head(std::ostringstream &o, const Stmt *S, const char *k) {
        int id = nextNode++;
        nodeId[S] = id;
        o << "{\"i\":" << id << ",\"k\":\"" << k << "\"";
        unsigned l = lineOf(S->getBeginLoc());
        if (l) o << ",\"l\":" << l;
        std::string f = fileName(S->getBeginLoc());
        if (!f.empty() && f != curFile) o << ",\"lf\":" << fileOf(f);
        // canonical type of element accesses / dereferences / member reads (the other expression kinds carry it elsewhere: refs through
        // their declaration, calls through "rt")
        if (auto *E = dyn_cast<Expr>(S)) {
            if ((isa<ArraySubscriptExpr>(E) || isa<UnaryOperator>(E) || isa<MemberExpr>(E) || isa<CXXOperatorCallExpr>(E)) && !E->getType().isNull() && !E->isTypeDependent())
                o << ",\"ty\":" << typeOf(E->getType().getCanonicalType());
        }
        // compile-time value of integral constant expressions that are not literals
        // (constexpr calls, numeric_limits members, template arguments): "cv"
        if (auto *E = dyn_cast<Expr>(S)) {
            if (!isa<IntegerLiteral>(E) && !isa<CXXBoolLiteralExpr>(E) && !isa<UnaryExprOrTypeTraitExpr>(E) &&
                !E->isValueDependent() && !E->isTypeDependent() && !E->getType().isNull() &&
                E->getType()->isIntegralOrEnumerationType() &&
                (isa<CallExpr>(E) || isa<DeclRefExpr>(E) || isa<MemberExpr>(E) || isa<BinaryOperator>(E) || isa<UnaryOperator>(E))) {
                Expr::EvalResult R;
                if (E->isEvaluatable(C) && E->EvaluateAsInt(R, C) && !R.HasSideEffects)
                    o << ",\"cv\":\"" << llvm::toString(R.Val.getInt(), 10) << "\"";
            }
        }
    }

    void expr(std::ostringstream &o, const Expr *E0) {
        if (!E0) { o << "null"; return; }
        const Expr *E = strip(E0);
        if (!E) { o << "null"; return; }
        emitExpr(o, E);
        // wrappers map to the same node id
        auto it = nodeId.find(E);
        if (it != nodeId.end()) {
            const Expr *W = E0;
            while (W && W != E) {
                nodeId[W] = it->second;
                const Expr *N = nullptr;
                if (auto *P = dyn_cast<ParenExpr>(W)) N = P->getSubExpr();
                else if (auto *I = dyn_cast<ImplicitCastExpr>(W)) N = I->getSubExpr();
                else if (auto *M = dyn_cast<MaterializeTemporaryExpr>(W)) N = M->getSubExpr();
                else if (auto *B = dyn_cast<CXXBindTemporaryExpr>(W)) N = B->getSubExpr();
                else if (auto *F = dyn_cast<FullExpr>(W)) N = F->getSubExpr();
                else if (auto *S = dyn_cast<SubstNonTypeTemplateParmExpr>(W)) N = S->getReplacement();
                else if (auto *CE = dyn_cast<CXXConstructExpr>(W)) N = CE->getNumArgs() == 1 ? CE->getArg(0) : nullptr;
                W = N;
            }
        }
    }

    void args(std::ostringstream &o, llvm::ArrayRef<const Expr *> a) {
        o << "[";
        bool first = true;
        for (auto *x : a) {
            if (!first) o << ",";
            first = false;
            expr(o, x);
        }
        o << "]";
    }

    void calleeInfo(std::ostringstream &o, const FunctionDecl *FD) {
        if (!FD) return;
        o << ",\"f\":\"" << jesc(qname(FD)) << "\",\"fd\":" << declOf(FD);
        // parameters through which the callee may write: T& / T&& (non-const) and T* (non-const pointee)
        std::string mr;
        for (unsigned i = 0; i < FD->getNumParams(); ++i) {
            QualType t = FD->getParamDecl(i)->getType();
            bool mut = false;
            if (t->isReferenceType()) mut = !t.getNonReferenceType().isConstQualified();
            else if (t->isPointerType()) mut = !t->getPointeeType().isConstQualified();
            if (mut) {
                if (!mr.empty()) mr += ",";
                mr += std::to_string(i);
            }
        }
        if (!mr.empty()) o << ",\"mr\":[" << mr << "]";
        if (auto *MD = dyn_cast<CXXMethodDecl>(FD))
            if (!MD->isStatic() && !isa<CXXConstructorDecl>(MD) && MD->isConst()) o << ",\"cm\":1";
        if (!isa<CXXConstructorDecl>(FD) && !FD->getReturnType().isNull() && !FD->getReturnType()->isVoidType() && !FD->getReturnType()->isDependentType())
            o << ",\"rt\":" << typeOf(FD->getReturnType().getCanonicalType());
    }

    void emitExpr(std::ostringstream &o, const Expr *E) {
        if (auto *D = dyn_cast<DeclRefExpr>(E)) {
            head(o, E, "ref");
            o << ",\"d\":" << declOf(D->getDecl()) << ",\"n\":\"" << jesc(D->getDecl()->getNameAsString()) << "\"}";
            return;
        }
        if (auto *M = dyn_cast<MemberExpr>(E)) {
            head(o, E, "mem");
            o << ",\"n\":\"" << jesc(M->getMemberDecl()->getNameAsString()) << "\",\"d\":" << declOf(M->getMemberDecl());
            if (M->isArrow()) o << ",\"arrow\":1";
            o << ",\"b\":";
            expr(o, M->getBase());
            o << "}";
            return;
        }
        if (isa<CXXThisExpr>(E)) {
            head(o, E, "this");
            o << "}";
            return;
        }
        if (auto *L = dyn_cast<IntegerLiteral>(E)) {
            head(o, E, "lit");
            o << ",\"t\":\"int\",\"v\":\"" << llvm::toString(L->getValue(), 10, false) << "\"}";
            return;
        }
        if (auto *L = dyn_cast<FloatingLiteral>(E)) {
            head(o, E, "lit");
            llvm::SmallString<32> s;
            L->getValue().toString(s);
            o << ",\"t\":\"float\",\"v\":\"" << jesc(s) << "\"}";
            return;
        }
        if (auto *L = dyn_cast<CXXBoolLiteralExpr>(E)) {
            head(o, E, "lit");
            o << ",\"t\":\"bool\",\"v\":\"" << (L->getValue() ? "true" : "false") << "\"}";
            return;
        }
        if (auto *L = dyn_cast<StringLiteral>(E)) {
            head(o, E, "lit");
            o << ",\"t\":\"str\",\"v\":\"" << (L->getCharByteWidth() == 1 ? jesc(L->getString()) : std::string("?")) << "\"}";
            return;
        }
        if (auto *L = dyn_cast<CharacterLiteral>(E)) {
            head(o, E, "lit");
            o << ",\"t\":\"char\",\"v\":\"" << L->getValue() << "\"}";
            return;
        }
        if (isa<CXXNullPtrLiteralExpr>(E) || isa<GNUNullExpr>(E)) {
            head(o, E, "lit");
            o << ",\"t\":\"null\",\"v\":\"0\"}";
            return;
        }
        if (auto *A = dyn_cast<ArraySubscriptExpr>(E)) {
            head(o, E, "idx");
            o << ",\"b\":";
            expr(o, A->getBase());
            o << ",\"x\":";
            expr(o, A->getIdx());
            o << "}";
            return;
        }
        if (auto *OC = dyn_cast<CXXOperatorCallExpr>(E)) {
            OverloadedOperatorKind K = OC->getOperator();
            const FunctionDecl *FD = OC->getDirectCallee();
            std::string sp = getOperatorSpelling(K);
            if (K == OO_Subscript && OC->getNumArgs() == 2) {
                head(o, E, "idx");
                calleeInfo(o, FD);
                o << ",\"b\":";
                expr(o, OC->getArg(0));
                o << ",\"x\":";
                expr(o, OC->getArg(1));
                o << "}";
                return;
            }
            if (K == OO_Call) {
                head(o, E, "call");
                calleeInfo(o, FD);
                o << ",\"op\":\"()\",\"obj\":";
                expr(o, OC->getArg(0));
                std::vector<const Expr *> a(OC->arg_begin() + 1, OC->arg_end());
                o << ",\"a\":";
                args(o, a);
                o << "}";
                return;
            }
            if (OC->getNumArgs() == 1 || (OC->getNumArgs() == 2 && (K == OO_PlusPlus || K == OO_MinusMinus))) {
                head(o, E, "un");
                calleeInfo(o, FD);
                bool post = OC->getNumArgs() == 2;
                o << ",\"op\":\"" << sp << "\"" << (post ? ",\"post\":1" : "") << ",\"e\":";
                expr(o, OC->getArg(0));
                o << "}";
                return;
            }
            if (OC->getNumArgs() == 2) {
                head(o, E, "bin");
                calleeInfo(o, FD);
                o << ",\"op\":\"" << sp << "\",\"x\":";
                expr(o, OC->getArg(0));
                o << ",\"y\":";
                expr(o, OC->getArg(1));
                o << "}";
                return;
            }
        }
        if (auto *MC = dyn_cast<CXXMemberCallExpr>(E)) {
            head(o, E, "call");
            const FunctionDecl *FD = MC->getDirectCallee();
            calleeInfo(o, FD);
            if (FD && isa<CXXConversionDecl>(FD)) o << ",\"conv\":1";
            if (FD) o << ",\"m\":\"" << jesc(FD->getNameAsString()) << "\"";
            o << ",\"obj\":";
            if (MC->getImplicitObjectArgument()) expr(o, MC->getImplicitObjectArgument());
            else {
                // pointer-to-member etc.
                expr(o, MC->getCallee());
            }
            std::vector<const Expr *> a(MC->arg_begin(), MC->arg_end());
            o << ",\"a\":";
            args(o, a);
            o << "}";
            return;
        }
        if (auto *CE = dyn_cast<CallExpr>(E)) {
            head(o, E, "call");
            const FunctionDecl *FD = CE->getDirectCallee();
            if (FD) calleeInfo(o, FD);
            else {
                o << ",\"callee\":";
                expr(o, CE->getCallee());
            }
            std::vector<const Expr *> a(CE->arg_begin(), CE->arg_end());
            o << ",\"a\":";
            args(o, a);
            o << "}";
            return;
        }
        if (auto *B = dyn_cast<BinaryOperator>(E)) {
            head(o, E, "bin");
            o << ",\"op\":\"" << B->getOpcodeStr().str() << "\",\"x\":";
            expr(o, B->getLHS());
            o << ",\"y\":";
            expr(o, B->getRHS());
            o << "}";
            return;
        }
        if (auto *U = dyn_cast<UnaryOperator>(E)) {
            head(o, E, "un");
            o << ",\"op\":\"" << UnaryOperator::getOpcodeStr(U->getOpcode()).str() << "\"";
            if (U->isPostfix()) o << ",\"post\":1";
            o << ",\"e\":";
            expr(o, U->getSubExpr());
            o << "}";
            return;
        }
        if (auto *Q = dyn_cast<ConditionalOperator>(E)) {
            head(o, E, "cond");
            o << ",\"c\":";
            expr(o, Q->getCond());
            o << ",\"x\":";
            expr(o, Q->getTrueExpr());
            o << ",\"y\":";
            expr(o, Q->getFalseExpr());
            o << "}";
            return;
        }
        if (auto *N = dyn_cast<CXXNewExpr>(E)) {
            head(o, E, "new");
            o << ",\"t\":" << typeOf(N->getAllocatedType()) << ",\"ct\":" << typeOf(N->getAllocatedType().getCanonicalType());
            if (N->isArray()) {
                o << ",\"n\":";
                if (N->getArraySize()) expr(o, *N->getArraySize());
                else o << "null";
            }
            if (N->getInitializer()) {
                o << ",\"init\":";
                expr(o, N->getInitializer());
            }
            o << "}";
            return;
        }
        if (auto *D = dyn_cast<CXXDeleteExpr>(E)) {
            head(o, E, "delete");
            if (D->isArrayForm()) o << ",\"arr\":1";
            o << ",\"t\":" << typeOf(D->getDestroyedType());
            if (!D->getDestroyedType().isNull()) o << ",\"ct\":" << typeOf(D->getDestroyedType().getCanonicalType());
            o << ",\"e\":";
            expr(o, D->getArgument());
            o << "}";
            return;
        }
        if (auto *CE = dyn_cast<CXXConstructExpr>(E)) {
            head(o, E, "ctor");
            o << ",\"t\":" << typeOf(CE->getType()) << ",\"ct\":" << typeOf(CE->getType().getCanonicalType());
            calleeInfo(o, CE->getConstructor());
            std::vector<const Expr *> a(CE->arg_begin(), CE->arg_end());
            o << ",\"a\":";
            args(o, a);
            o << "}";
            return;
        }
        if (auto *CE = dyn_cast<ExplicitCastExpr>(E)) {
            head(o, E, "cast");
            const char *ck = "c";
            if (isa<CXXStaticCastExpr>(E)) ck = "static";
            else if (isa<CXXReinterpretCastExpr>(E)) ck = "reinterpret";
            else if (isa<CXXConstCastExpr>(E)) ck = "const";
            else if (isa<CXXDynamicCastExpr>(E)) ck = "dynamic";
            else if (isa<CXXFunctionalCastExpr>(E)) ck = "functional";
            o << ",\"ck\":\"" << ck << "\",\"t\":" << typeOf(CE->getTypeAsWritten()) << ",\"ct\":" << typeOf(CE->getTypeAsWritten().getCanonicalType()) << ",\"e\":";
            expr(o, CE->getSubExpr());
            o << "}";
            return;
        }
        if (auto *T = dyn_cast<CXXThrowExpr>(E)) {
            head(o, E, "throw");
            if (T->getSubExpr()) {
                o << ",\"t\":" << typeOf(T->getSubExpr()->getType()) << ",\"e\":";
                expr(o, T->getSubExpr());
            }
            o << "}";
            return;
        }
        if (auto *DA = dyn_cast<CXXDefaultArgExpr>(E)) {
            // default argument: emit its expression flagged (ids stay unique per occurrence
            // only for the wrapper; inner nodes are emitted fresh)
            head(o, E, "defarg");
            o << ",\"e\":";
            // the default-arg expression is shared between call sites: emit without registering ids twice
            std::unordered_map<const Stmt *, int> save = nodeId;
            expr(o, DA->getExpr());
            int me = nodeId[E];
            nodeId = save;
            nodeId[E] = me;
            o << "}";
            return;
        }
        if (auto *DI = dyn_cast<CXXDefaultInitExpr>(E)) {
            head(o, E, "definit");
            o << ",\"e\":";
            std::unordered_map<const Stmt *, int> save = nodeId;
            expr(o, DI->getExpr());
            int me = nodeId[E];
            nodeId = save;
            nodeId[E] = me;
            o << "}";
            return;
        }
        if (auto *IL = dyn_cast<InitListExpr>(E)) {
            head(o, E, "initlist");
            // InitListExpr children are Stmt*
            o << ",\"a\":[";
            bool first = true;
            for (auto *c : IL->inits()) {
                if (!first) o << ",";
                first = false;
                expr(o, c);
            }
            o << "]}";
            return;
        }
        if (auto *L = dyn_cast<LambdaExpr>(E)) {
            head(o, E, "lambda");
            // the call operator is emitted as a function of its own (with CFG) after the enclosing function: "fd"
            if (const CXXMethodDecl *CO = L->getCallOperator()) {
                if (!CO->isDependentContext() && CO->doesThisDeclarationHaveABody()) {
                    o << ",\"fd\":" << declOf(CO);
                    pendingLambdas.push_back(CO);
                }
            }
            o << ",\"b\":";
            stmt(o, L->getBody());
            o << "}";
            return;
        }
        if (isa<CXXScalarValueInitExpr>(E) || isa<ImplicitValueInitExpr>(E)) {
            head(o, E, "zeroinit");
            o << ",\"t\":" << typeOf(E->getType()) << "}";
            return;
        }
        if (auto *U = dyn_cast<UnaryExprOrTypeTraitExpr>(E)) {
            head(o, E, "sizeof");
            o << ",\"t\":" << typeOf(U->getTypeOfArgument());
            if (!U->isValueDependent() && !U->getTypeOfArgument().isNull() && !U->getTypeOfArgument()->isDependentType()) {
                // canonical argument type and the value (instantiations): "ct", "sv"
                o << ",\"ct\":" << typeOf(U->getTypeOfArgument().getCanonicalType());
                Expr::EvalResult R;
                if (U->EvaluateAsInt(R, C) && !R.HasSideEffects)
                    o << ",\"sv\":\"" << llvm::toString(R.Val.getInt(), 10) << "\"";
            }
            o << "}";
            return;
        }
        // ---- dependent forms (pattern mode)
        if (auto *DM = dyn_cast<CXXDependentScopeMemberExpr>(E)) {
            head(o, E, "dmem");
            o << ",\"n\":\"" << jesc(DM->getMember().getAsString()) << "\"";
            if (DM->hasExplicitTemplateArgs()) {
                std::string ta;
                llvm::raw_string_ostream os(ta);
                printTemplateArgumentList(os, DM->template_arguments(), PP);
                os.flush();
                o << ",\"targs\":\"" << jesc(ta) << "\"";
            }
            if (DM->isArrow()) o << ",\"arrow\":1";
            o << ",\"b\":";
            if (!DM->isImplicitAccess()) expr(o, DM->getBase());
            else o << "null";
            o << "}";
            return;
        }
        if (auto *UL = dyn_cast<UnresolvedLookupExpr>(E)) {
            head(o, E, "uref");
            std::string q;
            if (UL->getQualifier()) {
                llvm::raw_string_ostream os(q);
                UL->getQualifier()->print(os, PP);
            }
            o << ",\"n\":\"" << jesc(q + UL->getName().getAsString()) << "\"";
            if (UL->hasExplicitTemplateArgs()) {
                std::string ta;
                llvm::raw_string_ostream os(ta);
                printTemplateArgumentList(os, UL->template_arguments(), PP);
                os.flush();
                o << ",\"targs\":\"" << jesc(ta) << "\"";
            }
            o << "}";
            return;
        }
        if (auto *UM = dyn_cast<UnresolvedMemberExpr>(E)) {
            head(o, E, "dmem");
            o << ",\"n\":\"" << jesc(UM->getMemberName().getAsString()) << "\"";
            if (UM->hasExplicitTemplateArgs()) {
                std::string ta;
                llvm::raw_string_ostream os(ta);
                printTemplateArgumentList(os, UM->template_arguments(), PP);
                os.flush();
                o << ",\"targs\":\"" << jesc(ta) << "\"";
            }
            if (UM->isArrow()) o << ",\"arrow\":1";
            o << ",\"b\":";
            if (!UM->isImplicitAccess()) expr(o, UM->getBase());
            else o << "null";
            o << "}";
            return;
        }
        if (auto *DR = dyn_cast<DependentScopeDeclRefExpr>(E)) {
            head(o, E, "uref");
            std::string q;
            if (DR->getQualifier()) {
                llvm::raw_string_ostream os(q);
                DR->getQualifier()->print(os, PP);
            }
            o << ",\"n\":\"" << jesc(q + DR->getDeclName().getAsString()) << "\"}";
            return;
        }
        if (auto *UC = dyn_cast<CXXUnresolvedConstructExpr>(E)) {
            head(o, E, "ctor");
            o << ",\"t\":" << typeOf(UC->getTypeAsWritten()) << ",\"unresolved\":1,\"a\":[";
            bool first = true;
            for (auto *c : UC->arguments()) {
                if (!first) o << ",";
                first = false;
                expr(o, c);
            }
            o << "]}";
            return;
        }
        if (auto *PL = dyn_cast<ParenListExpr>(E)) {
            head(o, E, "parenlist");
            o << ",\"a\":[";
            bool first = true;
            for (auto *c : const_cast<ParenListExpr *>(PL)->exprs()) {
                if (!first) o << ",";
                first = false;
                expr(o, c);
            }
            o << "]}";
            return;
        }
        generic(o, E);
    }

    void generic(std::ostringstream &o, const Stmt *S) {
        head(o, S, "x");
        o << ",\"c\":\"" << S->getStmtClassName() << "\",\"ch\":[";
        bool first = true;
        for (const Stmt *c : S->children()) {
            if (!first) o << ",";
            first = false;
            if (!c) { o << "null"; continue; }
            if (auto *e = dyn_cast<Expr>(c)) expr(o, e);
            else stmt(o, c);
        }
        o << "]}";
    }

    void varDecl(std::ostringstream &o, const VarDecl *VD) {
        o << "{\"d\":" << declOf(VD) << ",\"n\":\"" << jesc(VD->getNameAsString()) << "\",\"t\":" << typeOf(VD->getType());
        if (VD->isStaticLocal()) o << ",\"static\":1";
        if (VD->hasInit()) {
            o << ",\"init\":";
            expr(o, VD->getInit());
            if (VD->getInitStyle() != VarDecl::CInit) o << ",\"style\":\"" << (VD->getInitStyle() == VarDecl::CallInit ? "call" : "list") << "\"";
        }
        // structured binding `auto [a, b] = e;`: the names bound to the components of the (unnamed) variable
        if (auto *DD = dyn_cast<DecompositionDecl>(VD)) {
            o << ",\"bind\":[";
            bool firstB = true;
            for (auto *B : DD->bindings()) {
                if (!firstB) o << ",";
                firstB = false;
                o << "{\"d\":" << declOf(B) << ",\"n\":\"" << jesc(B->getNameAsString()) << "\"}";
            }
            o << "]";
        }
        o << "}";
    }

    void ompClauses(std::ostringstream &o, const OMPExecutableDirective *D) {
        o << ",\"clauses\":[";
        bool first = true;
        for (const OMPClause *Cl : D->clauses()) {
            if (!Cl) continue;
            if (!first) o << ",";
            first = false;
            o << "{\"c\":\"" << llvm::omp::getOpenMPClauseName(Cl->getClauseKind()).str() << "\"";
            auto vars = [&](auto *VC) {
                o << ",\"vars\":[";
                bool f2 = true;
                for (const Expr *v : VC->varlists()) {
                    if (!f2) o << ",";
                    f2 = false;
                    std::unordered_map<const Stmt *, int> save = nodeId;
                    expr(o, v);
                    nodeId = save;
                }
                o << "]";
            };
            if (auto *P = dyn_cast<OMPPrivateClause>(Cl)) vars(P);
            else if (auto *P = dyn_cast<OMPFirstprivateClause>(Cl)) vars(P);
            else if (auto *P = dyn_cast<OMPLastprivateClause>(Cl)) vars(P);
            else if (auto *P = dyn_cast<OMPSharedClause>(Cl)) vars(P);
            else if (auto *P = dyn_cast<OMPReductionClause>(Cl)) {
                vars(P);
                o << ",\"op\":\"" << jesc(P->getNameInfo().getAsString()) << "\"";
            } else if (auto *P = dyn_cast<OMPScheduleClause>(Cl)) {
                o << ",\"kind\":\"" << getOpenMPSimpleClauseTypeName(llvm::omp::OMPC_schedule, P->getScheduleKind()) << "\"";
            }
            o << "}";
        }
        o << "]";
    }

    void stmt(std::ostringstream &o, const Stmt *S) {
        if (!S) { o << "null"; return; }
        if (auto *E = dyn_cast<Expr>(S)) { expr(o, E); return; }
        if (auto *CS = dyn_cast<CompoundStmt>(S)) {
            head(o, S, "block");
            o << ",\"s\":[";
            bool first = true;
            for (auto *c : CS->body()) {
                if (!first) o << ",";
                first = false;
                stmt(o, c);
            }
            o << "]}";
            return;
        }
        if (auto *DS = dyn_cast<DeclStmt>(S)) {
            head(o, S, "decl");
            o << ",\"v\":[";
            bool first = true;
            for (auto *D : DS->decls()) {
                if (auto *VD = dyn_cast<VarDecl>(D)) {
                    if (!first) o << ",";
                    first = false;
                    varDecl(o, VD);
                }
            }
            o << "]}";
            return;
        }
        if (auto *I = dyn_cast<IfStmt>(S)) {
            head(o, S, "if");
            if (I->getInit()) { o << ",\"init\":"; stmt(o, I->getInit()); }
            o << ",\"c\":";
            expr(o, I->getCond());
            o << ",\"t\":";
            stmt(o, I->getThen());
            if (I->getElse()) { o << ",\"e\":"; stmt(o, I->getElse()); }
            o << "}";
            return;
        }
        if (auto *F = dyn_cast<ForStmt>(S)) {
            head(o, S, "for");
            if (F->getInit()) { o << ",\"init\":"; stmt(o, F->getInit()); }
            if (F->getCond()) { o << ",\"c\":"; expr(o, F->getCond()); }
            if (F->getInc()) { o << ",\"inc\":"; expr(o, F->getInc()); }
            o << ",\"b\":";
            stmt(o, F->getBody());
            o << "}";
            return;
        }
        if (auto *W = dyn_cast<WhileStmt>(S)) {
            head(o, S, "while");
            o << ",\"c\":";
            expr(o, W->getCond());
            o << ",\"b\":";
            stmt(o, W->getBody());
            o << "}";
            return;
        }
        if (auto *W = dyn_cast<DoStmt>(S)) {
            head(o, S, "do");
            o << ",\"b\":";
            stmt(o, W->getBody());
            o << ",\"c\":";
            expr(o, W->getCond());
            o << "}";
            return;
        }
        if (auto *R = dyn_cast<CXXForRangeStmt>(S)) {
            head(o, S, "rfor");
            if (R->getLoopVariable()) { o << ",\"var\":"; varDecl(o, R->getLoopVariable()); }
            o << ",\"range\":";
            expr(o, R->getRangeInit());
            o << ",\"b\":";
            stmt(o, R->getBody());
            o << "}";
            return;
        }
        if (auto *R = dyn_cast<ReturnStmt>(S)) {
            head(o, S, "ret");
            if (R->getRetValue()) { o << ",\"e\":"; expr(o, R->getRetValue()); }
            o << "}";
            return;
        }
        if (isa<BreakStmt>(S)) { head(o, S, "break"); o << "}"; return; }
        if (isa<ContinueStmt>(S)) { head(o, S, "continue"); o << "}"; return; }
        if (isa<NullStmt>(S)) { head(o, S, "null"); o << "}"; return; }
        if (auto *G = dyn_cast<GotoStmt>(S)) {
            head(o, S, "goto");
            o << ",\"label\":\"" << jesc(G->getLabel()->getNameAsString()) << "\"}";
            return;
        }
        if (auto *L = dyn_cast<LabelStmt>(S)) {
            head(o, S, "label");
            o << ",\"label\":\"" << jesc(L->getDecl()->getNameAsString()) << "\",\"s\":";
            stmt(o, L->getSubStmt());
            o << "}";
            return;
        }
        if (auto *T = dyn_cast<CXXTryStmt>(S)) {
            head(o, S, "try");
            o << ",\"b\":";
            stmt(o, T->getTryBlock());
            o << ",\"h\":[";
            for (unsigned i = 0; i < T->getNumHandlers(); ++i) {
                if (i) o << ",";
                const CXXCatchStmt *H = T->getHandler(i);
                int id = nextNode++;
                nodeId[H] = id;
                o << "{\"i\":" << id << ",\"k\":\"catch\",\"l\":" << lineOf(H->getBeginLoc());
                if (H->getExceptionDecl()) o << ",\"t\":" << typeOf(H->getCaughtType());
                else o << ",\"all\":1";
                o << ",\"b\":";
                stmt(o, H->getHandlerBlock());
                o << "}";
            }
            o << "]}";
            return;
        }
        if (auto *SW = dyn_cast<SwitchStmt>(S)) {
            head(o, S, "switch");
            o << ",\"c\":";
            expr(o, SW->getCond());
            o << ",\"b\":";
            stmt(o, SW->getBody());
            o << "}";
            return;
        }
        if (auto *CS = dyn_cast<CaseStmt>(S)) {
            head(o, S, "case");
            o << ",\"v\":";
            expr(o, CS->getLHS());
            o << ",\"s\":";
            stmt(o, CS->getSubStmt());
            o << "}";
            return;
        }
        if (auto *DS = dyn_cast<DefaultStmt>(S)) {
            head(o, S, "default");
            o << ",\"s\":";
            stmt(o, DS->getSubStmt());
            o << "}";
            return;
        }
        if (auto *CS = dyn_cast<CapturedStmt>(S)) {
            stmt(o, CS->getCapturedStmt());
            auto it = nodeId.find(CS->getCapturedStmt());
            if (it != nodeId.end()) nodeId[S] = it->second;
            return;
        }
        if (auto *OD = dyn_cast<OMPExecutableDirective>(S)) {
            head(o, S, "omp");
            o << ",\"dir\":\"" << llvm::omp::getOpenMPDirectiveName(OD->getDirectiveKind()).str() << "\"";
            if (auto *CD = dyn_cast<OMPCriticalDirective>(OD))
                o << ",\"name\":\"" << jesc(CD->getDirectiveName().getAsString()) << "\"";
            ompClauses(o, OD);
            if (OD->hasAssociatedStmt() && OD->getAssociatedStmt()) {
                o << ",\"b\":";
                stmt(o, OD->getAssociatedStmt());
            }
            o << "}";
            return;
        }
        generic(o, S);
    }

    // ------------------------------------------------------------ functions
    bool wanted(const FunctionDecl *FD, std::string &file) {
        if (!FD->doesThisDeclarationHaveABody()) return false;
        if (FD->isDefaulted() || FD->isDeleted()) return false;
        file = fileName(FD->getLocation());
        if (!inRoot(file)) return false;
        if (only && !only->match(file)) return false;
        bool dep = FD->isDependentContext();
        if (dep && !Patterns) return false;
        if (!dep && NoInst) return false;
        return true;
    }

    void function(const FunctionDecl *FD, bool isLambda = false) {
        std::string file;
        if (!wanted(FD, file)) return;
        if (!doneF.insert(FD).second) return;
        const Stmt *Body = FD->getBody();
        if (!Body) return;

        nodeId.clear();
        nextNode = 0;
        curFile = file;

        std::ostringstream o;
        o << "{\"id\":" << declOf(FD) << ",\"q\":\"" << jesc(qname(FD)) << "\",\"full\":\"" << jesc(fullname(FD)) << "\"";
        o << ",\"file\":" << fileOf(file) << ",\"line\":" << lineOf(FD->getLocation());
        if (FD->isDependentContext()) o << ",\"dep\":1";
        if (isLambda) o << ",\"lambda\":1";
        // template pattern location (groups instantiations of one template)
        const FunctionDecl *Pat = FD->getTemplateInstantiationPattern();
        if (Pat) o << ",\"pat\":\"" << jesc(fileName(Pat->getLocation())) << ":" << lineOf(Pat->getLocation()) << "\"";
        if (auto *MD = dyn_cast<CXXMethodDecl>(FD)) {
            o << ",\"cls\":\"" << jesc(qname(MD->getParent())) << "\",\"clsfull\":\"" << jesc(fullname(MD->getParent())) << "\"";
            if (MD->isConst()) o << ",\"constm\":1";
            if (MD->isStatic()) o << ",\"staticm\":1";
            if (isa<CXXConstructorDecl>(MD)) o << ",\"ctor\":1";
            if (isa<CXXDestructorDecl>(MD)) o << ",\"dtor\":1";
        }
        o << ",\"ret\":" << typeOf(FD->getReturnType());
        if (!FD->getReturnType().isNull() && !FD->getReturnType()->isDependentType()) o << ",\"cret\":" << typeOf(FD->getReturnType().getCanonicalType());
        o << ",\"params\":[";
        for (unsigned i = 0; i < FD->getNumParams(); ++i) {
            if (i) o << ",";
            o << declOf(FD->getParamDecl(i));
        }
        o << "]";
        if (auto *CD = dyn_cast<CXXConstructorDecl>(FD)) {
            o << ",\"inits\":[";
            bool first = true;
            for (const CXXCtorInitializer *I : CD->inits()) {
                if (!I->isWritten() && !Patterns) {
                    // keep unwritten ones too: default member initialisation matters for "initialised?" rules
                }
                if (!first) o << ",";
                first = false;
                o << "{";
                if (I->isAnyMemberInitializer()) o << "\"m\":\"" << jesc(I->getAnyMember()->getNameAsString()) << "\",\"d\":" << declOf(I->getAnyMember());
                else if (I->isBaseInitializer()) o << "\"base\":" << typeOf(QualType(I->getBaseClass(), 0));
                else o << "\"delegating\":1";
                if (I->isWritten()) o << ",\"written\":1,\"l\":" << lineOf(I->getSourceLocation()) << ",\"sl\":" << spellLineOf(I->getSourceLocation());
                o << ",\"e\":";
                expr(o, I->getInit());
                o << "}";
            }
            o << "]";
        }
        o << ",\"body\":";
        stmt(o, Body);

        // CFG
        CFG::BuildOptions BO;
        BO.AddImplicitDtors = false;
        BO.AddTemporaryDtors = false;
        BO.AddInitializers = true;
        BO.PruneTriviallyFalseEdges = true;
        BO.AddEHEdges = false;
        std::unique_ptr<CFG> cfg;
        if (!FD->isDependentContext()) cfg = CFG::buildCFG(FD, const_cast<Stmt *>(Body), &C, BO);
        if (cfg) {
            o << ",\"cfg\":{\"entry\":" << cfg->getEntry().getBlockID() << ",\"exit\":" << cfg->getExit().getBlockID() << ",\"blocks\":[";
            bool firstB = true;
            for (const CFGBlock *B : *cfg) {
                if (!firstB) o << ",";
                firstB = false;
                o << "{\"id\":" << B->getBlockID() << ",\"el\":[";
                bool first = true;
                for (const CFGElement &El : *B) {
                    if (auto CS = El.getAs<CFGStmt>()) {
                        const Stmt *S = CS->getStmt();
                        auto it = nodeId.find(S);
                        int id;
                        if (it != nodeId.end()) id = it->second;
                        else {
                            // synthesized statement (e.g. split DeclStmt): look through to its decl's init
                            id = -1;
                            if (auto *DS = dyn_cast<DeclStmt>(S)) {
                                if (DS->isSingleDecl())
                                    if (auto *VD = dyn_cast<VarDecl>(DS->getSingleDecl())) {
                                        if (!first) o << ",";
                                        first = false;
                                        o << "{\"declof\":" << declOf(VD) << "}";
                                        continue;
                                    }
                            }
                        }
                        if (!first) o << ",";
                        first = false;
                        o << id;
                    } else if (auto CI = El.getAs<CFGInitializer>()) {
                        if (!first) o << ",";
                        first = false;
                        const CXXCtorInitializer *I = CI->getInitializer();
                        o << "{\"init\":\"" << (I->isAnyMemberInitializer() ? jesc(I->getAnyMember()->getNameAsString()) : std::string("<base>")) << "\"}";
                    }
                }
                o << "]";
                if (const Stmt *T = B->getTerminatorStmt()) {
                    auto it = nodeId.find(T);
                    o << ",\"term\":" << (it != nodeId.end() ? it->second : -1);
                    o << ",\"tk\":\"" << T->getStmtClassName() << "\"";
                }
                if (const Stmt *Cd = B->getTerminatorCondition(false)) {
                    auto it = nodeId.find(Cd);
                    o << ",\"cond\":" << (it != nodeId.end() ? it->second : -1);
                }
                if (const Stmt *L = B->getLabel()) {
                    auto it = nodeId.find(L);
                    if (it != nodeId.end()) o << ",\"label\":" << it->second;
                }
                if (B->hasNoReturnElement()) o << ",\"noreturn\":1";
                o << ",\"succ\":[";
                first = true;
                for (auto SI = B->succ_begin(); SI != B->succ_end(); ++SI) {
                    if (!first) o << ",";
                    first = false;
                    const CFGBlock *SB = SI->getReachableBlock();
                    if (SB) o << SB->getBlockID();
                    else o << "null";
                }
                o << "]}";
            }
            o << "]}";
        }
        o << "}";
        funcs.push_back(o.str());
        // lambdas met in this function: emit their call operators (the queue may grow while doing so)
        if (!inLambdaQueue) {
            inLambdaQueue = true;
            while (!pendingLambdas.empty()) {
                const FunctionDecl *LF = pendingLambdas.back();
                pendingLambdas.pop_back();
                function(LF, true);
            }
            inLambdaQueue = false;
        }
    }

    void record(const CXXRecordDecl *RD) {
        if (!RD->isThisDeclarationADefinition()) return;
        if (RD->isLambda() || RD->isImplicit()) return;
        std::string file = fileName(RD->getLocation());
        if (!inRoot(file)) return;
        if (only && !only->match(file)) return;
        bool dep = RD->isDependentContext();
        if (dep && !Patterns) return;
        if (!dep && NoInst) return;
        if (!doneR.insert(RD).second) return;
        std::ostringstream o;
        o << "{\"id\":" << declOf(RD) << ",\"q\":\"" << jesc(qname(RD)) << "\",\"full\":\"" << jesc(fullname(RD)) << "\",\"file\":" << fileOf(file)
          << ",\"line\":" << lineOf(RD->getLocation());
        if (dep) o << ",\"dep\":1";
        o << ",\"fields\":[";
        bool first = true;
        for (const FieldDecl *F : RD->fields()) {
            if (!first) o << ",";
            first = false;
            o << "{\"n\":\"" << jesc(F->getNameAsString()) << "\",\"d\":" << declOf(F) << ",\"t\":" << typeOf(F->getType()) << ",\"ct\":" << typeOf(F->getType().getCanonicalType()) << ",\"l\":" << lineOf(F->getLocation());
            if (F->isMutable()) o << ",\"mutable\":1";
            if (F->hasInClassInitializer()) o << ",\"hasinit\":1";
            o << "}";
        }
        o << "],\"bases\":[";
        first = true;
        for (const CXXBaseSpecifier &B : RD->bases()) {
            if (!first) o << ",";
            first = false;
            o << typeOf(B.getType().getCanonicalType());
        }
        o << "],\"methods\":[";
        first = true;
        for (const Decl *D : RD->decls()) {
            const FunctionDecl *FD = nullptr;
            if (auto *M = dyn_cast<CXXMethodDecl>(D)) FD = M;
            else if (auto *FT = dyn_cast<FunctionTemplateDecl>(D)) FD = FT->getTemplatedDecl();
            if (!FD || FD->isImplicit()) continue;
            if (!first) o << ",";
            first = false;
            o << "{\"n\":\"" << jesc(FD->getNameAsString()) << "\",\"d\":" << declOf(FD) << ",\"l\":" << lineOf(FD->getLocation()) << ",\"np\":" << FD->getNumParams() << "}";
        }
        o << "]}";
        records.push_back(o.str());
    }

    void enumDecl(const EnumDecl *ED) {
        if (!ED->isThisDeclarationADefinition()) return;
        std::string file = fileName(ED->getLocation());
        if (!inRoot(file)) return;
        std::ostringstream o;
        o << "{\"q\":\"" << jesc(qname(ED)) << "\",\"file\":" << fileOf(file) << ",\"line\":" << lineOf(ED->getLocation()) << ",\"e\":[";
        bool first = true;
        for (const EnumConstantDecl *EC : ED->enumerators()) {
            if (!first) o << ",";
            first = false;
            o << "{\"n\":\"" << jesc(EC->getNameAsString()) << "\",\"v\":" << EC->getInitVal().getExtValue() << ",\"d\":" << declOf(EC) << "}";
        }
        o << "]}";
        enums.push_back(o.str());
    }

    void write(const std::string &path, const std::string &mainFile, unsigned nerr) {
        std::ofstream f(path);
        f << "{\"unit\":\"" << jesc(mainFile) << "\",\"errors\":" << nerr << ",\"root\":\"" << jesc(Root) << "\",\n\"functions\":[\n";
        for (size_t i = 0; i < funcs.size(); ++i) f << (i ? ",\n" : "") << funcs[i];
        f << "\n],\n\"records\":[\n";
        for (size_t i = 0; i < records.size(); ++i) f << (i ? ",\n" : "") << records[i];
        f << "\n],\n\"enums\":[\n";
        for (size_t i = 0; i < enums.size(); ++i) f << (i ? ",\n" : "") << enums[i];
        f << "\n],\n\"decls\":[\n";
        for (size_t i = 0; i < declJson.size(); ++i) f << (i ? ",\n" : "") << (declJson[i].empty() ? "{}" : declJson[i]);
        f << "\n],\n\"types\":[";
        for (size_t i = 0; i < types.size(); ++i) f << (i ? "," : "") << "\"" << jesc(types[i]) << "\"";
        f << "],\n\"files\":[";
        for (size_t i = 0; i < files.size(); ++i) f << (i ? "," : "") << "\"" << jesc(files[i]) << "\"";
        f << "]}\n";
    }
};

class Visitor : public RecursiveASTVisitor<Visitor> {
  public:
    Dumper &D;
    explicit Visitor(Dumper &d) : D(d) {}
    bool shouldVisitTemplateInstantiations() const { return true; }
    bool shouldVisitImplicitCode() const { return false; }
    bool VisitFunctionDecl(FunctionDecl *FD) {
        D.function(FD);
        return true;
    }
    bool VisitCXXRecordDecl(CXXRecordDecl *RD) {
        D.record(RD);
        return true;
    }
    bool VisitEnumDecl(EnumDecl *ED) {
        D.enumDecl(ED);
        return true;
    }
};

class Consumer : public ASTConsumer {
  public:
    void HandleTranslationUnit(ASTContext &Ctx) override {
        Dumper D(Ctx);
        Visitor V(D);
        V.TraverseDecl(Ctx.getTranslationUnitDecl());
        auto &SM = Ctx.getSourceManager();
        std::string mainFile;
        if (auto *FE = SM.getFileEntryForID(SM.getMainFileID())) mainFile = FE->getName().str();
        unsigned nerr = Ctx.getDiagnostics().getClient()->getNumErrors();
        D.write(OutFile, mainFile, nerr);
    }
};

class Action : public ASTFrontendAction {
  public:
    std::unique_ptr<ASTConsumer> CreateASTConsumer(CompilerInstance &, llvm::StringRef) override {
        return std::make_unique<Consumer>();
    }
};

}  // namespace

int main(int argc, const char **argv) {
    auto Exp = CommonOptionsParser::create(argc, argv, Cat);
    if (!Exp) {
        llvm::errs() << Exp.takeError();
        return 2;
    }
    ClangTool Tool(Exp->getCompilations(), Exp->getSourcePathList());
    int rc = Tool.run(newFrontendActionFactory<Action>().get());
    return rc;
}
