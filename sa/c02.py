"""C02 - the multigrid cycle is a fixed (history-free) operator with V/W shape (DESIGN.md 4, C02).

A  history freedom: each per-level scratch vector (nxt->f, nxt->u, lvl->t) is killed before it is read on
   every path of one cycle application; apply() kills x before the first cycle.
B  shape (typestate over one iteration of the ncycle loop):
     pre-smoothing*  ->  t := rhs - A x  ->  nxt.f := R t (overwrite)  ->  [nxt.u := 0]  ->  cycle(nxt, nxt.f, nxt.u)
     ->  x += P nxt.u (accumulate)  ->  post-smoothing*
   coarsest level: direct solve only under `if (lvl->solve)`, otherwise pre-sweeps before post-sweeps.
C  symmetric smoothing: gauss_seidel apply_pre -> forward sweeps only, apply_post -> backward only;
   for the other symmetric smoothers apply_pre and apply_post have identical bodies.
"""
import json
import os

import ir
import inline
from ir import walk, unwrap, show
from absint import AbsInt
from accesses import Analyzer, zero_trip_roots
from effects import locate, prim_name, classify_coef, PRIMS
from framework import Check

SYMMETRIC_SAME_BODY = ['damped_jacobi', 'spai0', 'ilu0', 'iluk', 'ilup', 'chebyshev', 'spai1', 'ilut']


def cycle_functions(units):
    for u in units.values():
        for f in u.funcs:
            if f.q in ('amgcl::amg::cycle', 'amgcl::mpi::amg::cycle') and len(f.params) == 3 and f.cfg is not None:
                # helpers of the amg class that hold parts of the cycle (extracted methods) are analysed in place
                yield u, inline.expand(f, inline.same_class_helper(keep=('cycle', 'apply')))


def arg_root(an, f, arg):
    """root of the object an argument expression denotes (with handle member refinement)"""
    return an.expr_root(f, arg)


def classify_calls(an, f):
    """[(node, kind, info)] for the calls that make up the cycle"""
    out = []
    lvl = ('param', 0)
    rhs = ('param', 1)
    x = ('param', 2)
    nxt = None
    for n in f.nodes.values():
        if n['k'] == 'decl':
            for v in n['v']:
                if v.get('init') is not None and an.is_handle(f, v['d']):
                    init = unwrap(v['init'])
                    incs = [m for m in f.nodes.values() if m['k'] == 'un' and m['op'] == '++' and unwrap(m['e'])['k'] == 'ref' and unwrap(m['e'])['d'] == v['d']]
                    if an.root_of_expr(f, init, {}) == lvl and init['k'] == 'ref':
                        # level_iterator nxt = lvl; (advanced by ++nxt below)
                        if len(incs) == 1:
                            nxt = ('var', v['d'])
                    elif init['k'] == 'call' and (init.get('f') or '').split('<')[0] in ('std::next',) and 1 <= len(init.get('a', [])) <= 2 and not incs \
                            and an.root_of_expr(f, init['a'][0], {}) == lvl and (len(init['a']) == 1 or (unwrap(init['a'][1])['k'] == 'lit' and unwrap(init['a'][1])['v'] == '1')
                                                                               or init['a'][1]['k'] == 'defarg'):
                        nxt = ('var', v['d'])          # auto nxt = std::next(lvl);
                    elif init['k'] == 'bin' and init['op'] == '+' and not incs and an.root_of_expr(f, init['x'], {}) == lvl and unwrap(init['y'])['k'] == 'lit' and unwrap(init['y'])['v'] == '1':
                        nxt = ('var', v['d'])          # auto nxt = lvl + 1;
    for n in f.nodes.values():
        if n['k'] != 'call':
            continue
        m = n.get('m')
        a = n.get('a', [])
        if m in ('apply_pre', 'apply_post') and len(a) == 4:
            roots = [arg_root(an, f, y) for y in a]
            ok = roots[0] == lvl + ('A',) and roots[1] == rhs and roots[2] == x and roots[3] == lvl + ('t',)
            det = '' if ok else 'smoother called with %s' % (roots,)
            # the number of pre-sweeps is npre, of post-sweeps npost: the enclosing counted loop must be bounded by it
            want = 'npre' if m == 'apply_pre' else 'npost'
            loop = None
            for anc in f.ancestors(n):
                if anc['k'] == 'for':
                    loop = anc
                    break
            bound = show(loop['c']) if loop is not None and loop.get('c') is not None else ''
            if want not in bound or ('npost' if want == 'npre' else 'npre') in bound:
                ok = False
                det = '%s is executed under the loop condition `%s` (expected a loop bounded by prm.%s)' % (m, bound, want)
            out.append((n, 'PRE' if m == 'apply_pre' else 'POST', ok, det))
            continue
        pr = prim_name(n)
        if pr == 'residual':
            roots = [arg_root(an, f, y) for y in a]
            ok = roots == [rhs, lvl + ('A',), x, lvl + ('t',)]
            out.append((n, 'RES', ok, '' if ok else 'residual called with %s' % (roots,)))
        elif pr == 'spmv':
            roots = [arg_root(an, f, y) for y in a]
            alpha, beta = classify_coef(f, a[0]), classify_coef(f, a[3])
            if nxt is not None and roots[1] == lvl + ('R',):
                ok = alpha == 'identity' and beta == 'zero' and roots[2] == lvl + ('t',) and roots[4] == nxt + ('f',)
                out.append((n, 'RESTRICT', ok, '' if ok else 'restriction is spmv(%s, R, %s, %s, %s); expected (identity, R, lvl.t, zero, nxt.f)' % (alpha, roots[2], beta, roots[4])))
            elif nxt is not None and roots[1] == lvl + ('P',):
                ok = alpha == 'identity' and beta == 'identity' and roots[2] == nxt + ('u',) and roots[4] == x
                out.append((n, 'PROLONG', ok, '' if ok else 'prolongation is spmv(%s, P, %s, %s, %s); expected (identity, P, nxt.u, identity, x)' % (alpha, roots[2], beta, roots[4])))
            else:
                out.append((n, 'OTHER', False, 'unexpected spmv with matrix %s' % (roots[1],)))
        elif pr == 'clear':
            r = arg_root(an, f, a[0])
            if nxt is not None and r == nxt + ('u',):
                out.append((n, 'CLEARU', True, ''))
            else:
                out.append((n, 'OTHER', False, 'unexpected clear of %s' % (r,)))
        elif pr is not None:
            out.append((n, 'OTHER', False, 'unexpected vector primitive %s in the cycle' % pr))
        elif n.get('fd') == f.id or (n.get('f') == f.q and len(a) == 3):
            roots = [arg_root(an, f, y) for y in a]
            ok = nxt is not None and roots == [nxt, nxt + ('f',), nxt + ('u',)]
            out.append((n, 'REC', ok, '' if ok else 'recursive call with %s; expected (nxt, nxt.f, nxt.u)' % (roots,)))
        elif n.get('op') == '()' and n.get('obj') is not None and arg_root(an, f, n['obj']) == lvl + ('solve',):
            roots = [arg_root(an, f, y) for y in a]
            ok = roots == [rhs, x]
            out.append((n, 'COARSE', ok, '' if ok else 'coarse solve called with %s' % (roots,)))
    return out, nxt


def rule_AB(ck, units):
    ck.rule('A.scratch-killed', 'in cycle(): each per-level scratch vector (lvl.t, nxt.f, nxt.u) is overwritten before it is read on every path of one application', 3)
    ck.rule('A.apply-kills-x', 'apply(rhs, x) overwrites x (clear, or copy when pre_cycles == 0) before the first cycle and runs the cycle on (levels.begin(), rhs, x)', 1)
    ck.rule('B.operands', 'every step of the cycle has the operands of the multigrid recursion: residual(rhs, A, x, t); nxt.f := R t with zero output coefficient; '
                          'cycle(nxt, nxt.f, nxt.u); x += P nxt.u with identity coefficients; smoothers on (A, rhs, x, t); coarse solve on (rhs, x)', 7)
    ck.rule('B.order', 'typestate of one ncycle iteration: pre-sweeps, residual, restriction, [clear nxt.u], recursion, prolongation, post-sweeps, in this order on every path; '
                       'the coarse direct solve is guarded by `lvl->solve`; at a smoother-only coarsest level pre-sweeps precede post-sweeps', 1)
    for u, f in cycle_functions(units):
        an = Analyzer([u])
        cls = f.cls
        loc = locate(f)
        calls, nxt = classify_calls(an, f)
        # ---- B.operands
        kinds = {}
        for n, kind, ok, det in calls:
            kinds.setdefault(kind, []).append(n)
            ck.ob('B.operands', '%s::cycle|%s@%s' % (cls, kind, ordinal(f, calls, n, kind)), f.where(n), ok, det)
        for need in ('PRE', 'POST', 'RES', 'RESTRICT', 'CLEARU', 'REC', 'PROLONG', 'COARSE'):
            if need not in kinds:
                ck.ob('B.operands', '%s::cycle|%s@missing' % (cls, need), f.where(), False, 'the cycle has no %s step' % need)
        # ---- A.scratch-killed: roots lvl.t, nxt.f, nxt.u
        scratch = [('param', 0, 't')] + ([nxt + ('f',), nxt + ('u',)] if nxt else [])
        acc = [a for a in an.accesses(f) if a.root in scratch]
        events = {}
        for a in acc:
            w = loc.get(a.node['i'])
            if w is not None:
                events.setdefault(w[0], []).append((w[1], a.order, ('acc', a)))
        # ---- B.order events
        rec_loop_inc = None
        for n, kind, ok, det in calls:
            w = loc.get(n['i'])
            if w is not None:
                events.setdefault(w[0], []).append((w[1], n['i'] + 0.25, ('step', kind, n)))
            if kind == 'REC':
                for anc in f.ancestors(n):
                    if anc['k'] == 'for' and anc.get('inc') is not None:
                        rec_loop_inc = anc['inc']
                        break
        if rec_loop_inc is not None and rec_loop_inc['i'] in loc:
            b, pos = loc[rec_loop_inc['i']]
            events.setdefault(b, []).append((pos, rec_loop_inc['i'], ('latch', None, rec_loop_inc)))
        holder = []
        NEXT = {'RES': (0, 1), 'RESTRICT': (1, 2), 'REC': (2, 3), 'PROLONG': (3, 4)}

        def stage(facts):
            for x_ in facts:
                if isinstance(x_, tuple) and x_[0] == 'st':
                    return x_[1]
            return 0

        def setstage(facts, k):
            return frozenset(x_ for x_ in facts if not (isinstance(x_, tuple) and x_[0] == 'st')) | {('st', k)}

        def apply(p, facts, env):
            if p[0] == 'acc':
                a = p[1]
                if a.kind_in(holder[0], env) in ('kill',):
                    return facts | {a.root}
                return facts
            if p[0] == 'latch':
                return setstage(facts - {'U0', 'POSTSEEN'}, 0)
            kind = p[1]
            if kind in NEXT:
                return setstage(facts, NEXT[kind][1])
            if kind == 'CLEARU':
                return facts | {'U0'}
            if kind == 'POST':
                return facts | {'POSTSEEN'}
            return facts

        def cedge(b, k, cond, facts, env):
            z = zero_trip_roots(an, f, holder[0], b, k, env)
            if cond is not None and k == 0:
                c = unwrap(cond)
                if arg_root(an, f, c) == ('param', 0, 'solve') and c['k'] != 'un':
                    facts = facts | {'HAS_SOLVE'}
            return facts
        ai = AbsInt(f, events, apply, cedge)
        holder.append(ai)
        ai.run()
        badA, badB = {}, []

        def visit(b, nid, p, facts, env):
            if p[0] == 'acc':
                a = p[1]
                if a.kind_in(ai, env) in ('read', 'rw') and a.root not in facts:
                    badA.setdefault(a.root, a)
                return
            if p[0] != 'step':
                return
            kind, n = p[1], p[2]
            st = stage(facts)
            in_rec_branch = rec_loop_inc is not None and any(x_ is rec_loop_inc or x_.get('inc') is rec_loop_inc for x_ in f.ancestors(n))
            if kind in NEXT and st != NEXT[kind][0]:
                badB.append((n, '%s step reached in stage %d of the iteration (expected stage %d)' % (kind, st, NEXT[kind][0])))
            if kind == 'REC' and 'U0' not in facts:
                badB.append((n, 'recursive call without a preceding clear of nxt.u'))
            if kind == 'PRE' and in_rec_branch and st != 0:
                badB.append((n, 'pre-smoothing after the coarse-grid correction started (stage %d)' % st))
            if kind == 'POST' and in_rec_branch and st != 4:
                badB.append((n, 'post-smoothing before the prolongation (stage %d)' % st))
            if kind == 'PRE' and not in_rec_branch and 'POSTSEEN' in facts:
                badB.append((n, 'pre-sweep after a post-sweep on the coarsest level'))
            if kind == 'COARSE' and 'HAS_SOLVE' not in facts:
                badB.append((n, 'coarse direct solve is not guarded by `if (lvl->solve)`'))
        ai.visit(visit)
        # the latch must be reached only after the prolongation (stage 4) - otherwise an iteration is incomplete
        def visit2(b, nid, p, facts, env):
            if p[0] == 'latch' and stage(facts) != 4:
                badB.append((p[2], 'an iteration of the ncycle loop ends in stage %d (coarse-grid correction incomplete)' % stage(facts)))
        ai.visit(visit2)
        for r in scratch:
            a = badA.get(r)
            ck.ob('A.scratch-killed', '%s::cycle|%s' % (cls, '.'.join(str(x_) for x_ in r[2:]) if len(r) > 2 else str(r)), f.where(a.node) if a else f.where(), a is None,
                  '' if a is None else 'scratch vector %s is read (%s) before this application of the cycle has overwritten it: the result depends on earlier applications' % (r[-1], a.why))
        msgs = sorted({'%s at %s' % (m, f.where(n)) for n, m in badB})
        ck.ob('B.order', '%s::cycle' % cls, f.where(), not msgs, '; '.join(msgs[:3]))
    # ---- apply()
    for u in units.values():
        an = None
        for f in u.funcs:
            if f.q in ('amgcl::amg::apply', 'amgcl::mpi::amg::apply') and len(f.params) == 2 and f.cfg is not None:
                an = an or Analyzer([u])
                eff = an.param_effect(f, 1)
                cyc = [c for c in f.calls() if (c.get('f') or '').endswith('::cycle')]
                okargs = all(len(c.get('a', [])) in (2, 3) and an.root_of_expr(f, c['a'][-2]) == ('param', 0) and an.root_of_expr(f, c['a'][-1]) == ('param', 1) for c in cyc)
                ok = eff == 'kill' and bool(cyc) and okargs
                ck.ob('A.apply-kills-x', f.cls + '::apply', f.where(), ok, '' if ok else ('x is %s by apply()' % eff if eff != 'kill' else 'cycle is not applied to (rhs, x)'))


def ordinal(f, calls, n, kind):
    same = sorted(c[0]['i'] for c in calls if c[1] == kind)
    return same.index(n['i']) + 1


# ------------------------------------------------------------------------ C
def norm_tree(f, n, pmap):
    """structure of a statement tree without ids / lines; parameters by position, locals by order of first use"""
    if n is None:
        return None
    if isinstance(n, list):
        return [norm_tree(f, x, pmap) for x in n]
    if not isinstance(n, dict):
        return n
    out = {}
    for k, v in n.items():
        if k in ('i', 'l', 'lf', 'fd'):
            continue
        if k == 'd' and isinstance(v, int):
            if v not in pmap:
                pi = f.param_index(v)
                pmap[v] = ('p%d' % pi) if pi is not None else ('v%d' % len(pmap)) if f.decl(v).get('k') in ('local', 'param') else f.decl(v).get('n')
            out[k] = pmap[v]
            continue
        if k == 'n' and n.get('k') == 'ref':
            continue
        if k in ('f', 'm') and isinstance(v, str) and v.endswith('apply_post'):
            v = v[:-len('apply_post')] + 'apply_pre'   # delegation to the same member of a sub-object (checked there)
        out[k] = norm_tree(f, v, pmap)
    return out


def rule_C(ck, units):
    ck.rule('C.gs-direction', 'gauss_seidel::apply_pre reaches only forward sweeps (serial_sweep(.., true), parallel_sweep<true>) and apply_post only backward ones', 2)
    ck.rule('C.pre-equals-post', 'for damped_jacobi, spai0, spai1, ilu0, iluk, ilup, ilut, chebyshev the bodies of apply_pre and apply_post are identical', 8)
    seen = set()
    for u in units.values():
        by = {}
        for f in u.funcs:
            if f.cls and f.cls.startswith('amgcl::relaxation::') and f.q.split('::')[-1] in ('apply_pre', 'apply_post') and len(f.params) == 4:
                by.setdefault((f.cls, tuple(f.unit.type(f.decl(d).get('ct')) for d in f.params)), {})[f.q.split('::')[-1]] = f
        for (cls, sig), d in by.items():
            name = cls.split('::')[-1]
            if 'apply_pre' not in d or 'apply_post' not in d:
                continue
            pre, post = d['apply_pre'], d['apply_post']
            if name == 'gauss_seidel':
                for fn, want in ((pre, True), (post, False)):
                    dets = []
                    nsweeps = 0
                    for c in fn.calls():
                        nm = (c.get('f') or '').split('::')[-1]
                        if nm == 'serial_sweep':
                            nsweeps += 1
                            v = unwrap(c['a'][3])
                            if not (v['k'] == 'lit' and v['v'] == ('true' if want else 'false')):
                                dets.append('serial_sweep direction argument is `%s`' % show(v))
                        elif nm == 'sweep':
                            nsweeps += 1
                            g = u.by_id.get(c.get('fd'))
                            full = g.clsfull if g is not None else ''
                            if ('parallel_sweep<%s>' % ('true' if want else 'false')) not in full:
                                dets.append('parallel sweep object is %s' % (full[-40:] or '?'))
                    if nsweeps == 0:
                        dets.append('no sweep is reached')
                    ck.ob('C.gs-direction', 'amgcl::relaxation::gauss_seidel::%s' % fn.q.split('::')[-1], fn.where(), not dets, '; '.join(dets))
            elif name in SYMMETRIC_SAME_BODY:
                a = json.dumps(norm_tree(pre, pre.body, {}), sort_keys=True)
                b = json.dumps(norm_tree(post, post.body, {}), sort_keys=True)
                ok = a == b
                ck.ob('C.pre-equals-post', cls, pre.where(), ok, '' if ok else 'apply_pre (%s) and apply_post (%s) differ' % (pre.where(), post.where()))


def main(tier):
    ck = Check('C02', tier, 'C02 (clauses): the AMG cycle is history-free, has the V/W-cycle shape, and smooths symmetrically.')
    T = os.path.join(ir.VERIF, 'tus')
    names = ['rt_builtin'] if tier == 'quick' else ['rt_builtin', 'vt_float', 'vt_complex', 'vt_block', 'be_block_crs', 'be_eigen', 'mpi_rt']
    specs = [dict(name=n, src=os.path.join(T, n + '.cpp'), mpi=(n == 'mpi_rt')) for n in names]
    units = ir.run_units(specs, 'C02')
    ck.add_units(units, specs)
    rule_AB(ck, units)
    rule_C(ck, units)
    # Chebyshev smoothing contracts only when its bounds are estimated for the operator it iterates on (shared with C06)
    import c06
    c06.rule_chebyshev_bounds(ck, units, which=('cheb',))
    # an application must not see what earlier ones left in overwritten outputs (even NaN / Inf): zero-coefficient overwrite of the backend primitives (shared with C07)
    import c07
    c07.rule_zero(ck, {k: v for k, v in units.items() if k == 'rt_builtin'}, floor=8)
    ck.assumptions += ['the residual is recognised by the backend::residual primitive (a rewrite through spmv + axpby would need the rule extended)',
                       'callee effects on the smoother scratch argument are derived from the instantiated smoothers',
                       'that B is SPD, that rho(I - BA) < 1 and exact power-of-two scaling are spectral statements and not decided']
    return ck.finish()
