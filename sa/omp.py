"""E5: OpenMP sharing analysis.  For every parallel region: which objects are shared, which writes
to shared objects exist, and how each write is made exclusive to one thread."""
from ir import walk, unwrap, show, children
from accesses import Analyzer, _is

THREAD_ID_FUNCS = ('omp_get_thread_num', 'thread_id')
# arrays that map an owned position to thread-exclusive data besides row pointers (confirmed by reading)
INJECTIVE_NAMES = {
    'perm', 'iperm', 'order', 'ord',          # permutations / row orders
    'start', 'row_start', 'loc_beg',           # level / chunk offsets (monotone)
}


class Region:
    def __init__(self, f, node):
        self.f = f
        self.node = node
        self.dir = node['dir']
        self.body = node.get('b')
        self.ids = {n['i'] for n in walk(node)} if self.body is not None else set()


def regions(f):
    """outermost parallel regions of a function"""
    out = []

    def rec(n, inside):
        if n['k'] == 'omp' and n['dir'].startswith('parallel') and not inside:
            out.append(Region(f, n))
            inside = True
        for c in children(n):
            rec(c, inside)
    rec(f.body, False)
    return out


class Sharing:
    def __init__(self, an, f, region):
        self.an, self.f, self.r = an, f, region
        self.private = set()      # decl ids private to a thread
        self.owned_iv = set()     # induction variables of omp for loops (each value visited by exactly one thread)
        self.tid_vars = set()     # privates holding the thread number
        self.reduction = set()
        self._inprog = set()
        self._scan()

    def _scan(self):
        f, r = self.f, self.r
        for n in walk(r.node):
            if n['k'] == 'decl':
                for v in n['v']:
                    if not v.get('static'):
                        self.private.add(v['d'])
            elif n['k'] == 'rfor' and n.get('var'):
                self.private.add(n['var']['d'])
            elif n['k'] == 'omp':
                for cl in n.get('clauses', []):
                    vs = [unwrap(x) for x in cl.get('vars', [])]
                    ds = [x['d'] for x in vs if x is not None and x['k'] == 'ref']
                    if cl['c'] in ('private', 'firstprivate', 'lastprivate'):
                        self.private |= set(ds)
                    if cl['c'] == 'reduction':
                        self.reduction |= set(ds)
                if ' for' in (' ' + n['dir']) or n['dir'].endswith('for') or n['dir'] == 'for':
                    b = n.get('b')
                    if b is not None and b['k'] == 'for':
                        init = b.get('init')
                        if init is not None and init['k'] == 'decl':
                            for v in init['v']:
                                self.owned_iv.add(v['d'])
                                self.private.add(v['d'])
                        elif init is not None and init['k'] == 'bin' and init['op'] == '=':
                            x = unwrap(init['x'])
                            if x['k'] == 'ref':
                                self.owned_iv.add(x['d'])
                                self.private.add(x['d'])
        # thread-number variables
        for n in walk(r.node):
            if n['k'] == 'decl':
                for v in n['v']:
                    init = unwrap(v.get('init')) if v.get('init') is not None else None
                    if init is not None and self.is_tid_call(init):
                        self.tid_vars.add(v['d'])

    def is_tid_call(self, e, depth=0):
        """omp_get_thread_num(), or a call of a parameterless helper every return of which is such a call"""
        e = unwrap(e)
        if e is None or e['k'] != 'call':
            return False
        if (e.get('f') or '').split('::')[-1] in THREAD_ID_FUNCS:
            return True
        if 'fd' in e and not e.get('a') and depth < 3:
            g = self.f.unit.by_id.get(e['fd'])
            if g is not None and g.body is not None:
                rets = g.returns()
                return bool(rets) and all(self.is_tid_call(r['e'], depth + 1) for r in rets)
        return False

    # ---- classification of index expressions
    def is_private(self, d):
        return d in self.private

    def owned_expr(self, e, depth=0):
        """does the value of e identify data that only the current thread touches?
        returns a reason string or None"""
        e = unwrap(e)
        if e is None or depth > 24:
            return None
        k = e['k']
        if k == 'ref':
            d = e['d']
            if d in self.owned_iv:
                return 'omp-for index'
            if d in self.tid_vars:
                return 'thread number'
            if d in self.private:
                return self.owned_private(d, depth + 1)
            return None
        if self.is_tid_call(e):
            return 'thread number'
        if k == 'bin' and e['op'] in ('+', '-'):
            a, b = self.owned_expr(e['x'], depth + 1), self.owned_expr(e['y'], depth + 1)
            # i + c, i*bs + k with k private bounded: accept when one side is owned and the other does not involve shared mutable data
            if a and (b or self.thread_local_value(e['y'])):
                return a
            if b and self.thread_local_value(e['x']) and e['op'] == '+':
                return b
            return None
        if k == 'bin' and e['op'] == '*':
            a, b = self.owned_expr(e['x'], depth + 1), self.owned_expr(e['y'], depth + 1)
            if a and self.loop_invariant(e['y']):
                return a
            if b and self.loop_invariant(e['x']):
                return b
            return None
        if k == 'cast':
            return self.owned_expr(e['e'], depth + 1)
        if k == 'un' and e['op'] in ('++', '--'):
            return self.owned_expr(e['e'], depth + 1)
        if k == 'idx':
            ai = self.alias_init(unwrap(e['b']))
            if ai is not None:
                e = dict(e, b=ai)      # loc_ord[r] with `auto &loc_ord = ord[tid]` is ord[tid][r]
            # ptr[i] with owned i: start of an owned row; ord[tid][r] etc.
            inner = self.owned_expr(e['x'], depth + 1)
            if inner and self.injective_map(e['b']):
                return 'element selected by ' + inner
            # element of a thread-private array all of whose stored values are owned (SpGEMM marker, row cursors j[k])
            b = unwrap(e['b'])
            if b is not None and b['k'] == 'ref' and b['d'] in self.private:
                pv = self.private_array_values_owned(b['d'], depth + 1)
                if pv:
                    return 'thread-private array holding ' + pv
            base = self.owned_expr(e['b'], depth + 1) if unwrap(e['b'])['k'] == 'idx' else None
            if base:
                return base
            return None
        if k == 'mem':
            # member of an owned element (t.beg of tasks[tid][..])
            return self.owned_expr(e.get('b'), depth + 1) if e.get('b') is not None else None
        if k == 'call' and e.get('op') == '()' and e.get('obj') is not None:
            return None
        return None

    def alias_init(self, b):
        """the initialiser of a reference local declared inside the region (`const std::vector<T> &loc = ord[tid];`), else None"""
        if b is None or b['k'] != 'ref':
            return None
        dd = self.f.decl(b['d'])
        if dd.get('k') != 'local' or not (dd.get('ref') or dd.get('ptr')):
            return None
        scope = self.r.node
        if b['d'] not in self.private:
            # a pointer / reference local of the enclosing function that is set once, before the region (const T *p = perm.data();)
            mods = [n for n in self.f.nodes.values() if (n['k'] == 'bin' and n['op'] in ('=', '+=', '-=') and unwrap(n['x'])['k'] == 'ref' and unwrap(n['x'])['d'] == b['d'])
                    or (n['k'] == 'un' and n['op'] in ('++', '--') and unwrap(n['e'])['k'] == 'ref' and unwrap(n['e'])['d'] == b['d'])]
            if mods:
                return None
            scope = self.f.body
        for n in walk(scope):
            if n['k'] == 'decl':
                for v in n['v']:
                    if v['d'] == b['d'] and v.get('init') is not None:
                        e = unwrap(v['init'])
                        if dd.get('ptr'):
                            # const T *p = X.data() / &X[0] / X.data() + k / q + k : the pointer stands for (a position in) the array X
                            hops = 0
                            while e is not None and hops < 6:
                                hops += 1
                                if e['k'] == 'call' and e.get('m') in ('data', 'begin') and e.get('obj') is not None:
                                    return unwrap(e['obj'])
                                if e['k'] == 'un' and e['op'] == '&' and unwrap(e['e'])['k'] == 'idx':
                                    return unwrap(unwrap(e['e'])['b'])
                                if e['k'] == 'bin' and e['op'] in ('+', '-'):
                                    e = unwrap(e['x'])
                                    continue
                                if e['k'] == 'cond':
                                    # lower ? nullptr : D[tid].data()
                                    alt = [unwrap(e['x']), unwrap(e['y'])]
                                    alt = [a for a in alt if a is not None and a['k'] != 'lit']
                                    e = alt[0] if len(alt) == 1 else None
                                    continue
                                if e['k'] == 'ref':
                                    return e
                                return None
                            return None
                        return e
        return None

    def injective_map(self, base):
        """is `base` an array whose element at an owned position identifies thread-exclusive data?
        row-pointer arrays (monotone offsets: disjoint ranges), permutations / row orders, per-thread storage.
        Column-index and value arrays are NOT (two rows may hold the same column)."""
        b = unwrap(base)
        name = None
        hops = 0
        while b is not None:
            ai = self.alias_init(b) if hops < 6 else None
            if ai is not None:
                b = ai          # a reference local stands for the object it is bound to
                hops += 1
                continue
            if b['k'] in ('mem', 'ref'):
                name = b['n']
                break
            if b['k'] == 'idx':
                # per-thread storage: ptr[tid][r], ord[tid][r]
                if self.owned_expr(b['x']) == 'thread number' or 'thread number' in (self.owned_expr(b['x']) or ''):
                    return True
                b = unwrap(b['b'])
            elif b['k'] == 'un' and b['op'] in ('*', '->'):
                b = unwrap(b['e'])
            elif b['k'] == 'call' and b.get('obj') is not None:
                b = unwrap(b['obj'])
            else:
                break
        if name is None:
            return False
        n = name.lower()
        if n == 'ptr' or n.endswith('ptr') or n.startswith('ptr') or n in INJECTIVE_NAMES:
            return True
        return b is not None and b['k'] == 'ref' and self.enumeration_map(b['d'])

    def enumeration_map(self, d):
        """an index array every element of which is defined by a post-incremented counter (`idx[i] = c++`, or a choice between such
        counters: `idx[i] = mask[i] ? np++ : nu++`): the numbering of the members of each class is injective"""
        key = ('enum', d)
        if not hasattr(self, '_enum'):
            self._enum = {}
        if key in self._enum:
            return self._enum[key]
        f = self.f
        defs = []
        for n in f.nodes.values():
            if n['k'] == 'bin' and n['op'] == '=':
                lhs = unwrap(n['x'])
                if lhs is not None and lhs['k'] == 'idx' and unwrap(lhs['b']) is not None and unwrap(lhs['b'])['k'] == 'ref' and unwrap(lhs['b'])['d'] == d:
                    defs.append(n)

        def counter(e):
            e = unwrap(e)
            if e is None:
                return False
            if e['k'] == 'un' and e['op'] == '++' and e.get('post') and unwrap(e['e'])['k'] in ('ref', 'mem'):
                return True
            if e['k'] == 'cond':
                return counter(e['x']) and counter(e['y'])
            return False
        ok = bool(defs) and all(counter(n['y']) for n in defs) and not any(x is self.r.node for n in defs for x in f.ancestors(n))
        self._enum[key] = ok
        return ok

    def owned_private(self, d, depth):
        """a private variable whose every definition is an owned expression (row cursors, row heads)"""
        key = ('var', d)
        if key in self._inprog:
            return 'itself (cursor written back)'   # j[k] = beg; beg = j[k]: owned by induction on the execution
        self._inprog.add(key)
        try:
            return self._owned_private(d, depth)
        finally:
            self._inprog.discard(key)

    def _owned_private(self, d, depth):
        f = self.f
        defs = []
        for n in walk(self.r.node):
            if n['k'] == 'decl':
                for v in n['v']:
                    if v['d'] == d and v.get('init') is not None:
                        defs.append(v['init'])
            elif n['k'] == 'bin' and n['op'] == '=':
                x = unwrap(n['x'])
                if x is not None and x['k'] == 'ref' and x['d'] == d:
                    defs.append(n['y'])
            elif n['k'] == 'rfor' and n.get('var') and n['var']['d'] == d:
                defs.append(n['range'])
        if not defs or depth > 24:
            return None
        # literal initialisers (cursor = 0 on the path where it is not used) are neutral when a real definition exists
        nonlit = [e for e in defs if unwrap(e) is not None and unwrap(e)['k'] != 'lit']
        if nonlit:
            defs = nonlit
        reasons = []
        for e in defs:
            r = self.owned_expr(e, depth + 1)
            if not r:
                return None
            reasons.append(r)
        return 'private cursor from ' + reasons[0]

    def private_array_values_owned(self, d, depth):
        key = ('arr', d)
        if key in self._inprog:
            return 'itself'
        self._inprog.add(key)
        try:
            return self._private_array_values_owned(d, depth)
        finally:
            self._inprog.discard(key)

    def _private_array_values_owned(self, d, depth):
        if depth > 24:
            return None
        vals = []
        for n in walk(self.r.node):
            if n['k'] == 'bin' and n['op'] == '=':
                x = unwrap(n['x'])
                if x is not None and x['k'] == 'idx' and unwrap(x['b'])['k'] == 'ref' and unwrap(x['b'])['d'] == d:
                    vals.append(n['y'])
        vals = [v for v in vals if unwrap(v)['k'] != 'lit' and not (unwrap(v)['k'] == 'un' and unwrap(unwrap(v)['e'])['k'] == 'lit')]
        if not vals:
            return None
        why = None
        for v in vals:
            w = self.owned_expr(v, depth + 1)
            if not w:
                return None
            why = w
        return why

    def thread_local_value(self, e):
        """expression built from literals, privates and shared data that is only read"""
        for x in walk(e):
            if x['k'] == 'call' and x.get('f') and not (x.get('f') or '').startswith(('std::', 'amgcl::math', 'amgcl::backend::rows', 'amgcl::backend::cols')) and x.get('mr'):
                return False
        return True

    def loop_invariant(self, e):
        for x in walk(e):
            if x['k'] == 'ref' and x['d'] in self.private and x['d'] not in self.tid_vars:
                # private but constant within the thread is fine for a stride (block size)
                pass
        return True

    def protected(self, n):
        """enclosing critical / single / atomic / master inside the region"""
        for a in self.f.ancestors(n):
            if a is self.r.node:
                break
            if a['k'] == 'omp' and a['dir'] in ('critical', 'single', 'atomic', 'master', 'ordered'):
                return a['dir']
        return None


def lvalue_parts(e):
    """decompose an lvalue into (root ref/mem node, [index exprs outer..inner], member path)"""
    idx = []
    e = unwrap(e)
    while e is not None:
        k = e['k']
        if k == 'idx':
            idx.append(e['x'])
            e = unwrap(e['b'])
        elif k == 'un' and e['op'] in ('*', '->'):
            e = unwrap(e['e'])
        elif k == 'mem':
            b = unwrap(e.get('b'))
            if b is None or b['k'] == 'this':
                return e, idx
            # member of something: keep descending but remember that the path goes through an element
            e = b
        elif k == 'call' and e.get('op') == '()' and e.get('obj') is not None:
            idx.extend(e.get('a', []))
            e = unwrap(e['obj'])
        elif k == 'call' and e.get('obj') is not None and (e.get('m') in ('get', 'data', 'begin', 'front', 'back', 'at', 'operator*', 'operator->') or e.get('conv')):
            if e.get('m') == 'at' and e.get('a'):
                idx.append(e['a'][0])
            e = unwrap(e['obj'])
        elif k == 'bin' and e['op'] in ('+', '-'):
            idx.append(e['y'])
            e = unwrap(e['x'])
        elif k == 'un' and e['op'] == '&':
            e = unwrap(e['e'])
        elif k in ('cast', 'defarg'):
            e = unwrap(e['e'])
        elif k == 'ref':
            return e, idx
        else:
            return None, idx
    return None, idx
