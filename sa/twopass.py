"""Two-pass CRS assembly: the counting pass and the filling pass must select the same entries.

    pass 1:  for rows i: for entries j: if (<selected>) ++M.ptr[i + 1];          M.set_nonzeros(M.scan_row_sizes());
    pass 2:  for rows i: head = M.ptr[i]; for entries j: if (<selected>) { M.col[head] = ...; M.val[head] = ...; ++head; }

If pass 2 writes an entry pass 1 did not count, the row spills into the next one and the last rows write past the arrays (heap overflow);
if it writes fewer, the tail of the row is uninitialised.  The selection predicates are compared as boolean formulas over the atoms they
test - values are touched only through comparisons, so every pair of compared operands has three possible orderings and the formulas are
evaluated for all of them (a finite truth table); differently spelled but equivalent conditions (De Morgan, if/else vs &&, `continue`
guards vs nested ifs, locals that name sub-expressions) compare equal.  Marker-based passes (count distinct columns) are not of this shape and
are left alone.
"""
import itertools

import ir
from ir import walk, unwrap, show
import idioms


def _norm_text(f, e, alias):
    """source-like text of an operand with single-definition locals replaced by their initialisers and aliases applied"""
    e = unwrap(e)
    if e is None:
        return '?'

    def rec(n):
        n = unwrap(n)
        if n is None:
            return '?'
        if n['k'] == 'ref':
            r = unwrap(idioms._resolve_local(f, n))
            # only locals that NAME a value (c = A.col[j], v = A.val[j]); containers keep their name
            if r is not n and r is not None and r['k'] in ('idx', 'mem', 'bin', 'un', 'lit', 'ref', 'cast') or \
                    (r is not n and r is not None and r['k'] == 'call' and r.get('m') in ('col', 'value', 'size')):
                return rec(r)
            return alias.get(n['n'], n['n'])
        if n['k'] == 'idx':
            t = '%s[%s]' % (rec(n['b']), rec(n['x']))
            return alias.get(t, t)
        if n['k'] == 'mem':
            b = n.get('b')
            if b is None or unwrap(b) is None or unwrap(b)['k'] == 'this':
                return n['n']
            return '%s.%s' % (rec(b), n['n'])
        if n['k'] == 'un' and n['op'] in ('*', '->'):
            return rec(n['e'])
        if n['k'] == 'lit':
            return str(n.get('v'))
        if n['k'] == 'call':
            name = (n.get('m') or (n.get('f') or '?').split('::')[-1])
            args = ','.join(rec(a_) for a_ in n.get('a', []) if a_ is not None and a_.get('k') != 'defarg')
            if n.get('obj') is not None and n.get('m'):
                return '%s.%s(%s)' % (rec(n['obj']), name, args)
            return '%s(%s)' % (name, args)
        if n['k'] in ('bin', 'opcall') and n.get('x') is not None and n.get('y') is not None:
            return '(%s%s%s)' % (rec(n['x']), n.get('op'), rec(n['y']))
        if n['k'] == 'un' and n.get('e') is not None:
            return '%s%s' % (n['op'], rec(n['e']))
        return show(n).replace(' ', '')
    return rec(e)


def formula(f, c, alias):
    """boolean formula of a condition expression"""
    c = unwrap(c)
    if c is None:
        return ('atom', '?')
    if c['k'] == 'bin' and c['op'] in ('&&', '||'):
        return ('and' if c['op'] == '&&' else 'or', formula(f, c['x'], alias), formula(f, c['y'], alias))
    if c['k'] == 'un' and c['op'] == '!':
        return ('not', formula(f, c['e'], alias))
    if c['k'] == 'bin' and c['op'] == '=':
        # `if ((flag[j] = <predicate>))`: the flag is stored and tested; the other pass reads the stored flag
        return ('atom', _norm_text(f, c['x'], alias))
    if c['k'] == 'ref':
        r = unwrap(idioms._resolve_local(f, c))
        if r is not c and r is not None and r['k'] in ('bin', 'un'):
            return formula(f, r, alias)
    if c['k'] in ('bin', 'opcall') and c.get('op') in ('<', '>', '<=', '>=', '==', '!='):
        x, y = _norm_text(f, c['x'], alias), _norm_text(f, c['y'], alias)
        op = c['op']
        if x > y:
            x, y = y, x
            op = {'<': '>', '>': '<', '<=': '>=', '>=': '<=', '==': '==', '!=': '!='}[op]
        return ('cmp', op, x, y)
    return ('atom', _norm_text(f, c, alias))


def atoms_of(fm, acc_b, acc_c):
    if fm[0] == 'atom':
        acc_b.add(fm[1])
    elif fm[0] == 'cmp':
        acc_c.add((fm[2], fm[3]))
    elif fm[0] == 'not':
        atoms_of(fm[1], acc_b, acc_c)
    elif fm[0] in ('and', 'or'):
        atoms_of(fm[1], acc_b, acc_c)
        atoms_of(fm[2], acc_b, acc_c)
    elif fm[0] == 'const':
        pass


def evaluate(fm, bv, cv):
    k = fm[0]
    if k == 'const':
        return fm[1]
    if k == 'atom':
        return bv[fm[1]]
    if k == 'cmp':
        r = cv[(fm[2], fm[3])]
        return {'<': r == '<', '>': r == '>', '<=': r in '<=', '>=': r in '>=', '==': r == '=', '!=': r != '='}[fm[1]]
    if k == 'not':
        return not evaluate(fm[1], bv, cv)
    if k == 'and':
        return evaluate(fm[1], bv, cv) and evaluate(fm[2], bv, cv)
    return evaluate(fm[1], bv, cv) or evaluate(fm[2], bv, cv)


def conj(fs):
    out = ('const', True)
    for x in fs:
        out = x if out == ('const', True) else ('and', out, x)
    return out


def disj(fs):
    out = ('const', False)
    for x in fs:
        out = x if out == ('const', False) else ('or', out, x)
    return out


def _ends_in_jump(st):
    """statement (or block) whose last statement is continue / break / return"""
    if st is None:
        return False
    if st['k'] in ('continue', 'break', 'ret'):
        return True
    if st['k'] == 'block' and st.get('s'):
        return _ends_in_jump(st['s'][-1])
    return False


def path_condition(f, site, top, alias):
    """condition under which `site` is executed in one iteration of the loops between `top` (exclusive) and the site: polarity of the
    enclosing ifs, and the negation of every earlier `if (c) { ...; continue; }` in the enclosing blocks"""
    conds = []
    cur = site
    for a in f.ancestors(site):
        if a is top:
            # statements of the body of top before cur
            pass
        if a['k'] == 'if':
            in_then = a.get('t') is not None and any(x is cur for x in walk(a['t']))
            fm = formula(f, a['c'], alias)
            conds.append(fm if in_then else ('not', fm))
        elif a['k'] == 'cond':
            in_x = any(x is cur for x in walk(a['x']))
            fm = formula(f, a['c'], alias)
            conds.append(fm if in_x else ('not', fm))
        elif a['k'] == 'block':
            for st in a.get('s', []):
                if st is cur or any(x is cur for x in walk(st)):
                    break
                if st['k'] == 'if' and st.get('e') is None and _ends_in_jump(st.get('t')):
                    conds.append(('not', formula(f, st['c'], alias)))
        cur = a
        if a is top:
            break
    return conj(conds)


def compare(f, count_sites, fill_sites, alias):
    """count_sites / fill_sites: [(node, row_loop)].  Returns None when the selection formulas agree on every assignment, else a
    description of a differing assignment."""
    def level(n, row_loop):
        loops = [a for a in f.ancestors(n) if a['k'] in ('for', 'while', 'rfor', 'do')]
        inner = []
        for a in loops:
            if a is row_loop:
                break
            inner.append(a)
        return 'entry' if inner else 'row'
    res = []
    for lvl in ('row', 'entry'):
        cf = disj([path_condition(f, n, rl, alias) for n, rl in count_sites if level(n, rl) == lvl])
        ff = disj([path_condition(f, n, rl, alias) for n, rl in fill_sites if level(n, rl) == lvl])
        ab, ac = set(), set()
        atoms_of(cf, ab, ac)
        atoms_of(ff, ab, ac)
        ab, ac = sorted(ab), sorted(ac)
        if len(ab) + len(ac) > 12:
            res.append((lvl, 'too many atoms to enumerate (%d)' % (len(ab) + len(ac))))
            continue
        for bvals in itertools.product([False, True], repeat=len(ab)):
            bv = dict(zip(ab, bvals))
            for cvals in itertools.product('<=>', repeat=len(ac)):
                cv = dict(zip(ac, cvals))
                a, b = evaluate(cf, bv, cv), evaluate(ff, bv, cv)
                if a != b:
                    desc = ', '.join(['%s%s' % ('' if v else '!', k) for k, v in bv.items()] + ['%s %s %s' % (k[0], {'<': '<', '=': '==', '>': '>'}[v], k[1]) for k, v in cv.items()])
                    res.append((lvl, 'for %s: %s' % (desc, 'counted but not written' if a else 'written but not counted')))
                    break
            else:
                continue
            break
    return res
