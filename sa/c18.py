"""C18 - composite preconditioners realise their block formulas (DESIGN.md 4, C18): the structural clauses.

The property (exact inverses with exact inner solves, the pressure matrix being a specific weighting) is about values and
is not decided as a whole.  Decided:

cpr-two-stage     apply(f, x) of cpr, cpr_drs and mpi::cpr computes, as a term over its own operators (symbolic linear algebra over
                  the backend primitives),   x = S f + Scatter P ( Fpp ( f - A S f ) ),   A = S.system_matrix()
schur-operator    the matrix-free Schur complement  spmv(alpha, x, beta, y)  of schur_pressure_correction (serial and MPI) is
                  y = beta y + alpha (...): on every path the first write of y scales its old content by beta, every later
                  write accumulates (identity), and every term added is scaled by +/- alpha - Krylov solvers that evaluate
                  residuals (alpha = -1) or scaled products rely on it
"""
import os

import ir
import inline
from ir import walk, unwrap, show
from accesses import Analyzer
from effects import prim_name, classify_coef, PRIMS, locate
from framework import Check
import linalg as la

CPR = ('amgcl::preconditioner::cpr', 'amgcl::preconditioner::cpr_drs', 'amgcl::mpi::preconditioner::cpr', 'amgcl::mpi::cpr', 'amgcl::mpi::cpr_drs')


def rule_cpr(ck, units):
    ck.rule('cpr-two-stage', 'cpr / cpr_drs (serial, MPI) apply(f, x):  x = S f + Scatter P (Fpp (f - A S f))  with A = S.system_matrix()', 2)
    done = set()
    for u in units.values():
        an = Analyzer([u])
        for f0 in u.funcs:
            if f0.cls not in CPR or f0.q.split('::')[-1] != 'apply' or len(f0.params) != 2 or f0.cfg is None:
                continue
            if f0.cls in done:
                continue
            done.add(f0.cls)
            f = inline.expand(f0, inline.same_class_helper(keep=('apply',)))
            rhs, x = ('param', 0), ('param', 1)

            def opname(e):
                eu = unwrap(e)
                while eu is not None and eu['k'] == 'un' and eu['op'] == '*':
                    eu = unwrap(eu['e'])
                if eu is not None and eu['k'] == 'call' and eu.get('m') == 'system_matrix' and eu.get('obj') is not None:
                    # S->system_matrix() denotes the system matrix A of the global preconditioner S
                    r = an.expr_root(f, eu['obj'])
                    return 'A[%s]' % r[1] if r is not None and r[0] == 'this' else None
                r = an.expr_root(f, e)
                return r[1] if r is not None and r[0] == 'this' else None

            def appname(c):
                r = an.expr_root(f, c['obj'])
                return r[1] if r is not None and r[0] == 'this' else None
            it = la.Interp(f, an, opname, appname)
            F = la.sym('f')
            it.env[rhs] = F
            it.run([n for n in sorted(f.nodes.values(), key=lambda t: t['i']) if n['k'] == 'call' and not f.in_lambda(n)])
            got = it.env.get(x)
            Sf = la.app('S', F)
            want = la.add(Sf, la.apply_op('Scatter', la.app('P', la.apply_op('Fpp', la.add(F, la.apply_op('A[S]', Sf), -1)))))
            ok = got == want
            ck.ob('cpr-two-stage', f.cls, f.where(), ok, '' if ok else 'apply computes x = `%s`; the two-stage CPR formula is `%s`' % (la.lshow(got) if got is not None else 'nothing', la.lshow(want)))


def rule_schur_lm(ck, units):
    """the explicit pressure block used by the matrix-free Schur operator (adjust_p == 2: y = alpha Lm x + ...) is Kpp as extracted from K:
    no modification of Kpp (re-assignment, compound update of its values) can reach  Lm = copy_matrix(Kpp)."""
    from effects import path_between
    from ir import access_path
    ck.rule('schur-Lm-is-Kpp', 'the matrix Lm applied by the Schur operator is a copy of the extracted block Kpp taken before any adjustment of Kpp '
                               '(no re-assignment / compound update of Kpp reaches Lm = copy_matrix(Kpp))', 1)
    done = set()
    for u in units.values():
        for f in u.funcs:
            if not f.cls or 'schur_pressure_correction' not in f.cls or f.cfg is None or f.cls in done:
                continue
            copies = []
            for n in f.nodes.values():
                if n['k'] in ('bin', 'opcall') and n.get('op') == '=':
                    x = unwrap(n.get('x'))
                    y = unwrap(n.get('y'))
                    if x is not None and x['k'] == 'mem' and x.get('n') == 'Lm' and y is not None and y['k'] == 'call' and (y.get('f') or '').endswith('copy_matrix'):
                        src = unwrap(y['a'][0])
                        if src is not None and src['k'] == 'ref':
                            copies.append((n, src['d']))
            if not copies:
                continue
            done.add(f.cls)
            for cp, d in copies:
                mods = []
                for n in f.nodes.values():
                    if n['k'] in ('bin', 'opcall') and n.get('op') in ('=', '+=', '-=', '*=', '/=') and n.get('x') is not None:
                        x = unwrap(n['x'])
                        if n['op'] == '=' and x is not None and x['k'] == 'ref' and x['d'] == d:
                            mods.append(n)
                        elif n['op'] != '=':
                            ap = access_path(n['x'])
                            if ap is not None and ap[0] == 'var' and ap[1] == d:
                                mods.append(n)
                bad = [m for m in mods if path_between(f, m, cp)]
                ck.ob('schur-Lm-is-Kpp', f.cls.split('<')[0], f.where(cp), not bad, '' if not bad else
                      '`%s` is modified at %s (%s) before it is copied into Lm at %s: the Schur operator would apply the adjusted block' % (
                          f.decl(d)['n'], f.where(bad[0]), show(bad[0])[:60], f.where(cp)))


def rule_schur_adjust(ck, units):
    """adjust_p == 1: the pressure solver is set up for Kpp - dia(L) and the matrix-free operator adds dia(L) back (spmv: P.system_matrix() x +
    Ld x).  The operator is the Schur complement only if what is added back is what was subtracted: an entry of the vector that becomes
    Ld may hold a value only where that value was subtracted from the block - the store and the `-=` sit under the same conditions."""
    from ir import access_path
    ck.rule('schur-adjust-consistent', 'adjust_p == 1: every value stored into the vector that becomes Ld (added back by the Schur operator) is subtracted from the pressure block under '
                                       'the same conditions (a row without a stored diagonal entry gets no correction added back)', 1)
    done = set()
    for u in units.values():
        for f in u.funcs:
            if not f.cls or 'schur_pressure_correction' not in f.cls or f.cfg is None or f.cls in done:
                continue
            src = None
            for n in f.nodes.values():
                if n['k'] in ('bin', 'opcall') and n.get('op') == '=':
                    x, y = unwrap(n.get('x')), unwrap(n.get('y'))
                    if x is not None and x['k'] == 'mem' and x.get('n') == 'Ld' and y is not None and y['k'] == 'call' and (y.get('f') or '').endswith('copy_vector'):
                        a0 = unwrap(y['a'][0])
                        if a0 is not None and a0['k'] == 'ref':
                            src = a0['d']
            if src is None:
                continue
            done.add(f.cls)

            def conds(n):
                """the conditions (with polarity) and loops the statement n sits under"""
                out, cur = [], n
                for a in f.ancestors(n):
                    if a['k'] == 'if':
                        out.append((a['i'], a.get('t') is not None and any(x is cur for x in walk(a['t']))))
                    elif a['k'] in ('for', 'while', 'do', 'rfor'):
                        out.append((a['i'], None))
                    cur = a
                return frozenset(out)

            def is_zero(e):
                e = unwrap(e)
                return e is not None and ((e['k'] == 'lit' and str(e.get('v')) in ('0', '0.0')) or (e['k'] == 'call' and (e.get('f') or '').split('<')[0].endswith('math::zero')))
            stores, subs = [], []
            for n in f.nodes.values():
                if n['k'] not in ('bin', 'opcall') or n.get('x') is None or n.get('y') is None:
                    continue
                if n.get('op') == '=' and any(x['k'] == 'ref' and x['d'] == src for x in walk(n['x'])) and unwrap(n['x'])['k'] != 'ref' and not is_zero(n['y']):
                    stores.append(n)
                if n.get('op') == '-=':
                    ap = access_path(n['x'])
                    if ap is not None and 'val' in ap[2]:
                        subs.append(n)
            bad = []
            for st in stores:
                val = show(st['y']).replace(' ', '')
                mates = [sb for sb in subs if show(sb['y']).replace(' ', '') == val]
                if not any(conds(sb) <= conds(st) for sb in mates):
                    bad.append(st)
            if stores:
                ck.ob('schur-adjust-consistent', f.cls.split('<')[0], f.where(bad[0]) if bad else f.where(stores[0]), not bad, '' if not bad else
                      '`%s` is stored at %s for every pressure row, but it is subtracted from the pressure block only under a condition (%s): for a row where the condition never holds '
                      '(no stored diagonal entry) the Schur operator adds back a correction that was never subtracted and is not the Schur complement any more' % (
                          show(bad[0])[:40], f.where(bad[0]), '; '.join('`%s` at %s' % (show(sb)[:40], f.where(sb)) for sb in subs[:2]) or 'no subtraction found'))


def rule_update_clones(ck, units, floor=2):
    """partial_update(K, true) recomputes the pressure weighting for block-valued input in update_transfer(.., false_type) by a copy of
    the loops of init(.., false_type) (the scalar overloads share first_scalar_pass).  "A partial update with an unchanged matrix leaves
    the action unchanged" needs the copy to compute what the original computes: every loop of update_transfer that has the shape of a loop
    of init (same statements and operators, leaves abstracted) is that loop exactly (locals by order of first use, types ignored)."""
    import json
    import c02
    import c06
    ck.rule('update-clone-agrees', 'cpr / cpr_drs, block-valued input: every loop of update_transfer that has the shape of a loop of init is the same loop (the weights recomputed by a '
                                   'partial update are the weights the constructor computes)', floor)

    def exact(f, n):
        return json.dumps(c06.strip_types(c02.norm_tree(f, n, {})), sort_keys=True)

    def shape(t):
        if isinstance(t, list):
            return [shape(x) for x in t]
        if isinstance(t, dict):
            if t.get('k') in ('ref', 'lit'):
                return 'X'
            return {k: shape(v) for k, v in t.items() if k not in ('t', 'ct', 'rt', 'mr', 'cm', 'd', 'v', 'n')}
        return t
    done = set()
    for u in units.values():
        # per class instantiation: the member functions only the update path runs (reachable from partial_update, not from a constructor)
        # against those the constructors run; code both paths share (first_scalar_pass) needs no comparison
        classes = {}
        for f in u.funcs:
            if f.cls and f.cls.split('<')[0] in CPR and f.body is not None:
                classes.setdefault(f.clsfull or f.cls, []).append(f)

        def closure(fs, roots):
            ids = {g.id: g for g in fs}
            seen, todo = set(), [g for g in roots]
            while todo:
                g = todo.pop()
                if g.id in seen:
                    continue
                seen.add(g.id)
                for c in g.calls():
                    h = ids.get(c.get('fd'))
                    if h is not None and h.id not in seen:
                        todo.append(h)
            return seen
        by = {}
        for cls, fs in classes.items():
            cre = closure(fs, [g for g in fs if g.j.get('ctor')])
            ure = closure(fs, [g for g in fs if g.q.split('::')[-1] == 'partial_update'])
            U = [g for g in fs if g.id in ure and g.id not in cre]
            S = [g for g in fs if g.id in cre]
            if U and S:
                by[cls] = (S, U)
        for cls, (S, U) in sorted(by.items()):
            pool = {}
            for ini in S:
                for n in ini.nodes.values():
                    if n['k'] in ('for', 'while', 'rfor'):
                        pool.setdefault(json.dumps(shape(c02.norm_tree(ini, n, {})), sort_keys=True), []).append((n, exact(ini, n), ini))
            k = 0
            for upd, n in sorted(((g, x) for g in U for x in g.nodes.values() if x['k'] in ('for', 'while', 'rfor')), key=lambda t: (t[0].line, t[1]['i'])):
                cands = pool.get(json.dumps(shape(c02.norm_tree(upd, n, {})), sort_keys=True))
                if not cands:
                    continue
                key = '%s|loop#%d' % (cls.split('<')[0], len([1 for c_, w_ in done if c_ == cls.split('<')[0]]) + 1)
                if (cls.split('<')[0], upd.where(n)) in done:
                    continue
                done.add((cls.split('<')[0], upd.where(n)))
                k += 1
                e = exact(upd, n)
                ok = any(e == ce for _, ce, _g in cands)
                det = ''
                if not ok:
                    # name the first differing statement
                    other, ini = cands[0][0], cands[0][2]
                    a = [show(x) for x in walk(n) if x['k'] in ('bin', 'call') and x.get('op') in ('=', '+=', '-=', '*=', '/=')]
                    b = [show(x) for x in walk(other) if x['k'] in ('bin', 'call') and x.get('op') in ('=', '+=', '-=', '*=', '/=')]
                    diff = [(x, y) for x, y in zip(a, b) if x != y]
                    det = 'the loop at %s of the update path has the shape of the loop at %s of the set-up path but is not the same loop%s: after partial_update(K, true) with an unchanged matrix the ' \
                          'pressure weights differ from those of the constructor' % (upd.where(n), ini.where(other), (' (`%s` vs `%s`)' % diff[0]) if diff else '')
                ck.ob('update-clone-agrees', key, upd.where(n), ok, det)


def rule_schur(ck, units):
    ck.rule('schur-operator', 'matrix-free Schur complement spmv(alpha, x, beta, y): first write of y uses beta on its old content, later writes accumulate, every added term is scaled by +/- alpha', 1)
    done = set()
    for u in units.values():
        an = Analyzer([u])
        for f in u.funcs:
            if f.q.split('::')[-1] != 'spmv' or len(f.params) != 4 or f.cfg is None or not f.cls or 'schur_pressure_correction' not in f.cls:
                continue
            if f.cls in done:
                continue
            done.add(f.cls)
            f = inline.expand(f, inline.same_class_helper())
            alpha, xin, beta, y = f.params
            loc = locate(f)
            events = {}
            for n in f.nodes.values():
                if n['k'] == 'call' and prim_name(n) and n['i'] in loc:
                    pr = prim_name(n)
                    ci, oi = PRIMS[pr]
                    if an.expr_root(f, n['a'][oi]) == ('param', 3):
                        b, pos = loc[n['i']]
                        events.setdefault(b, []).append((pos, n['i'], n))
            for b in events:
                events[b].sort(key=lambda t: (t[0], t[1]))
            bad = []

            def refs_only(e, d):
                e = unwrap(e)
                while e is not None and e['k'] == 'un' and e['op'] == '-':
                    e = unwrap(e['e'])
                return e is not None and e['k'] == 'ref' and e['d'] == d

            def transfer(b, st, record=False):
                st = set(st)
                for pos, nid, n in events.get(b, ()):
                    pr = prim_name(n)
                    ci, oi = PRIMS[pr]
                    a = n['a']
                    if record:
                        if pr in ('clear', 'copy'):
                            bad.append((n, 'y is overwritten by %s: its old content must enter with coefficient beta' % pr))
                        else:
                            in_coefs = [a[i] for i in range(len(a)) if i not in (ci, oi) and i % 2 == 0 and pr in ('axpby', 'axpbypcz')] if pr in ('axpby', 'axpbypcz') else [a[0]]
                            for ce in in_coefs:
                                if not refs_only(ce, alpha):
                                    bad.append((n, 'the term added by %s at %s is scaled by `%s`, not by alpha' % (pr, f.where(n), show(ce))))
                            if 'first' not in st:
                                if ci is None or not refs_only(a[ci], beta) or unwrap(a[ci])['k'] != 'ref':
                                    bad.append((n, 'the first write of y (%s at %s) scales its old content by `%s`, not by beta' % (pr, f.where(n), show(a[ci]) if ci is not None else 'nothing')))
                            else:
                                if ci is None or classify_coef(f, a[ci]) != 'identity':
                                    bad.append((n, 'a later write of y (%s at %s) scales the accumulated value by `%s`' % (pr, f.where(n), show(a[ci]) if ci is not None else 'nothing')))
                    st.add('first')
                return frozenset(st)
            IN, OUT = f.cfg.forward(frozenset(), transfer, join=lambda p, q: p & q)
            for b, st in IN.items():
                transfer(b, st, record=True)
            ex = IN.get(f.cfg.exit)
            if ex is not None and 'first' not in ex:
                bad.append((f.body, 'on some path y is not written at all'))
            msgs = list(dict.fromkeys(m for _, m in bad))
            ck.ob('schur-operator', f.cls, f.where(bad[0][0]) if bad else f.where(), not bad, '; '.join(msgs[:2]))


def rule_deflation(ck, units):
    """deflation-projection-index: deflated_solver keeps E = Z^T A Z (built with the test vector z_ii as the outer / row index and the
    trial vector A z_jj as the inner / column index, flat row-major) and inverts it in place.  The coarse correction x += Z d,
    d = E^-1 (Z^T r), therefore reads d[i] += E[i * nvec + j] * <z_j, r>: the index that multiplies nvec is the index of the OUTPUT
    coefficient d[.], the other one the index of the inner product.  Swapping them applies E^-T (equal only for symmetric A)."""
    import c11
    ck.rule('deflation-projection-index', 'deflated_solver::project: in d[a] += E[p * nvec + q] * f the row index p is the index a of the coefficient that is written and q the index of the '
                                          'residual functional f = <z_q, r>; the construction loop builds E[k] with the test vector as outer and the operator image as inner index', 2)
    done = False
    for u in units.values():
        for f in u.funcs:
            if f.cls != 'amgcl::deflated_solver' or f.body is None or done and f.q.split('::')[-1] in ('project',):
                continue
            name = f.q.split('::')[-1]
            if name == 'project':
                done = True
                hits = 0
                for n in f.nodes.values():
                    if n['k'] not in ('bin', 'opcall') or n.get('op') != '+=' or n.get('x') is None:
                        continue
                    x = unwrap(n['x'])
                    if x is None or x['k'] not in ('idx', 'opcall', 'call'):
                        continue
                    out_ix = unwrap(x['x']) if x['k'] == 'idx' else (unwrap(x['a'][-1]) if x.get('a') else None)
                    es = [m for m in walk(n['y']) if m['k'] in ('idx', 'opcall', 'call') and any(y['k'] == 'mem' and y.get('n') == 'E' for y in walk(m.get('b') or (m.get('obj') or {'k': '?'})))]
                    if out_ix is None or out_ix['k'] != 'ref' or not es:
                        continue
                    e = es[0]
                    ix = e['x'] if e['k'] == 'idx' else e['a'][-1]
                    poly = c11._poly(f, ix)
                    hits += 1
                    a = out_ix['n']
                    rows = [m for m in (poly or {}) if len(m) == 2 and a in m]
                    cols = [m for m in (poly or {}) if len(m) == 1 and m[0] != a]
                    ok = poly is not None and len(poly) == 2 and len(rows) == 1 and len(cols) == 1
                    ck.ob('deflation-projection-index', 'amgcl::deflated_solver::project|apply', f.where(n), ok, '' if ok else
                          '`%s` at %s: the coefficient `%s[%s]` is accumulated from E[%s]; the index of the written coefficient must be the row (multiplied by the row length) - '
                          'this applies the transposed inverse of Z^T A Z' % (show(n)[:70], f.where(n), show(x.get('b') or x.get('obj'))[:10], a, show(ix)))
                if not hits:
                    ck.ob('deflation-projection-index', 'amgcl::deflated_solver::project|apply', f.where(), False, 'no accumulation d[i] += E[...] * f found')
            elif f.j.get('ctor') or name in ('init', 'deflated_solver'):
                # construction: E[k] += vec[... ii ...] * AZ[jj] with k advanced in the INNER loop over jj and ii the outer loop
                for n in f.nodes.values():
                    if n['k'] not in ('bin', 'opcall') or n.get('op') != '+=' or n.get('x') is None:
                        continue
                    x = unwrap(n['x'])
                    if x is None or x['k'] != 'idx' or not any(y['k'] in ('mem', 'ref') and y.get('n') == 'E' for y in walk(x['b'])):
                        continue
                    loops = [a_ for a_ in f.ancestors(n) if a_['k'] == 'for']
                    if len(loops) < 2:
                        continue
                    inner, outer = loops[0], loops[1]

                    def loopvars(L):
                        return {v['d'] for d in walk(L['init']) if d['k'] == 'decl' for v in d['v']} if L.get('init') is not None else set()
                    iv, ov = loopvars(inner), loopvars(outer)
                    y = unwrap(n['y'])
                    if y is None or y['k'] != 'bin' or y['op'] != '*':
                        continue
                    left = {r['d'] for r in walk(y['x']) if r['k'] == 'ref'}
                    right = {r['d'] for r in walk(y['y']) if r['k'] == 'ref'}
                    az_right = any(r['k'] == 'ref' and r.get('n') == 'AZ' for r in walk(y['y']))
                    ok = bool(left & ov) and bool(right & iv) and az_right and not (left & iv - ov)
                    ck.ob('deflation-projection-index', 'amgcl::deflated_solver|build', f.where(n), ok, '' if ok else
                          '`%s` at %s: E must be filled with the test vector (left factor) on the outer loop index and A z (right factor) on the inner one' % (show(n)[:70], f.where(n)))


def main(tier):
    ck = Check('C18', tier, 'C18 (clauses): two-stage formula of CPR; contract of the matrix-free Schur complement operator.')
    T = os.path.join(ir.VERIF, 'tus')
    names = ['composite'] if tier == 'quick' else ['composite', 'mpi_rt']
    specs = [dict(name=n, src=os.path.join(T, n + '.cpp'), mpi=(n == 'mpi_rt')) for n in names]
    units = ir.run_units(specs, 'C18')
    ck.add_units(units, specs)
    rule_cpr(ck, units)
    rule_schur(ck, units)
    rule_schur_lm(ck, units)
    rule_schur_adjust(ck, units)
    rule_update_clones(ck, units)
    rule_deflation(ck, units)
    # the diagonal blocks that define the CPR pressure weighting are gathered into per-thread scratch that must be rebuilt for every cell (shared with C10)
    import c10
    c10.rule_E(ck, units, only=lambda f: bool(f.cls) and 'cpr' in f.cls, floor=1)
    import c17
    c17.rule_A(ck, units)      # constructor and partial_update sort their private copy of the matrix before the block scans (shared with C17)
    c10.rule_F(ck, units, floor=1, only=lambda f: bool(f.cls) and 'cpr' in f.cls)    # partial updates do not touch what they did not build (shared with C10)
    ck.assumptions += ['that type-1 / type-2 Schur pressure correction invert the saddle-point / block-triangular matrix with exact inner solves, that the CPR pressure matrix is the documented weighting, '
                       'that partial updates leave the action unchanged and that the deflation projection is orthogonal are statements about values and are NOT decided',
                       'S, P, U and the matrices Fpp, Scatter, Kup, Kpu are the operators their names say (their assembly is not decided)']
    return ck.finish()
