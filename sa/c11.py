"""C11 - distributed algebra equals serial algebra (DESIGN.md 4, C11): rank consistency and exchange discipline.

A  rank-consistent scalars: every arithmetic value returned by a distributed kernel (inner product, spectral
   radius, global sizes) is, on every path, a constant, a rank-invariant argument, or the result of an
   all-reduce / all-gather (communicator::reduce, exclusive_sum)
B  exchange typestate: ghost values (x_rem) are read only after finish_exchange(), which follows start_exchange(x)
C  request completion: every MPI_Isend / MPI_Irecv request is waited for on every path (start_exchange is
   completed by finish_exchange)
D  collective shape: in MPI_Gather / MPI_Allgather the per-rank receive count equals the send count
"""
import os
import re

import ir
import inline
from ir import walk, unwrap, show
from accesses import Analyzer
from effects import locate
from framework import Check

ARITH = ('int', 'long', 'unsigned int', 'unsigned long', 'float', 'double', 'long double', 'bool', 'size_t', 'ptrdiff_t', 'short', 'char')
RC_GETTERS = ('glob_rows', 'glob_cols', 'glob_nonzeros')
PURE = ('std::max', 'std::min', 'std::sqrt', 'sqrt', 'std::abs', 'abs', 'std::fabs', 'amgcl::math::norm', 'amgcl::math::inverse', 'amgcl::math::identity', 'amgcl::math::zero',
        'std::numeric_limits::max', 'std::numeric_limits::min')


def is_arith(u, t):
    t = (t or '').replace('const ', '').replace('&', '').strip()
    return t in ARITH or t.startswith('std::complex')


class RC:
    """rank-consistency of expressions under a set of rank-consistent variables"""

    def __init__(self, f):
        self.f = f
        self.u = f.unit

    def expr(self, e, S):
        e = unwrap(e)
        if e is None:
            return False
        k = e['k']
        if k == 'lit':
            return True
        if k == 'ref':
            dk = self.f.decl(e['d']).get('k')
            if dk in ('enumc', 'nttp', 'staticlocal') and dk != 'staticlocal':
                return True
            return e['d'] in S
        if k == 'mem':
            b = unwrap(e.get('b'))
            if b is None or b['k'] == 'this':
                return ('m', e['n']) in S
            # comm.size is the same everywhere, comm.rank is not
            if self.u.decls[e['d']].get('cls', '').endswith('mpi::communicator'):
                return e['n'] == 'size'
            if e['n'].startswith('n_glob'):
                return True
            # prm.x: configuration of the object, assumed equal on all ranks
            chain = []
            m = e
            while m is not None and m['k'] == 'mem':
                chain.append(m['n'])
                m = unwrap(m.get('b'))
            if chain and chain[-1] == 'prm' and (m is None or m['k'] == 'this'):
                return True
            return False
        if k == 'call':
            name = e.get('f') or ''
            m = e.get('m')
            if name.endswith('mpi::communicator::reduce') or name.endswith('mpi::communicator::exclusive_sum'):
                return True
            if m in RC_GETTERS:
                return True
            if m in ('back', 'front', 'size') and e.get('obj') is not None:
                return self.expr(e['obj'], S)
            if name in PURE or name.split('<')[0] in PURE or e.get('conv'):
                return all(self.expr(a, S) for a in e.get('a', [])) and (e.get('obj') is None or self.expr(e['obj'], S))
            if name.startswith('amgcl::math::') and not e.get('mr'):
                return all(self.expr(a, S) for a in e.get('a', []))
            g = self.u.by_id.get(e.get('fd'))
            if g is not None and 'shared_ptr' in self.u.type(g.j.get('ret')) and null_is_rank_consistent(g):
                return True   # only the null-ness of the returned pointer is observable in conditions
            return False
        if k == 'bin':
            if e['op'] in ('=', '+=', '-=', '*=', '/='):
                return False
            return self.expr(e['x'], S) and self.expr(e['y'], S)
        if k == 'un':
            if e['op'] in ('++', '--', '&', '*', '->'):
                return False
            return self.expr(e['e'], S)
        if k == 'cond':
            return self.expr(e['c'], S) and self.expr(e['x'], S) and self.expr(e['y'], S)
        if k == 'cast':
            return self.expr(e['e'], S)
        if k == 'idx':
            return self.expr(e['b'], S) and self.expr(e['x'], S)
        if k == 'ctor' and len(e.get('a', [])) <= 1:
            return all(self.expr(a, S) for a in e.get('a', []))
        if k in ('zeroinit', 'sizeof'):
            return True
        return False

    def analyse(self):
        """returns (state at each return node id, state at exit): sets of rank-consistent variables / members"""
        f = self.f
        cfg = f.cfg
        loc = locate(f)
        init = set()
        for d in f.params:
            t = self.u.type(f.decl(d).get('ct'))
            if is_arith(self.u, t):
                init.add(d)
        events = {}

        def add(n, kind, p):
            w = loc.get(n['i'])
            if w is not None:
                events.setdefault(w[0], []).append((w[1], n['i'], kind, p))
        for n in f.nodes.values():
            if n['k'] == 'decl':
                for v in n['v']:
                    add(n, 'def', (v['d'], v.get('init'), 'decl'))
            elif n['k'] == 'bin' and n['op'] in ('=', '+=', '-=', '*=', '/='):
                x = unwrap(n['x'])
                tgt = None
                if x is not None and x['k'] == 'ref':
                    tgt = x['d']
                elif x is not None and x['k'] == 'mem' and (x.get('b') is None or unwrap(x['b'])['k'] == 'this'):
                    tgt = ('m', x['n'])
                if tgt is not None:
                    add(n, 'def', (tgt, n['y'], n['op']))
            elif n['k'] == 'un' and n['op'] in ('++', '--'):
                x = unwrap(n['e'])
                if x is not None and x['k'] == 'ref':
                    add(n, 'keep', x['d'])
            elif n['k'] == 'ret' and not f.in_lambda(n):
                add(n, 'ret', n)
        for ini in f.inits:
            pass
        for b in events:
            events[b].sort(key=lambda t: (t[0], t[1]))
        at_ret = {}

        def transfer(b, st, record=False):
            st = set(st)
            for pos, nid, kind, p in events.get(b, ()):
                if kind == 'def':
                    tgt, e, op = p
                    if e is None:
                        ok = False
                    else:
                        ok = self.expr(e, st)
                        if op not in ('=', 'decl'):
                            ok = ok and tgt in st
                    if ok:
                        st.add(tgt)
                    else:
                        st.discard(tgt)
                elif kind == 'ret' and record:
                    at_ret[nid] = (p, frozenset(st))
            return frozenset(st)
        # constructor initialisers
        st0 = set(init)
        for ini in f.inits:
            if 'm' in ini and ini.get('e') is not None and self.expr(ini['e'], st0):
                st0.add(('m', ini['m']))
        IN, OUT = cfg.forward(frozenset(st0), transfer, join=lambda a, b_: a & b_)
        for b, st in IN.items():
            transfer(b, st, record=True)
        exit_state = IN.get(cfg.exit)
        return at_ret, exit_state


def null_is_rank_consistent(g):
    """a function returning a shared_ptr returns null only under rank-consistent conditions (e.g. a global size is zero)"""
    c = getattr(g, '_null_rc', None)
    if c is not None:
        return c
    g._null_rc = False
    rc = RC(g)
    ok = True
    nulls = 0
    for r in g.nodes.values():
        if r['k'] != 'ret' or r.get('e') is None:
            continue
        e = unwrap(r['e'])
        is_null = (e['k'] == 'ctor' and not e.get('a')) or (e['k'] == 'lit' and e.get('t') == 'null')
        if not is_null:
            continue
        nulls += 1
        conds = [a['c'] for a in g.ancestors(r) if a['k'] == 'if']
        if not conds or not all(rc.expr(c_, set()) for c_ in conds):
            ok = False
    g._null_rc = ok
    return ok


def rule_A(ck, units):
    ck.rule('A.rank-consistent', 'every scalar returned by a distributed kernel (mpi::inner_product, spectral_radius on distributed_matrix) and every global size member is, on '
                                 'every path, a constant, a rank-invariant argument or the result of communicator::reduce / exclusive_sum', 5)
    ck.rule('A.reduce-is-allreduce', 'communicator::reduce returns the result of MPI_Allreduce; exclusive_sum is built from MPI_Allgather', 2)
    done = set()
    for u in units.values():
        for f in u.funcs:
            if f.cfg is None:
                continue
            tgt = None
            if f.q == 'amgcl::mpi::inner_product::operator()':
                tgt = 'amgcl::mpi::inner_product::operator()'
            elif f.q == 'amgcl::backend::spectral_radius' and f.params and 'distributed_matrix' in u.type(f.decl(f.params[0]).get('ct')):
                tgt = 'amgcl::backend::spectral_radius(distributed_matrix)|' + ('scaled' if 'spectral_radius<true' in f.full else 'unscaled')
            if tgt is not None and tgt not in done:
                done.add(tgt)
                rc = RC(f)
                at_ret, _ = rc.analyse()
                dets = []
                for nid, (r, st) in at_ret.items():
                    if r.get('e') is not None and not rc.expr(r['e'], st):
                        # name the variable
                        vs = [x['n'] for x in walk(r['e']) if x['k'] == 'ref' and x['d'] not in st and f.decl(x['d']).get('k') in ('local', 'param')]
                        dets.append('the value returned at %s depends on `%s`, which on some path is rank-local (not the result of an all-reduce)' % (f.where(r), vs[0] if vs else show(r['e'])))
                ck.ob('A.rank-consistent', tgt, f.where(), not dets and bool(at_ret), '; '.join(sorted(set(dets))[:2]))
            if f.cls == 'amgcl::mpi::distributed_matrix' and f.j.get('ctor'):
                rc = RC(f)
                _, ex = rc.analyse()
                key = 'amgcl::mpi::distributed_matrix::ctor@%s' % sig(u, f)
                if key in done:
                    continue
                done.add(key)
                assigned = {x['n'] for n in f.nodes.values() if n['k'] == 'bin' and n['op'] == '=' for x in [unwrap(n['x'])] if x['k'] == 'mem' and x['n'].startswith('n_glob')}
                names = sorted(assigned | {i['m'] for i in f.inits if i.get('m', '').startswith('n_glob') and i.get('written')})
                bad = [nm for nm in names if ex is None or ('m', nm) not in ex]
                ck.ob('A.rank-consistent', key, f.where(), not bad and bool(names), '' if not bad else 'global size member(s) %s are not derived from an all-reduce on some path' % bad,
                      trivial=not names)
            if f.q == 'amgcl::mpi::communicator::reduce' and 'reduce' not in done:
                done.add('reduce')
                calls = [c for c in f.calls('MPI_Allreduce')]
                rets = f.returns(with_value=False)
                ok = len(calls) == 1 and len(rets) == 1
                if ok:
                    out = unwrap(calls[0]['a'][1])
                    outd = [x['d'] for x in walk(out) if x['k'] == 'ref']
                    retd = [x['d'] for x in walk(rets[0]['e']) if x['k'] == 'ref']
                    opd = [x['d'] for x in walk(calls[0]['a'][4]) if x['k'] == 'ref']
                    ok = outd == retd and opd == [f.params[0]]
                ck.ob('A.reduce-is-allreduce', 'amgcl::mpi::communicator::reduce', f.where(), ok, '' if ok else 'reduce does not return the receive buffer of MPI_Allreduce with the requested operation')
            if f.q == 'amgcl::mpi::communicator::exclusive_sum' and 'exsum' not in done:
                done.add('exsum')
                ok = any(True for c in f.calls('MPI_Allgather'))
                ck.ob('A.reduce-is-allreduce', 'amgcl::mpi::communicator::exclusive_sum', f.where(), ok, '' if ok else 'exclusive_sum is not based on MPI_Allgather')


def sig(u, f):
    return ','.join(u.type(f.decl(d).get('ct')).split('<')[0].split('::')[-1][:14] for d in f.params)


def rule_B(ck, units):
    ck.rule('B.exchange-typestate', 'in distributed_matrix::mul / ::residual the ghost vector x_rem is read only after finish_exchange(), which follows start_exchange(x) of the same argument', 2)
    done = set()
    for u in units.values():
        for f in u.funcs:
            if f.cls != 'amgcl::mpi::distributed_matrix' or f.q.split('::')[-1] not in ('mul', 'residual') or f.cfg is None:
                continue
            key = f.q
            if key in done:
                continue
            done.add(key)
            loc = locate(f)
            events = {}
            xparam = f.params[1] if f.q.endswith('mul') else f.params[1]
            for n in f.nodes.values():
                w = loc.get(n['i'])
                if w is None:
                    continue
                if n['k'] == 'call' and n.get('m') == 'start_exchange':
                    a = unwrap(n['a'][0])
                    events.setdefault(w[0], []).append((w[1], n['i'], 'start', a['k'] == 'ref' and f.param_index(a['d']) is not None))
                elif n['k'] == 'call' and n.get('m') == 'finish_exchange':
                    events.setdefault(w[0], []).append((w[1], n['i'], 'finish', n))
                elif n['k'] == 'mem' and n['n'] == 'x_rem':
                    events.setdefault(w[0], []).append((w[1], n['i'], 'use', n))
            for b in events:
                events[b].sort(key=lambda t: (t[0], t[1]))
            bad = []

            def transfer(b, st, record=False):
                st = set(st)
                for pos, nid, kind, p in events.get(b, ()):
                    if kind == 'start':
                        st.discard('fin')
                        if p:
                            st.add('started')
                    elif kind == 'finish':
                        if record and 'started' not in st:
                            bad.append((p, 'finish_exchange without a preceding start_exchange'))
                        st.add('fin')
                    elif kind == 'use' and record and 'fin' not in st:
                        bad.append((p, 'x_rem is read before finish_exchange()'))
                return frozenset(st)
            IN, OUT = f.cfg.forward(frozenset(), transfer, join=lambda a, b_: a & b_)
            for b, st in IN.items():
                transfer(b, st, record=True)
            # the exchange is finished on every path to the end of the function (the sends of a rank that receives nothing must be waited for too)
            ex = IN.get(f.cfg.exit)
            if ex is not None and 'started' in ex and 'fin' not in ex:
                bad.append((f.body, 'on some path the function returns after start_exchange() without finish_exchange(): the send requests are still pending and the send buffer may be overwritten by the next product'))
            nuse = sum(1 for evs in events.values() for e in evs if e[2] == 'use')
            nst = sum(1 for evs in events.values() for e in evs if e[2] == 'start')
            if nst != 1:
                bad.append((f.body, 'expected exactly one start_exchange, found %d' % nst))
            msgs = sorted({'%s at %s' % (m, f.where(n)) for n, m in bad})
            ck.ob('B.exchange-typestate', key, f.where(), not msgs, '; '.join(msgs[:2]), trivial=(nuse == 0))


def rule_C(ck, units):
    ck.rule('C.requests-completed', 'every request array handed to MPI_Isend / MPI_Irecv is passed to MPI_Waitall / MPI_Wait on every path to the end of the function '
                                    '(comm_pattern::start_exchange is completed by finish_exchange, which waits for both request arrays)', 4)
    done = set()
    for u in units.values():
        an = Analyzer([u])
        for f in u.funcs:
            if f.cfg is None or not f.rel().startswith('amgcl/mpi/'):
                continue
            f0 = f
            f = inline.expand(f, inline.same_class_helper())       # e.g. private wait_all() / post_sends() helpers
            posts = [c for c in f.calls() if c.get('f') in ('MPI_Isend', 'MPI_Irecv')]
            if not posts:
                continue
            # a member that posts requests on behalf of other members of its class (called on *this by them) is analysed inside its callers
            part_of_callers = bool(f0.cls) and any(g.cls == f0.cls and g.id != f0.id and g.body is not None and
                                                   any(c.get('fd') == f0.id and (c.get('obj') is None or unwrap(c['obj'])['k'] == 'this') for c in g.calls()) for g in u.funcs)
            key = '%s|%s' % (f.rel(), f.q)
            if key in done:
                continue
            done.add(key)
            loc = locate(f)

            def req_root(c, argi):
                """(root of the request storage, guards under which the call executes)"""
                e = c['a'][argi]
                r = an.root_of_expr(f, e)
                if r is not None and r[0] == 'this':
                    # distinguish recv.req / send.req: member path below the first member
                    names = []
                    x = unwrap(e)
                    while x is not None:
                        if x['k'] == 'mem':
                            names.append(x['n'])
                            x = unwrap(x.get('b'))
                        elif x['k'] == 'idx':
                            x = unwrap(x['b'])
                        elif x['k'] == 'un':
                            x = unwrap(x['e'])
                        elif x['k'] == 'call' and x.get('obj') is not None:
                            x = unwrap(x['obj'])
                        else:
                            break
                    r = ('this', '.'.join(reversed(names)))
                return r

            def guards(n):
                """conditions (as text) under which statement n executes inside its function: enclosing ifs and
                preceding `if (c) continue / break / return;` siblings"""
                g = []
                cur = n
                for a in f.ancestors(n):
                    if a['k'] == 'if':
                        in_then = a.get('t') is not None and any(x is cur for x in walk(a['t']))
                        g.append(('' if in_then else '!') + show(a['c']))
                    if a['k'] == 'for' and a.get('c') is not None:
                        g.append('L:' + show(a['c']))   # executed once per iteration of a loop with this bound
                    if a['k'] == 'block':
                        for s_ in a['s']:
                            if any(x is n for x in walk(s_)):
                                break
                            if s_['k'] == 'if' and s_.get('e') is None and s_.get('t') is not None:
                                t = s_['t']
                                ts = t['s'] if t['k'] == 'block' else [t]
                                if ts and ts[-1]['k'] in ('continue', 'break', 'ret'):
                                    g.append('!' + show(s_['c']))
                    cur = a
                return frozenset(g)
            events = {}
            roots = set()
            for n in f.nodes.values():
                w = loc.get(n['i'])
                if w is None or n['k'] != 'call':
                    continue
                if n.get('f') in ('MPI_Isend', 'MPI_Irecv'):
                    r = req_root(n, 6)
                    roots.add(r)
                    events.setdefault(w[0], []).append((w[1], n['i'], 'post', (r, guards(n))))
                elif n.get('f') in ('MPI_Waitall', 'MPI_Wait', 'MPI_Waitany'):
                    r = req_root(n, 1 if n['f'] != 'MPI_Wait' else 0)
                    events.setdefault(w[0], []).append((w[1], n['i'], 'wait', (r, guards(n))))
            for b in events:
                events[b].sort(key=lambda t: (t[0], t[1]))

            def transfer(b, st):
                st = set(st)
                for pos, nid, kind, (r, g) in events.get(b, ()):
                    if kind == 'post':
                        st.add((r, g))
                    else:
                        # a wait under guards g completes the posts made under the same or stronger guards
                        st = {(r2, g2) for (r2, g2) in st if not (r2 == r and g <= g2)}
                return frozenset(st)
            def edge(b, k, s_, st):
                # a request posted under guard G cannot be pending on a path where G is false
                c = f.cfg.cond(b)
                if c is None:
                    return st
                t = show(c)
                contra = t if k == 1 else ('!' + t)
                if t.startswith('!') and k == 0:
                    contra = t[1:]
                st = frozenset((r2, g2) for (r2, g2) in st if contra not in g2)
                if k == 1 and f.cfg.blocks[b].get('tk') == 'ForStmt':
                    # leaving a loop with bound t: an earlier loop with the same bound ran the same number of times,
                    # and every iteration of this loop waited (array-level abstraction)
                    waits_here = any(kind == 'wait' and ('L:' + t) in g for evs in events.values() for (_, _, kind, (_r, g)) in evs)
                    if waits_here:
                        st = frozenset((r2, g2) for (r2, g2) in st if not (('L:' + t) in g2 and any(kind == 'wait' and _r == r2 and ('L:' + t) in g for evs in events.values() for (_, _, kind, (_r, g)) in evs)))
                return st
            IN, OUT = f.cfg.forward(frozenset(), transfer, edge=edge, join=lambda a, b_: a | b_)
            pending = {r for (r, g) in IN.get(f.cfg.exit, frozenset())}
            if f.q == 'amgcl::mpi::comm_pattern::start_exchange':
                # completed by finish_exchange of the same class: it must wait for exactly these arrays
                fin = [g for g in u.funcs if g.q == 'amgcl::mpi::comm_pattern::finish_exchange' and g.clsfull == f.clsfull]
                waited = set()
                for g in fin:
                    g = inline.expand(g, inline.same_class_helper())
                    gloc = locate(g)
                    wev = {}
                    for c in g.calls():
                        if c.get('f') in ('MPI_Waitall', 'MPI_Wait'):
                            names = []
                            x = unwrap(c['a'][1 if c['f'] == 'MPI_Waitall' else 0])
                            while x is not None:
                                if x['k'] == 'mem':
                                    names.append(x['n'])
                                    x = unwrap(x.get('b'))
                                elif x['k'] == 'call' and x.get('obj') is not None:
                                    x = unwrap(x['obj'])
                                elif x['k'] in ('idx', 'un'):
                                    x = unwrap(x.get('b') or x.get('e'))
                                else:
                                    break
                            root_w = ('this', '.'.join(reversed(names)))
                            if c['i'] in gloc:
                                wev.setdefault(gloc[c['i']][0], []).append(root_w)
                    # waited for on EVERY path through finish_exchange (an early return before the waits leaves the sends pending)
                    if g.cfg is not None:
                        IN_g, OUT_g = g.cfg.forward(frozenset(), lambda b, st: frozenset(set(st) | set(wev.get(b, ()))), join=lambda a, b_: a & b_)
                        ex = IN_g.get(g.cfg.exit)
                        waited |= set(ex) if ex is not None else set()
                left = sorted(str(p) for p in pending if p not in waited)
                ck.ob('C.requests-completed', key, f.where(), not left, '' if not left else 'requests %s posted by start_exchange are not waited for in finish_exchange' % left)
            else:
                left = sorted(str(p) for p in pending)
                if left and part_of_callers:
                    continue        # a posting helper: its requests are completed (or not) by the members that call it, where it is inlined
                ck.ob('C.requests-completed', key, f.where(), not left, '' if not left else 'requests %s may still be pending when the function returns' % left)


SCALAR_SIZE = {'float': 4, 'double': 8, 'long double': 16, 'int': 4, 'unsigned int': 4, 'long': 8, 'unsigned long': 8, 'long long': 8, 'unsigned long long': 8, 'char': 1}


def split_targs(s_):
    """top-level template arguments of `name<...>`"""
    i = s_.find('<')
    if i < 0:
        return s_, []
    name, body = s_[:i], s_[i + 1:s_.rfind('>')]
    out, depth, cur = [], 0, ''
    for ch in body:
        if ch == '<':
            depth += 1
        elif ch == '>':
            depth -= 1
        if ch == ',' and depth == 0:
            out.append(cur.strip())
            cur = ''
        else:
            cur += ch
    if cur.strip():
        out.append(cur.strip())
    return name, out


def sizeof_name(t):
    """size in bytes of an amgcl value type given by name (scalars, std::complex, static_matrix)"""
    t = t.replace('const ', '').strip()
    if t in SCALAR_SIZE:
        return SCALAR_SIZE[t]
    name, args = split_targs(t)
    if name == 'std::complex' and len(args) == 1:
        s_ = sizeof_name(args[0])
        return 2 * s_ if s_ else None
    if name == 'amgcl::static_matrix' and len(args) == 3:
        s_ = sizeof_name(args[0])
        try:
            return s_ * int(args[1]) * int(args[2]) if s_ else None
        except ValueError:
            return None
    return None


def rule_E(ck, units):
    ck.rule('E.datatype-covers-value', 'mpi::datatype_impl<T>::create builds a contiguous MPI datatype of N elements of scalar S with N * sizeof(S) == sizeof(T), for every value type T instantiated '
                                       '(blocks of real and of complex numbers): a message element carries the whole value', 3)
    done = set()
    for u in units.values():
        for f in u.funcs:
            if f.q != 'amgcl::mpi::datatype_impl::create' or f.body is None:
                continue
            cname, targs = split_targs(f.clsfull or '')
            if not targs or targs[0] in done:
                continue
            T = targs[0]
            done.add(T)
            calls = [c for c in f.calls('MPI_Type_contiguous')]
            key = 'amgcl::mpi::datatype_impl<%s>' % T
            if len(calls) != 1:
                ck.ob('E.datatype-covers-value', key, f.where(), False, 'expected one MPI_Type_contiguous call, found %d' % len(calls))
                continue
            c = calls[0]
            # element count: constant value of the first argument (through a once-initialised local)
            def const_of(e, depth=0):
                e = unwrap(e)
                if e is None:
                    return None
                if e['k'] == 'lit' and e.get('t') == 'int':
                    return int(e['v'])
                if 'cv' in e:
                    return int(e['cv'])
                if e['k'] == 'ref' and depth < 3:
                    inits = [v['init'] for n in f.nodes.values() if n['k'] == 'decl' for v in n['v'] if v['d'] == e['d'] and v.get('init') is not None]
                    mods = [n for n in f.nodes.values() if n['k'] == 'bin' and n['op'] in ('=', '+=', '-=', '*=', '/=') and unwrap(n['x'])['k'] == 'ref' and unwrap(n['x'])['d'] == e['d']]
                    if len(inits) == 1 and not mods:
                        return const_of(inits[0], depth + 1)
                return None
            N = const_of(c['a'][0])
            base = unwrap(c['a'][1])
            S = None
            if base is not None and base['k'] == 'call' and 'fd' in base:
                g = u.by_id.get(base['fd'])
                if g is not None:
                    _, sa_ = split_targs(g.clsfull or g.full)
                    S = sa_[0] if sa_ else None
            sT, sS = sizeof_name(T), sizeof_name(S) if S else None
            if N is None or sT is None or sS is None:
                ck.ob('E.datatype-covers-value', key, f.where(c), False, 'cannot establish the element count (%s) or the sizes of %s / %s at compile time' % (N, T, S))
                continue
            ok = N * sS == sT
            ck.ob('E.datatype-covers-value', key, f.where(c), ok, '' if ok else 'the MPI datatype of %s is %d x %s = %d bytes, the value has %d bytes: only part of each value is sent / received' % (T, N, S, N * sS, sT))


def mpi_op(e):
    t = show(e).lower()
    for k in ('sum', 'max', 'min', 'prod'):
        if 'op_' + k in t or 'mpi_' + k in t:
            return k
    return None


def rule_F(ck, units):
    """the global reduction uses the operator with which the value is accumulated locally (over rows / threads): a quantity summed
    locally is MPI_SUM-reduced, a running maximum MPI_MAX-reduced - otherwise the distributed value is not the serial one"""
    ck.rule('F.reduce-op-matches-accumulation', 'every comm.reduce(OP, v) / MPI_Allreduce on a local accumulator v uses the operator of its local accumulation: `v += ..` / `++v` -> MPI_SUM, '
                                                '`v = std::max(v, ..)` -> MPI_MAX, `v = std::min(v, ..)` -> MPI_MIN, `v *= ..` -> MPI_PROD', 4)
    done = set()
    for u in units.values():
        for f in u.funcs:
            if f.body is None or not f.rel().startswith('amgcl/mpi/') or (f.file, f.line) in done:
                continue
            calls = [c for c in f.calls() if c.get('m') == 'reduce' and len(c.get('a', [])) == 2]
            if not calls:
                continue
            done.add((f.file, f.line))
            for k, c in enumerate(calls):
                v = unwrap(c['a'][1])
                if v is None or v['k'] != 'ref' or f.decl(v['d']).get('k') not in ('local',):
                    continue
                kinds = set()
                for n in f.nodes.values():
                    if n['k'] == 'bin' and unwrap(n['x']) is not None and unwrap(n['x'])['k'] == 'ref' and unwrap(n['x'])['d'] == v['d']:
                        if n is c or any(x is c for x in walk(n)):
                            continue      # v = comm.reduce(.., v)
                        if n['op'] in ('+=', '-='):
                            kinds.add('sum')
                        elif n['op'] == '*=':
                            kinds.add('prod')
                        elif n['op'] == '=':
                            y = unwrap(n['y'])
                            if y is not None and y['k'] == 'call' and (y.get('f') or '') in ('std::max', 'std::min') and any(x['k'] == 'ref' and x['d'] == v['d'] for x in walk(y)):
                                kinds.add('max' if y['f'] == 'std::max' else 'min')
                            elif y is not None and y['k'] == 'lit':
                                pass
                            else:
                                kinds.add('assign')
                    elif n['k'] == 'un' and n['op'] in ('++', '--') and unwrap(n['e'])['k'] == 'ref' and unwrap(n['e'])['d'] == v['d']:
                        kinds.add('sum')
                kinds.discard('assign') if len(kinds) > 1 else None
                if len(kinds) != 1 or 'assign' in kinds:
                    continue
                want = next(iter(kinds))
                got = mpi_op(c['a'][0])
                key = '%s|%s|%s' % (f.rel(), f.q, v['n'])
                ck.ob('F.reduce-op-matches-accumulation', key, f.where(c), got == want,
                      '' if got == want else 'in %s: `%s` is accumulated locally as a %s but reduced over the ranks with `%s` at %s: the global value is not the %s over all rows' % (
                          f.full[:80], v['n'], {'sum': 'sum (+=)', 'max': 'running maximum', 'min': 'running minimum', 'prod': 'product'}[want], show(c['a'][0])[:30], f.where(c), want))


def rule_D(ck, units):
    ck.rule('D.gather-counts', 'in MPI_Gather / MPI_Allgather with equal send and receive types the per-rank receive count equals the send count', 3)
    done = set()
    for u in units.values():
        for f in u.funcs:
            if not f.rel().startswith('amgcl/mpi/'):
                continue
            k = 0
            for c in f.calls():
                if c.get('f') in ('MPI_Gather', 'MPI_Allgather') and len(c.get('a', [])) >= 6:
                    k += 1
                    key = '%s|%s|%s#%d' % (f.rel(), f.q, c['f'], k)
                    if key in done:
                        continue
                    done.add(key)
                    sc, st, rc_, rt = show(c['a'][1]), show(c['a'][2]), show(c['a'][4]), show(c['a'][5])
                    ok = st != rt or sc == rc_
                    ck.ob('D.gather-counts', key, f.where(c), ok, '' if ok else '%s sends %s element(s) per rank but the receive count per rank is `%s`: the root writes beyond its receive buffer' % (c['f'], sc, rc_))


def rule_G(ck, units):
    """G.keep-src-honoured: distributed_matrix::move_to_backend(bprm, keep_src): on every path with keep_src == true the source matrices
    a_loc / a_rem are neither modified (element writes, callees that write through a pointer into them, e.g. comm_pattern::renumber on
    a_rem->col) nor released.  The transfer operators P, R of a level are moved with keep_src and reused by the next coarsening step."""
    from effects import locate
    from accesses import Analyzer
    ck.rule('G.keep-src-honoured', 'move_to_backend(bprm, keep_src): every modification or release of the source matrices a_loc / a_rem (element write, callee writing through a pointer '
                                   'into them, reset) is executed only on paths where keep_src is false (exact path condition on the unmodified parameter)', 3)
    for u in units.values():
        an = Analyzer([u])
        done = set()
        for f in u.funcs:
            if f.q != 'amgcl::mpi::distributed_matrix::move_to_backend' or f.cfg is None or len(f.params) != 2 or f.cls in done:
                continue
            done.add(f.cls)
            ks = f.params[1]
            if f.decl(ks).get('n') != 'keep_src':
                ck.brk('move_to_backend: second parameter is not keep_src')
                continue
            if any(n['k'] == 'bin' and n['op'] in ('=', '|=', '&=', '^=') and unwrap(n['x'])['k'] == 'ref' and unwrap(n['x'])['d'] == ks for n in f.nodes.values()):
                ck.brk('move_to_backend: keep_src is assigned')
                continue
            loc = locate(f)
            SRC = ('a_loc', 'a_rem')

            def src_of(e):
                ap = ir.access_path(e)
                if ap is not None and ap[0] == 'this' and ap[2] and ap[2][0] in SRC:
                    return ap[2]
                return None
            # locals that may hold the source shared_ptr itself (`auto rem_src = a_rem;`): writes through them are writes to the source
            # while they alias it - tracked flow-sensitively together with the value of keep_src
            def src_ptr(e):
                sp = src_of(e)
                return sp[0] if sp is not None and len(sp) == 1 and unwrap(e)['k'] == 'mem' else None
            cand = set()
            for n in f.nodes.values():
                if n['k'] == 'decl':
                    for v in n['v']:
                        if v.get('init') is not None and src_ptr(v['init']) is not None:
                            cand.add(v['d'])
                elif n['k'] in ('bin', 'opcall') and n.get('op') == '=' and n.get('x') is not None and unwrap(n['x'])['k'] == 'ref' and src_ptr(n['y']) is not None:
                    cand.add(unwrap(n['x'])['d'])

            def via(e):
                """(kind, name): ('member', path) for a_rem->..., ('local', decl) for an aliasing local"""
                sp = src_of(e)
                if sp is not None and len(sp) >= 2:
                    return ('member', '->'.join(sp))
                ap = ir.access_path(e)
                if ap is not None and ap[0] == 'var' and ap[1] in cand and ap[2]:
                    return ('local', ap[1])
                return None
            evs = {}

            def add(n, kind, payload):
                if n['i'] in loc:
                    b_, pos = loc[n['i']]
                    evs.setdefault(b_, []).append((pos, n['i'], kind, payload, n))
            for n in f.nodes.values():
                if n['k'] == 'decl':
                    for v in n['v']:
                        if v['d'] in cand:
                            add(n, 'bind', (v['d'], v.get('init') is not None and src_ptr(v['init']) is not None))
                elif n['k'] in ('bin', 'opcall') and n.get('op') == '=' and n.get('x') is not None and unwrap(n['x'])['k'] == 'ref' and unwrap(n['x'])['d'] in cand:
                    add(n, 'bind', (unwrap(n['x'])['d'], src_ptr(n['y']) is not None))
                if n['k'] == 'call':
                    obj = n.get('obj')
                    if obj is not None and n.get('m') in ('reset', 'swap') and src_of(obj) is not None and len(src_of(obj)) == 1:
                        add(n, 'mut', (('member', src_of(obj)[0]), '%s is released (%s)' % (src_of(obj)[0], show(n))))
                        continue
                    g = u.by_id.get(n.get('fd')) if 'fd' in n else None
                    for i, a_ in enumerate(n.get('a', [])):
                        w = via(a_)
                        if w is None:
                            continue
                        eff = an.param_effect(g, i) if g is not None and g.cfg is not None and i < len(g.params) else 'rw'
                        pd = g.decl(g.params[i]) if g is not None and i < len(g.params) else None
                        if pd is not None and pd.get('const') and not pd.get('ptr'):
                            eff = 'read'
                        if eff not in ('read', 'neutral'):
                            add(n, 'mut', (w, '%s is written by %s through argument %d' % (show(a_), (n.get('f') or n.get('m') or '?').split('::')[-1], i)))
                elif n['k'] in ('bin', 'opcall') and n.get('op') in ('=', '+=', '-=', '*=', '/=') and n.get('x') is not None:
                    w = via(n['x'])
                    sp = src_of(n['x'])
                    if w is not None:
                        add(n, 'mut', (w, '%s is assigned' % show(n['x'])[:40]))
                    elif sp is not None and len(sp) == 1 and n['op'] == '=' and unwrap(n['x'])['k'] == 'mem':
                        add(n, 'mut', (('member', sp[0]), '%s is re-assigned' % sp[0]))
            for b_ in evs:
                evs[b_].sort(key=lambda t: (t[0], t[1]))
            found = {}

            def transfer(b_, st, record=False):
                out = set()
                for ksv, al in st:
                    al = set(al)
                    for pos, nid, kind, p_, node in evs.get(b_, ()):
                        if kind == 'bind':
                            (al.add if p_[1] else al.discard)(p_[0])
                        elif kind == 'mut' and record:
                            w, what = p_
                            hits_src = w[0] == 'member' or (w[0] == 'local' and w[1] in al)
                            key_ = (nid, what)
                            if hits_src:
                                found.setdefault(key_, [node, False])
                                if ksv:
                                    found[key_][1] = True
                    out.add((ksv, frozenset(al)))
                return frozenset(out)

            def edge(b_, k, s_, st):
                c = f.cfg.cond(b_)
                if c is None:
                    return st
                cu = unwrap(c)
                neg = False
                while cu is not None and cu['k'] == 'un' and cu['op'] == '!':
                    neg = not neg
                    cu = unwrap(cu['e'])
                if cu is not None and cu['k'] == 'ref' and cu['d'] == ks:
                    val = (k == 0) != neg
                    st = frozenset(t for t in st if t[0] == val)
                    return st if st else None
                return st
            IN, OUT = f.cfg.forward(frozenset([(True, frozenset()), (False, frozenset())]), transfer, edge=edge, join=lambda a_, b2: a_ | b2)
            for b_, st in IN.items():
                transfer(b_, st, record=True)
            for (nid, what), (node, bad) in sorted(found.items()):
                ck.ob('G.keep-src-honoured', 'distributed_matrix::move_to_backend|%s' % what.split(' (')[0], f.where(node), not bad,
                      '' if not bad else '%s at %s on a path where keep_src is true: the caller keeps using the source matrix' % (what, f.where(node)))


def _poly(f, e, depth=0):
    """integer expression -> polynomial {monomial (sorted tuple of symbols): coefficient}; single-definition locals are inlined, anything
    that is not + - * of such terms is an opaque symbol named by its text"""
    e = unwrap(e)
    while e is not None and e['k'] == 'cast':
        e = unwrap(e['e'])
    if e is None:
        return None
    if e['k'] == 'lit' and e.get('t') == 'int':
        v = int(e['v'])
        return {(): v} if v else {}
    if e['k'] == 'bin' and e['op'] in ('+', '-'):
        a, b = _poly(f, e['x'], depth + 1), _poly(f, e['y'], depth + 1)
        if a is None or b is None:
            return None
        out = dict(a)
        for m, c in b.items():
            out[m] = out.get(m, 0) + (c if e['op'] == '+' else -c)
        return {m: c for m, c in out.items() if c}
    if e['k'] == 'bin' and e['op'] == '*':
        a, b = _poly(f, e['x'], depth + 1), _poly(f, e['y'], depth + 1)
        if a is None or b is None:
            return None
        out = {}
        for m1, c1 in a.items():
            for m2, c2 in b.items():
                m = tuple(sorted(m1 + m2))
                out[m] = out.get(m, 0) + c1 * c2
        return {m: c for m, c in out.items() if c}
    if e['k'] == 'ref' and depth < 8 and f.decl(e['d']).get('k') == 'local':
        d = e['d']
        inits = [v['init'] for n in f.nodes.values() if n['k'] == 'decl' for v in n['v'] if v['d'] == d and v.get('init') is not None]
        mods = [n for n in f.nodes.values() if (n['k'] == 'bin' and n['op'] in ('=', '+=', '-=', '*=', '/=') and unwrap(n['x'])['k'] == 'ref' and unwrap(n['x'])['d'] == d)
                or (n['k'] == 'un' and n['op'] in ('++', '--') and unwrap(n['e'])['k'] == 'ref' and unwrap(n['e'])['d'] == d)]
        if len(inits) == 1 and not mods:
            p = _poly(f, inits[0], depth + 1)
            if p is not None:
                return p
    return {(show(e),): 1}


def _cofactor(p, s_):
    out = {}
    for m, c in p.items():
        if s_ in m:
            r = list(m)
            r.remove(s_)
            out[tuple(r)] = out.get(tuple(r), 0) + c
    return out


def rule_H(ck, units, floor=12):
    """H.message-extent: a point-to-point message MPI_Isend / MPI_Irecv(&B[off], cnt, ...) that transfers the slice described by an offset
    table ( cnt = k (T[hi] - T[lo]) ) starts at the matching position of the buffer ( off = k T[lo] + const ): for every table element
    that occurs in both the offset and the count, its cofactor in the offset is minus its cofactor in the count."""
    ck.rule('H.message-extent', 'MPI_Isend / MPI_Irecv(&B[off], cnt, ...): for every symbol occurring both in off and cnt the cofactor in off is the negated cofactor in cnt '
                                '(a slice [k T[i], k T[i+1]) is sent from / received into its own position; polynomial normal forms, single-definition locals inlined)', floor)
    seen = set()
    for u in units.values():
        for f in u.funcs:
            if f.body is None or not f.rel().startswith('amgcl/mpi') or (f.file, f.line) in seen:
                continue
            calls = [n for n in f.nodes.values() if n['k'] == 'call' and n.get('f') in ('MPI_Isend', 'MPI_Irecv') and len(n.get('a', [])) >= 2]
            if not calls:
                continue
            seen.add((f.file, f.line))
            k = 0
            for c in sorted(calls, key=lambda n: n['i']):
                buf = unwrap(c['a'][0])
                while buf is not None and buf['k'] == 'call' and buf.get('a') and len(buf['a']) == 1 and 'cast' in (buf.get('f') or ''):
                    buf = unwrap(buf['a'][0])
                off = None
                if buf is not None and buf['k'] == 'un' and buf['op'] == '&':
                    x = unwrap(buf['e'])
                    if x is not None and x['k'] == 'idx':
                        off = x['x']
                    elif x is not None and x['k'] in ('call', 'opcall') and x.get('a') and (x.get('m') == 'operator[]' or x.get('op') == '[]'):
                        off = x['a'][-1]
                elif buf is not None and buf['k'] == 'bin' and buf['op'] == '+':
                    off = buf['y']
                if off is None:
                    continue
                po, pc = _poly(f, off), _poly(f, c['a'][1])
                if po is None or pc is None:
                    continue
                syms = {s_ for m in po for s_ in m} & {s_ for m in pc for s_ in m}
                # only table elements / running offsets, not pure scale factors: a symbol that multiplies every monomial of both is a scale
                syms = {s_ for s_ in syms if not (all(s_ in m for m in po if m) and all(s_ in m for m in pc if m))}
                if not syms:
                    continue
                k += 1
                bad = []
                for s_ in sorted(syms):
                    co, cc = _cofactor(po, s_), _cofactor(pc, s_)
                    if co != {m: -v for m, v in cc.items()}:
                        bad.append(s_)
                key = '%s|%s#%d' % ('::'.join(f.q.split('::')[-2:]), c['f'], k)
                ck.ob('H.message-extent', key, f.where(c), not bad, '' if not bad else
                      '%s at %s: buffer offset `%s` and count `%s` disagree on the scale of `%s` - the slice is not taken at its own position' % (
                          c['f'], f.where(c), show(off), show(c['a'][1]), bad[0]))


def rule_I(ck, units, floor=1, only=None):
    """I.sentinel-strict: a signed integer parameter that is replaced by a default when it is "not given" (`p < 0 ? dflt : p`,
    `p >= 0 ? p : dflt`, `if (p < 0) p = dflt;`) uses a NEGATIVE sentinel: zero is a legitimate value (a rank that owns no columns, an empty row range).
    The replacing test must therefore be the strict `p < 0`; `p <= 0` (or `p == 0`, `!p`) also swallows the legitimate zero."""
    ck.rule('I.sentinel-strict', 'a signed parameter replaced by a default when negative ("not given") is tested with the strict `< 0`: the legitimate value 0 (no columns owned, empty '
                                 'row range) is never replaced', floor)
    seen = set()
    for u in units.values():
        for f in u.funcs:
            if f.body is None or not f.rel().startswith('amgcl/') or (f.file, f.line) in seen:
                continue
            if only is not None and not f.rel().startswith(only):
                continue
            hits = []

            def param_test(c):
                """(param decl, operator text) of `p OP 0` / `0 OP p` / `!p`"""
                c = unwrap(c)
                if c is None:
                    return None
                if c['k'] == 'un' and c['op'] == '!':
                    e = unwrap(c['e'])
                    if e is not None and e['k'] == 'ref' and f.param_index(e['d']) is not None:
                        return e['d'], '== 0'
                    return None
                if c['k'] != 'bin' or c['op'] not in ('<', '<=', '==', '>', '>=', '!='):
                    return None
                x, y = unwrap(c['x']), unwrap(c['y'])
                if x is not None and y is not None and x['k'] == 'ref' and f.param_index(x['d']) is not None and y['k'] == 'lit' and y.get('v') == '0':
                    return x['d'], c['op'] + ' 0'
                flip = {'<': '>', '<=': '>=', '>': '<', '>=': '<=', '==': '==', '!=': '!='}
                if x is not None and y is not None and y['k'] == 'ref' and f.param_index(y['d']) is not None and x['k'] == 'lit' and x.get('v') == '0':
                    return y['d'], flip[c['op']] + ' 0'
                return None
            for n in f.nodes.values():
                if n['k'] == 'cond':
                    t = param_test(n['c'])
                    if t is None:
                        continue
                    d, op = t
                    # p OP 0 ? dflt : p   (the false arm is the parameter itself)
                    y = unwrap(n.get('y'))
                    x = unwrap(n.get('x'))
                    if y is not None and y['k'] == 'ref' and y['d'] == d and not (x is not None and x['k'] == 'ref' and x['d'] == d):
                        hits.append((n, d, op, x))
                    elif x is not None and x['k'] == 'ref' and x['d'] == d and not (y is not None and y['k'] == 'ref' and y['d'] == d):
                        # p OP 0 ? p : dflt   - the default replaces p exactly when the test fails
                        neg = {'< 0': '>= 0', '<= 0': '> 0', '> 0': '<= 0', '>= 0': '< 0', '== 0': '!= 0', '!= 0': '== 0'}
                        hits.append((n, d, neg[op], y))
                elif n['k'] == 'if' and n.get('e') is None and n.get('t') is not None:
                    t = param_test(n['c'])
                    if t is None:
                        continue
                    d, op = t
                    body = [m for m in walk(n['t']) if m['k'] == 'bin' and m['op'] == '=']
                    if len(body) == 1 and unwrap(body[0]['x'])['k'] == 'ref' and unwrap(body[0]['x'])['d'] == d and len([m for m in walk(n['t']) if m['k'] in ('call', 'ret', 'throw')]) == 0:
                        hits.append((n, d, op, unwrap(body[0]['y'])))
            if not hits:
                continue
            seen.add((f.file, f.line))
            for n, d, op, dflt in hits:
                dd = f.decl(d)
                t = u.type(dd.get('ct')).replace('const ', '').strip()
                if t not in ('int', 'long', 'long long', 'short', 'signed char'):
                    continue
                # replacing 0 by the default 0 changes nothing: `<= 0` is as good as `< 0` there
                ok = op == '< 0' or (op == '<= 0' and dflt is not None and dflt['k'] == 'lit' and dflt.get('v') == '0')
                ck.ob('I.sentinel-strict', '%s|%s' % ('::'.join(f.q.split('::')[-2:]), dd['n']), f.where(n), ok, '' if ok else
                      'parameter `%s` is replaced by its default when `%s %s` at %s: the legitimate value 0 is treated as "not given"' % (dd['n'], dd['n'], op, f.where(n)))


def _buf_root(f, e):
    """(kind, id, path) of the buffer argument of a nonblocking call: &B[k], B + k, B, const_cast<T*>(&B[k])"""
    e = unwrap(e)
    while e is not None and e['k'] == 'call' and len(e.get('a', [])) == 1 and 'cast' in (e.get('f') or e.get('m') or ''):
        e = unwrap(e['a'][0])
    return ir.access_path(e) if e is not None else None


def _idx_text(f, e):
    """for &B[e] / B[e]: (text of the index of the outermost element access, declarations it mentions); (None, ()) for a whole object"""
    e = unwrap(e)
    while e is not None and e['k'] == 'call' and len(e.get('a', [])) == 1 and 'cast' in (e.get('f') or e.get('m') or ''):
        e = unwrap(e['a'][0])
    if e is not None and e['k'] == 'un' and e['op'] == '&':
        e = unwrap(e['e'])
    if e is not None and e['k'] == 'idx':
        return show(e['x']), frozenset(x['d'] for x in walk(e['x']) if x['k'] == 'ref')
    if e is not None and e['k'] in ('call', 'opcall') and (e.get('m') == 'operator[]' or e.get('op') == '[]') and e.get('a'):
        return show(e['a'][-1]), frozenset(x['d'] for x in walk(e['a'][-1]) if x['k'] == 'ref')
    return None, frozenset()


def rule_J(ck, units, floor=10):
    """J.send-buffer-stable / J.buffer-outlives-request (MPI-3.1, 3.7.2: the buffer of a nonblocking operation must not be modified - for a
    receive: not accessed - and must stay alive until the operation is completed by a wait / test).
    (1) between MPI_Isend(buf, ..., &req) and the completion of req no statement writes into buf (same root object and member path;
        re-binding of a reference local drops the facts about it - the next neighbour's buffer is another object);
    (2) buf is not a local variable declared inside a loop body that ends before the request is completed (every iteration would
        reuse the storage while the previous message may still be in flight)."""
    from effects import locate
    ck.rule('J.send-buffer-stable', 'no write into the buffer of an MPI_Isend between the call and the completion (MPI_Wait*, MPI_Test*) of its request, on any CFG path '
                                    '(forward may-analysis of in-flight buffers per function)', floor)
    ck.rule('J.buffer-outlives-request', 'the buffer of an MPI_Isend / MPI_Irecv is not a variable local to a loop iteration that ends before the request is completed', floor)
    seen = set()
    for u in units.values():
        for f in u.funcs:
            if f.body is None or f.cfg is None or not f.rel().startswith('amgcl/mpi') or (f.file, f.line) in seen:
                continue
            nb = [n for n in f.nodes.values() if n['k'] == 'call' and n.get('f') in ('MPI_Isend', 'MPI_Irecv') and len(n.get('a', [])) >= 7]
            if not nb:
                continue
            seen.add((f.file, f.line))
            loc = locate(f)
            fq = '::'.join(f.q.split('::')[-2:])
            waits = [n for n in f.nodes.values() if n['k'] == 'call' and (n.get('f') or '').startswith(('MPI_Wait', 'MPI_Test'))]

            def req_root(n):
                a = n['a']
                e = a[-1] if n['f'] in ('MPI_Isend', 'MPI_Irecv') else (a[0] if n['f'] in ('MPI_Wait', 'MPI_Test') else a[1])
                ap = ir.access_path(e)
                return (ap[0], ap[1], ap[2][:1]) if ap is not None else None
            events = {}

            def add(n, kind, payload):
                if n['i'] in loc:
                    b, pos = loc[n['i']]
                    events.setdefault(b, []).append((pos, n['i'], kind, payload, n))
            k = 0
            for n in sorted(nb, key=lambda t: t['i']):
                k += 1
                ap = _buf_root(f, n['a'][0])
                rq = req_root(n)
                key = '%s|%s#%d' % (fq, n['f'], k)
                # ---- (2) lifetime
                ok2, det2 = True, ''
                if ap is not None and ap[0] == 'var' and f.decl(ap[1]).get('k') == 'local' and not f.decl(ap[1]).get('ref'):
                    dnode = next((m for m in f.nodes.values() if m['k'] == 'decl' and any(v['d'] == ap[1] for v in m['v'])), None)
                    if dnode is not None:
                        loops = [a for a in f.ancestors(dnode) if a['k'] in ('for', 'while', 'do', 'rfor')]
                        if loops:
                            L = loops[0]
                            inside = {x['i'] for x in walk(L)}
                            completes = [w for w in waits if w['i'] in inside and req_root(w) == rq]
                            if not completes:
                                ok2 = False
                                det2 = ('%s at %s sends / receives through `%s`, a variable local to one iteration of the loop at %s; the request is completed only after the '
                                        'loop: the storage is reused (and goes out of scope) while the operation may still be in flight' % (
                                            n['f'], f.where(n), f.decl(ap[1])['n'], f.where(L)))
                ck.ob('J.buffer-outlives-request', key, f.where(n), ok2, det2)
                if n['f'] == 'MPI_Isend' and ap is not None:
                    it, iv = _idx_text(f, n['a'][0])
                    add(n, 'send', ((ap[0], ap[1], ap[2]), rq, key, it, iv, True))
            for w in waits:
                add(w, 'wait', req_root(w))
            for n in f.nodes.values():
                if n['k'] == 'decl':
                    for v in n['v']:
                        add(n, 'rebind', v['d'])
                elif n['k'] in ('bin', 'opcall') and n.get('op') in ('=', '+=', '-=', '*=', '/=') and n.get('x') is not None:
                    ap = ir.access_path(n['x'])
                    if ap is not None:
                        add(n, 'write', (ap[0], ap[1], ap[2], _idx_text(f, n['x'])[0]))
                    x = unwrap(n['x'])
                    if x is not None and x['k'] == 'ref' and n['op'] != '=':
                        add(n, 'inc', x['d'])
                elif n['k'] == 'un' and n['op'] in ('++', '--'):
                    ap = ir.access_path(n['e'])
                    if ap is not None and ap[2]:
                        add(n, 'write', (ap[0], ap[1], ap[2], _idx_text(f, n['e'])[0]))
                    x = unwrap(n['e'])
                    if x is not None and x['k'] == 'ref':
                        add(n, 'inc', x['d'])
            for b in events:
                events[b].sort(key=lambda t: (t[0], t[1]))
            bad = {}

            def step(evs, st, record=False):
                st = set(st)
                for pos, nid, kind, p, node in evs:
                    if kind == 'send':
                        st.add(p)
                    elif kind == 'wait':
                        st = {t for t in st if t[1] != p}
                    elif kind == 'rebind':
                        st = {t for t in st if not (t[0][0] == 'var' and t[0][1] == p)}
                    elif kind == 'inc':
                        # the loop variable the slot index depends on moves on: `B[i]` now names another element than the one in flight
                        st = {(t[:5] + (False,)) if p in t[4] else t for t in st}
                    elif kind == 'write' and record:
                        for (root, rq, key, itext, ivars, fresh) in st:
                            if root[0] == p[0] and root[1] == p[1] and p[2][:len(root[2])] == root[2]:
                                if itext is not None and p[3] == itext and not fresh:
                                    continue        # same slot expression in a later iteration of its (monotone) loop: a different element
                                bad.setdefault(key, node)
                return frozenset(st)
            IN, OUT = f.cfg.forward(frozenset(), lambda b, st: step(events.get(b, ()), st), join=lambda a, b_: a | b_)
            for b, st in IN.items():
                step(events.get(b, ()), st, record=True)
            k = 0
            for n in sorted(nb, key=lambda t: t['i']):
                k += 1
                if n['f'] != 'MPI_Isend':
                    continue
                key = '%s|%s#%d' % (fq, n['f'], k)
                w = bad.get(key)
                ck.ob('J.send-buffer-stable', key, f.where(n), w is None, '' if w is None else
                      'the buffer `%s` handed to MPI_Isend at %s is modified by `%s` at %s before its request is completed: what the neighbour receives depends on when the MPI '
                      'runtime copies the data (eager vs rendezvous protocol)' % (show(n['a'][0]), f.where(n), show(w)[:50], f.where(w)))


def rule_K(ck, T):
    """K.memberwise-copy: a constructor that copies an object of the same class template with other template arguments (the copy of a
    distributed matrix / communication pattern to another backend) takes every member from the member of the same name:
    `m(C.m)` in the initialiser list, `x.m = C.x.m` in the body.  A crossed pair (`loc_beg(C.loc_cols)`) compiles whenever the types agree."""
    ck.rule('K.memberwise-copy', 'converting copy constructors (same class template, other arguments): a member initialised / assigned from a member of the source is taken from the member '
                                 'of the same name (same member path)', 4)
    src = os.path.join(T, 'mpi_relax.cpp')
    u = ir.run_units([dict(name='mpi_relax', src=src, mpi=True)], 'C11k')['mpi_relax']
    seen = set()
    for f in u.funcs:
        if not f.j.get('ctor') or len(f.params) != 1 or f.body is None or not f.rel().startswith('amgcl/') or (f.file, f.line) in seen:
            continue
        pt = u.type(f.decl(f.params[0]).get('ct')).replace('const ', '').strip()
        if re.sub(r'<.*', '', pt) != f.cls or pt.rstrip('& ') == (f.clsfull or ''):
            continue           # not the same template, or the ordinary copy constructor
        seen.add((f.file, f.line))
        src_d = f.params[0]

        def src_path(e):
            """member path of an expression that reads a member of the source object, else None"""
            e = unwrap(e)
            while e is not None and e['k'] in ('ctor', 'cast') and (e['k'] == 'cast' or len(e.get('a', [])) == 1):
                e = unwrap(e['e'] if e['k'] == 'cast' else e['a'][0])
            ap = ir.access_path(e) if e is not None else None
            if ap is not None and ap[0] == 'var' and ap[1] == src_d and ap[2]:
                return ap[2]
            return None
        k = 0
        for ini in f.j.get('inits', []):
            if 'm' not in ini or not ini.get('written') or ini.get('e') is None:
                continue
            sp = src_path(ini['e'])
            if sp is None:
                continue
            k += 1
            ok = sp == (ini['m'],)
            ck.ob('K.memberwise-copy', '%s|%s' % (f.cls, ini['m']), '%s:%s' % (f.rel(), ini.get('l', f.line)), ok, '' if ok else
                  'member `%s` is initialised from `%s` of the source object' % (ini['m'], '.'.join(sp)))
        for n in f.nodes.values():
            if n['k'] in ('bin', 'opcall') and n.get('op') == '=' and n.get('x') is not None and n.get('y') is not None:
                lp = ir.access_path(n['x'])
                sp = src_path(n['y'])
                if lp is None or sp is None or lp[0] != 'this':
                    continue
                k += 1
                ok = tuple(lp[2]) == tuple(sp)
                ck.ob('K.memberwise-copy', '%s|%s' % (f.cls, '.'.join(lp[2])), f.where(n), ok, '' if ok else
                      '`%s` at %s copies member `%s` of the source into member `%s`' % (show(n)[:60], f.where(n), '.'.join(sp), '.'.join(lp[2])))


def main(tier):
    ck = Check('C11', tier, 'C11 (clauses): collective scalars are rank-consistent, ghost values are used after the exchange completed, requests are completed.')
    T = os.path.join(ir.VERIF, 'tus')
    specs = [dict(name='mpi_rt', src=os.path.join(T, 'mpi_rt.cpp'), mpi=True)]
    units = ir.run_units(specs, 'C11')
    ck.add_units(units, specs)
    rule_A(ck, units)
    rule_B(ck, units)
    rule_C(ck, units)
    rule_D(ck, units)
    rule_E(ck, units)
    rule_F(ck, units)
    rule_G(ck, units)
    rule_H(ck, units)
    rule_I(ck, units)
    rule_J(ck, units)
    rule_K(ck, T)
    import c06
    c06.rule_chebyshev_bounds(ck, units, which=('sib',))    # the distributed spectral-radius estimate scales like the serial one (shared with C06 / C08)
    import c12
    c12.rule_E(ck, units, floor=3)   # row sums cover the ghost columns (spectral radius, spai0; shared with C12)
    ck.assumptions += ['MPI_Allreduce / MPI_Allgather deliver the same result on all ranks', 'configuration parameters (prm.*, scalar arguments such as power_iters) are equal on all ranks',
                       'equality with the serial kernels for all partitions and the correctness of transpose / product are not decided']
    return ck.finish()
