"""C10 - no dependence on uninitialised memory; ownership; contained empty_level (DESIGN.md 4, C10).

A  fill completeness: an array obtained raw (new T[n], crs::set_size without clean_ptr, crs::set_nonzeros(n),
   numa_vector(n, false)) that is filled row by row is written on every path through one iteration of the
   outer row loop (a `continue` / early exit that bypasses the fill is reported); zero-trip inner loops aside
B  ownership: delete[] of crs arrays only in crs::free_data under own_data; own_data = false only at borrowing sites
C  error::empty_level is thrown only inside coarsening code and never escapes amg: the only way from amg into
   that code passes through the try / catch of level::step_down
"""
import os

import ir
from ir import walk, unwrap, show
from accesses import Analyzer
from effects import locate
import omp
import c17
from framework import Check

# arrays that are filled only at a structurally present entry, by documented precondition
DIAGONAL_ONLY = {
    ('amgcl::backend::diagonal', 'dia'): 'written at the diagonal entry of each row: a structurally present diagonal is the documented precondition',
}
COARSENING_PREFIXES = ('amgcl::coarsening::', 'amgcl::runtime::coarsening::', 'amgcl::mpi::coarsening::', 'amgcl::runtime::mpi::coarsening::')


def array_ref(an, f, lv):
    """(root, member through which the elements are reached, index list) of an element lvalue"""
    e = unwrap(lv)
    idx = []
    member = None
    while e is not None:
        k = e['k']
        if k == 'idx':
            idx.append(e['x'])
            e = unwrap(e['b'])
        elif k == 'mem':
            b = unwrap(e.get('b'))
            if b is None or b['k'] == 'this':
                return ('this', e['n']), member, idx
            if member is None:
                member = e['n']
            e = b
        elif k == 'un' and e['op'] in ('*', '->', '&'):
            e = unwrap(e['e'])
        elif k == 'ref':
            return an.root_of_expr(f, e), member, idx
        elif k == 'call' and e.get('obj') is not None and (e.get('m') in ('get', 'data', 'operator->', 'operator*') or e.get('conv')):
            e = unwrap(e['obj'])
        elif k == 'bin' and e['op'] in ('+', '-'):
            idx.append(e['y'])
            e = unwrap(e['x'])
        elif k in ('cast', 'defarg'):
            e = unwrap(e['e'])
        else:
            return None, member, idx
    return None, member, idx


def raw_arrays(an, f):
    """{(root, member): where-node} for arrays that are allocated without initialisation in f"""
    raw = {}
    for n in f.nodes.values():
        if n['k'] == 'bin' and n['op'] == '=' and unwrap(n['y'])['k'] == 'new' and 'n' in unwrap(n['y']):
            nw = unwrap(n['y'])
            if nw.get('init') is not None:
                continue   # value-initialised
            root, member, idx = array_ref(an, f, n['x'])
            if root is not None and not idx:
                # X.val = new T[n]  -> elements of (root(X), 'val');  p = new T[n] -> (root(p), None)
                raw[(root, member)] = n
        elif n['k'] == 'call' and n.get('m') in ('set_size', 'set_nonzeros') and n.get('obj') is not None:
            root = an.root_of_expr(f, n['obj'])
            if root is None:
                continue
            a = n.get('a', [])
            if n['m'] == 'set_size':
                clean = len(a) >= 3 and unwrap(a[2])['k'] == 'lit' and unwrap(a[2])['v'] == 'true'
                cleanarg = unwrap(a[2]) if len(a) >= 3 else None
                if cleanarg is not None and cleanarg['k'] == 'defarg':
                    clean = False
                if not clean:
                    raw[(root, 'ptr')] = n
            else:
                if len(a) >= 1 and not (unwrap(a[0])['k'] == 'defarg'):
                    raw[(root, 'col')] = n
                    raw[(root, 'val')] = n
        elif n['k'] == 'decl':
            for v in n['v']:
                init = unwrap(v.get('init')) if v.get('init') is not None else None
                if init is not None and init['k'] == 'ctor' and 'numa_vector' in f.unit.type(init.get('ct')) and len(init.get('a', [])) == 2:
                    flag = unwrap(init['a'][1])
                    if flag['k'] == 'lit' and flag['v'] == 'false':
                        raw[(('var', v['d']), None)] = n
        if n['k'] == 'call' and n.get('f') == 'std::make_shared' and 'rt' in n and 'numa_vector' in f.unit.type(n['rt']) and len(n.get('a', [])) == 2:
            flag = unwrap(n['a'][1])
            if flag['k'] == 'lit' and flag['v'] == 'false':
                # auto v = make_shared<numa_vector<T>>(n, false)
                pi = f.parent.get(n['i'])
                p = f.nodes.get(pi) if pi is not None else None
                while p is not None and p['k'] in ('ctor', 'cast'):
                    p = f.nodes.get(f.parent.get(p['i']))
                if p is not None and p['k'] == 'decl':
                    for v in p['v']:
                        if v.get('init') is not None and any(x is n for x in walk(v['init'])):
                            raw[(('var', v['d']), None)] = n
                elif p is not None and p['k'] == 'bin' and p['op'] == '=':
                    r = an.root_of_expr(f, p['x'])
                    if r is not None:
                        raw[(r, None)] = n
    return raw


def fill_check(an, f, key, alloc):
    """for array `key` in f: list of (loop, reason) where a path through one iteration of the outermost fill loop bypasses the fill"""
    root, member = key
    cfg = f.cfg
    loc = locate(f)
    writes = []
    for n in f.nodes.values():
        lv = None
        if n['k'] == 'bin' and n['op'] == '=' and n['i'] > alloc['i']:
            lv = n['x']       # only plain assignments initialise; ++ / += are counting passes over initialised storage
        if lv is None:
            continue
        r, m, idx = array_ref(an, f, lv)
        if r == root and m == member and idx:
            writes.append((n, idx))
    if not writes:
        return [], 0
    # group writes by their outermost enclosing loop
    groups = {}
    ranged = set()
    for w, idx in writes:
        loops = [a for a in f.ancestors(w) if a['k'] in ('for', 'while', 'rfor', 'do')]
        if not loops:
            continue
        if own_cursor(an, f, root, idx, loops[-1]):
            # arr[head] with head = own.ptr[i]: the row extent was produced by a counting pass under the same
            # conditions; whether both passes agree is a functional question (C08), not a fill-completeness one
            continue
        # the row loop: the outermost loop whose induction variable determines the written index
        row = None
        for L in reversed(loops):
            if loop_var_in(f, L, idx):
                row = L
                break
        if row is None:
            continue
        groups.setdefault(row['i'], (row, []))[1].append(w)
        if row is not loops[0]:
            ranged.add(row['i'])     # written inside an inner loop: a row-range fill
    # a single (conditional) element per row is sized by the same condition; the rule is about row-range fills
    groups = {k: v for k, v in groups.items() if k in ranged}
    bad = []
    for lid, (L, ws) in groups.items():
        body = L['b']
        body_ids = {n['i'] for n in walk(body)}
        # blocks of the body
        bblocks = {loc[i][0] for i in body_ids if i in loc}
        if not bblocks:
            continue
        # header blocks of the fill: for each write, the outermost loop inside L that contains it -> the block of its condition / or the write's block
        stops = set()
        for w in ws:
            inner = [a for a in f.ancestors(w) if a['k'] in ('for', 'while', 'rfor', 'do') and a['i'] in body_ids]
            if inner:
                H = inner[-1]
                # the block that evaluates the loop condition: the terminator block of H
                cond_ids = {x['i'] for x in walk(H['c'])} if H.get('c') is not None else set()
                hb = [b for b, blk in cfg.blocks.items() if blk.get('term') == H['i'] or (blk.get('term') in cond_ids)]
                if hb:
                    stops |= set(hb)
                else:
                    stops.add(loc[w['i']][0])
            else:
                stops.add(loc[w['i']][0])
        # entry block of the body: successor 0 of L's condition block; latch: blocks with an edge back to L's condition block
        lcond = [b for b, blk in cfg.blocks.items() if blk.get('term') == L['i']]
        if not lcond:
            continue
        lc = lcond[0]
        entry = cfg.succ[lc][0] if cfg.succ[lc] else None
        if entry is None:
            continue
        # reachability from entry to lc (next iteration) or out of the loop without crossing a stop block
        seen = set()
        work = [entry]
        escaped = None
        while work:
            b = work.pop()
            if b in seen:
                continue
            seen.add(b)
            if b in stops:
                continue
            if b == lc:
                escaped = b
                break
            for s in cfg.succ[b]:
                if s is not None:
                    work.append(s)
        if escaped is not None:
            # find the statement responsible: a continue / the end of an if without else inside the body before the fill
            cont = [n for n in walk(body) if n['k'] == 'continue' and not any(a['k'] in ('for', 'while', 'rfor', 'do') and a['i'] in body_ids for a in f.ancestors(n))]
            why = ('the `continue` at %s skips it' % f.where(cont[0])) if cont else 'a path through the loop body does not reach it'
            bad.append((L, ws[0], why))
    return bad, len(groups)


def own_cursor(an, f, root, idx, outer):
    """is the written position a cursor that starts at the written matrix' own row pointer?"""
    seen = set()
    work = [x['d'] for e in idx for x in walk(e) if x['k'] == 'ref']
    while work:
        d = work.pop()
        if d in seen or len(seen) > 40:
            continue
        seen.add(d)
        if f.decl(d).get('k') != 'local':
            continue
        inits = []
        for n in walk(outer):
            if n['k'] == 'decl':
                inits += [v['init'] for v in n['v'] if v['d'] == d and v.get('init') is not None]
            elif n['k'] == 'bin' and n['op'] == '=' and unwrap(n['x'])['k'] == 'ref' and unwrap(n['x'])['d'] == d:
                inits.append(n['y'])
        for init in inits:
            for x in walk(init):
                if x['k'] == 'idx':
                    r, m, _ = array_ref(an, f, x)
                    if m == 'ptr' and r == root:
                        return True
            work += [x['d'] for x in walk(init) if x['k'] == 'ref']
    # direct: arr[own.ptr[i]]
    for e in idx:
        for x in walk(e):
            if x['k'] == 'idx':
                r, m, _ = array_ref(an, f, x)
                if m == 'ptr' and r == root:
                    return True
    return False


def loop_vars(L):
    vs = set()
    init = L.get('init')
    if init is not None:
        if init['k'] == 'decl':
            vs |= {v['d'] for v in init['v']}
        elif init['k'] == 'bin' and init['op'] == '=' and unwrap(init['x'])['k'] == 'ref':
            vs.add(unwrap(init['x'])['d'])
    if L['k'] == 'rfor' and L.get('var'):
        vs.add(L['var']['d'])
    return vs


def loop_var_in(f, L, idx, depth=0):
    """does the index depend on the induction variable of L (directly, or through cursors initialised from it)?"""
    vs = loop_vars(L)
    if not vs:
        return False
    seen = set()
    work = [x['d'] for e in idx for x in walk(e) if x['k'] == 'ref']
    while work:
        d = work.pop()
        if d in seen:
            continue
        seen.add(d)
        if d in vs:
            return True
        if f.decl(d).get('k') != 'local' or len(seen) > 40:
            continue
        for n in walk(L['b']):
            if n['k'] == 'decl':
                for v in n['v']:
                    if v['d'] == d and v.get('init') is not None:
                        work += [x['d'] for x in walk(v['init']) if x['k'] == 'ref']
            elif n['k'] == 'for' and n.get('init') is not None and n['init']['k'] == 'decl':
                for v in n['init']['v']:
                    if v['d'] == d and v.get('init') is not None:
                        work += [x['d'] for x in walk(v['init']) if x['k'] == 'ref']
            elif n['k'] == 'bin' and n['op'] == '=':
                # cursor arrays: j[k] = A.ptr[ia + k]
                x0 = unwrap(n['x'])
                base = unwrap(x0['b']) if x0 is not None and x0['k'] == 'idx' else x0
                if base is not None and base['k'] == 'ref' and base['d'] == d:
                    work += [x['d'] for x in walk(n['y']) if x['k'] == 'ref']
    return False


def rule_A(ck, units, floor):
    ck.rule('A.fill-complete', 'a raw-allocated array that is filled inside a loop over rows is written on every path through one iteration of that loop '
                               '(zero-trip inner loops aside)', floor)
    seen = set()
    for u in units.values():
        an = Analyzer([u])
        for f in u.funcs:
            if f.cfg is None or not f.rel().startswith('amgcl/'):
                continue
            raw = raw_arrays(an, f)
            if not raw:
                continue
            for key, alloc in raw.items():
                root, member = key
                name = member or (f.decl(root[1])['n'] if root[0] == 'var' else str(root[-1]))
                if root[0] == 'var' and member is not None:
                    name = '%s.%s' % (f.decl(root[1])['n'], member)
                elif root[0] == 'param' and member is not None:
                    name = '%s.%s' % (f.decl(f.params[root[1]])['n'], member)
                bad, ngroups = fill_check(an, f, key, alloc)
                k = '%s|%s|%s' % (f.rel(), f.q, name)
                if (f.q, name.split('.')[-1]) in DIAGONAL_ONLY or (f.q, name) in DIAGONAL_ONLY:
                    continue
                det = ''
                if bad:
                    L, w, why = bad[0]
                    det = 'in %s: `%s` is allocated uninitialised at %s and filled at %s inside the loop at %s, but %s: the elements of such rows keep indeterminate values' % (
                        f.q, name, f.where(alloc), f.where(w), f.where(L), why)
                ck.ob('A.fill-complete', k, f.where(alloc), not bad, det, trivial=(ngroups == 0))


def rule_C(ck, units):
    ck.rule('C.empty-level-contained', 'error::empty_level is thrown only in coarsening code and is caught in amg::level::step_down: no function outside the coarsening classes lets it escape', 3)
    for u in units.values():
        may = {}   # function id -> example site
        catching = {}

        def caught(f, n):
            for a in f.ancestors(n):
                if a['k'] == 'try' and any(x is n for x in walk(a['b'])):
                    for h in a.get('h', []):
                        if h.get('all') or 'empty_level' in u.type(h.get('t')):
                            return True
            return False
        for f in u.funcs:
            for n in f.nodes.values():
                if n['k'] == 'throw' and 't' in n and 'empty_level' in u.type(n['t']):
                    if not caught(f, n):
                        may[f.id] = (f, n)
        changed = True
        while changed:
            changed = False
            for f in u.funcs:
                if f.id in may:
                    continue
                for n in f.nodes.values():
                    if n['k'] in ('call', 'ctor') and n.get('fd') in may and not caught(f, n):
                        may[f.id] = (f, n)
                        changed = True
                        break
        thr = [f for f in u.funcs if any(n['k'] == 'throw' and 't' in n and 'empty_level' in u.type(n['t']) for n in f.nodes.values())]
        for f in thr:
            ok = (f.cls or f.q).startswith(COARSENING_PREFIXES) or f.q.startswith(COARSENING_PREFIXES)
            ck.ob('C.empty-level-contained', 'throw|%s' % f.q, f.where(), ok, '' if ok else 'error::empty_level is thrown outside the coarsening code')
        esc = [(f, n) for (f, n) in may.values() if not ((f.cls or f.q).startswith(COARSENING_PREFIXES) or f.q.startswith(COARSENING_PREFIXES))]
        for f, n in esc:
            ck.ob('C.empty-level-contained', 'escape|%s' % f.q, f.where(n), False, 'error::empty_level can propagate out of %s through the call at %s (no enclosing catch)' % (f.q, f.where(n)))
        sd = [f for f in u.funcs if f.q in ('amgcl::amg::level::step_down',)]
        for f in sd:
            ok = f.id not in may and any(n['k'] == 'try' for n in f.nodes.values())
            ck.ob('C.empty-level-contained', 'catch|amgcl::amg::level::step_down', f.where(), ok, '' if ok else 'step_down does not catch error::empty_level around transfer_operators')


def rule_D(ck, units):
    import omp
    ck.rule('D.local-arrays-initialised', 'a local C array declared without initialiser whose elements are read (directly, through a pointer alias, or by a callee) is initialised over its '
                                          'whole used extent outside of any OpenMP region: writes to the slot of the executing thread inside a parallel region cover only the threads that take part in it', 1)
    done = set()
    for u in units.values():
        an = Analyzer([u])
        for f in u.funcs:
            if f.cfg is None:
                continue
            arrays = []
            for n in f.nodes.values():
                if n['k'] == 'decl':
                    for v in n['v']:
                        t = u.type(f.decl(v['d']).get('t')) or ''
                        if v.get('init') is None and t.rstrip().endswith(']') and f.decl(v['d']).get('k') == 'local' and not v.get('static'):
                            arrays.append((v, n))
            if not arrays:
                continue
            key0 = (f.file, f.line)
            if key0 in done:
                continue
            done.add(key0)
            regs = omp.regions(f)
            for v, dn in arrays:
                d = v['d']
                # pointer aliases: p = arr;  T *p = arr;
                aliases = {d}
                for n in f.nodes.values():
                    if n['k'] == 'bin' and n['op'] == '=' and unwrap(n['x'])['k'] == 'ref' and unwrap(n['y']) is not None and unwrap(n['y'])['k'] == 'ref' and unwrap(n['y'])['d'] == d:
                        aliases.add(unwrap(n['x'])['d'])
                    if n['k'] == 'decl':
                        for w in n['v']:
                            if w.get('init') is not None and unwrap(w['init']) is not None and unwrap(w['init'])['k'] == 'ref' and unwrap(w['init'])['d'] == d:
                                aliases.add(w['d'])
                fills, slots, elems, reads = [], [], [], []
                for n in f.nodes.values():
                    if n['k'] == 'bin' and n['op'] == '=':
                        x = unwrap(n['x'])
                        if x is not None and x['k'] == 'idx' and unwrap(x['b'])['k'] == 'ref' and unwrap(x['b'])['d'] in aliases:
                            reg = [r for r in regs if any(y is n for y in walk(r.node))]
                            loops = [a for a in f.ancestors(n) if a['k'] in ('for', 'while')]
                            ivs = set()
                            for L in loops:
                                ivs |= loop_vars(L)
                            idxrefs = {y['d'] for y in walk(x['x']) if y['k'] == 'ref'}
                            if reg:
                                sh = omp.Sharing(an, f, reg[0])
                                why = sh.owned_expr(x['x']) or ''
                                (slots if 'thread number' in why else elems).append(n)
                            elif idxrefs & ivs:
                                fills.append(n)
                            else:
                                elems.append(n)
                    elif n['k'] == 'call' and n.get('f') in ('std::fill', 'std::fill_n') and n.get('a') and unwrap(n['a'][0])['k'] == 'ref' and unwrap(n['a'][0])['d'] in aliases:
                        fills.append(n)
                    elif n['k'] == 'ref' and n['d'] in aliases:
                        p_ = f.nodes.get(f.parent.get(n['i']))
                        # a read: element read, or the array / alias handed to a callee or used in pointer arithmetic that is
                        up = n
                        isread = False
                        for a in f.ancestors(n):
                            if a['k'] in ('cast',):
                                up = a
                                continue
                            if a['k'] == 'idx' and unwrap(a['b']) is n:
                                pa = f.nodes.get(f.parent.get(a['i']))
                                isread = not (pa is not None and pa['k'] == 'bin' and pa['op'] == '=' and unwrap(pa['x']) is a)
                            elif a['k'] == 'call':
                                isread = True
                            elif a['k'] == 'bin' and a['op'] in ('+', '-'):
                                up = a
                                continue
                            break
                        if isread:
                            reads.append(n)
                if not reads:
                    continue
                ok = bool(fills) or not slots
                key = '%s|%s|%s' % (f.rel(), f.q, v['n'])
                ck.ob('D.local-arrays-initialised', key, f.where(dn), ok,
                      '' if ok else 'in %s: the local array `%s` (declared without initialiser) is written only at the slot of the executing thread (%s) and then read as a whole (%s): '
                                    'the slots of threads that do not take part in the region hold uninitialised stack memory' % (
                                        f.full[:80], v['n'], f.where(slots[0]), f.where(reads[-1])), trivial=not slots)


SCRATCH_TYPES = ('multi_array', 'std::vector', 'std::array', 'numa_vector')


def rule_E(ck, units, only=None, floor=3):
    """loop-carried scratch: an array declared outside a loop, element-wise (partially) written inside one iteration and then
    handed as a whole to a callee in the same iteration (QR factorisation, small inverse, ...) must be completely
    re-initialised in every iteration before that use - otherwise the result for one row / aggregate depends on what the
    previous one (of the same thread) left behind."""
    ck.rule('E.loop-scratch-reinitialised', 'a scratch array declared outside a loop, written element-wise inside an iteration and passed as a whole to a callee in that iteration is fully '
                                            're-initialised (assign / fill / resize-and-complete-fill / zeroing loop nest) on every path from the start of the iteration to that call', floor)
    done = set()
    for u in units.values():
        an = Analyzer([u])
        for f in u.funcs:
            if f.cfg is None or (f.file, f.line) in done or (only is not None and not only(f)):
                continue
            decls = {}
            for n in f.nodes.values():
                if n['k'] == 'decl':
                    for v in n['v']:
                        t = u.type(f.decl(v['d']).get('ct')) or ''
                        if (any(c in t for c in SCRATCH_TYPES) or t.rstrip().endswith(']')) and not f.decl(v['d']).get('ref') and f.decl(v['d']).get('k') == 'local':
                            decls[v['d']] = (n, v)
            if not decls:
                continue
            loc = locate(f)
            cfg = f.cfg
            any_inst = False
            for d, (dn, v) in sorted(decls.items()):
                def base_is(e):
                    e = unwrap(e)
                    return e is not None and e['k'] == 'ref' and e['d'] == d

                def whole(a):
                    a = unwrap(a)
                    if a is None:
                        return False
                    if base_is(a):
                        return True
                    if a['k'] == 'call' and a.get('m') in ('data', 'begin', 'cbegin') and a.get('obj') is not None and base_is(a['obj']):
                        return True
                    if a['k'] == 'un' and a['op'] == '&':
                        e = unwrap(a['e'])
                        if e is not None and e['k'] == 'idx' and base_is(e['b']):
                            ix = unwrap(e['x'])
                            # &X[0] hands over the whole array; &X[i] is one slot (or a tail) of it - the element written in this iteration
                            return ix is not None and ix['k'] == 'lit' and ix.get('v') == '0'
                        if e is not None and e['k'] == 'call' and e.get('op') == '()' and e.get('obj') is not None and base_is(e['obj']):
                            return True
                    return False
                writes = []
                for n in f.nodes.values():
                    if n['k'] == 'bin' and n['op'] == '=':
                        lhs = unwrap(n['x'])
                        if lhs is not None and lhs['k'] == 'idx' and base_is(lhs['b']):
                            writes.append((n, [lhs['x']]))
                        elif lhs is not None and lhs['k'] == 'call' and lhs.get('op') == '()' and lhs.get('obj') is not None and base_is(lhs['obj']):
                            writes.append((n, lhs.get('a', [])))
                if not writes:
                    continue
                for L in [n for n in f.nodes.values() if n['k'] in ('for', 'while', 'rfor', 'do')]:
                    inL = {x['i'] for x in walk(L)}
                    if dn['i'] in inL:
                        continue
                    if any(a['k'] in ('for', 'while', 'rfor', 'do') and dn['i'] not in {x['i'] for x in walk(a)} for a in f.ancestors(L)):
                        continue      # not the outermost loop below the declaration
                    ws = [(n, idx) for n, idx in writes if n['i'] in inL]
                    def reads_it(n):
                        for i_, a in enumerate(n.get('a', [])):
                            if not whole(a):
                                continue
                            if i_ not in n.get('mr', []):
                                return True                     # const access: a read
                            eff = an.call_effect(f, n, i_)
                            if eff in ('read', 'rw', None):
                                return True                     # may read what it gets (unknown callees are assumed to)
                        return False
                    # consumers of the per-iteration data are the library's own kernels (QR, small inverse, sorting helpers ...); a standard
                    # algorithm over [begin, end) of a container that persists across the iterations (std::find over visit marks) is a query
                    reads = [n for n in walk(L) if n['k'] == 'call' and reads_it(n) and (n.get('f') or '').startswith('amgcl::')]
                    if not ws or not reads:
                        continue
                    # full (re)initialisations inside L
                    fills = set()
                    for n in walk(L):
                        if n['k'] == 'call' and n['i'] in loc:
                            if n.get('f') in ('std::fill', 'std::fill_n') and n.get('a') and whole(n['a'][0]):
                                fills.add(loc[n['i']][0])
                            if n.get('m') in ('assign',) and n.get('obj') is not None and base_is(n['obj']):
                                fills.add(loc[n['i']][0])
                    for n, idx in ws:
                        inner = [a for a in f.ancestors(n) if a['k'] == 'for' and a['i'] in inL and a is not L]
                        iv = set()
                        for a in inner:
                            iv |= loop_vars(a)
                        # every index is an affine combination in which induction variables of the nested loops occur (each loop once, unconditionally):
                        # a complete sweep over the (resized) extent
                        used = set()
                        for i_ in idx:
                            used |= {y['d'] for y in walk(i_) if y['k'] == 'ref' and y['d'] in iv}
                        guarded = False
                        cur = n
                        for a in f.ancestors(n):
                            if a is L:
                                break
                            if a['k'] == 'if':
                                inner_ids = {x['i'] for x in walk(a)}
                                # an `if` that lies inside the nested fill loops makes the sweep partial; one that encloses the whole nest does not
                                if any(l_['i'] in inner_ids for l_ in inner) is False:
                                    guarded = True
                            if a['k'] == 'for' and a is not L and (a.get('init') is None or a.get('c') is None):
                                guarded = True
                        if inner and used and len(used) == len({tuple(sorted(loop_vars(a) & used)) for a in inner if loop_vars(a) & used}) and not guarded and n['i'] in loc:
                            # reaching the header of the outermost nested loop stands for the complete sweep (an empty extent has nothing to initialise)
                            outer = inner[-1]
                            hb = [b for b, blk in cfg.blocks.items() if blk.get('term') == outer['i']]
                            if hb:
                                fills.update(hb)
                            else:
                                ids = {x['i'] for x in walk(outer)}
                                fills.update({loc[i][0] for i in ids if i in loc})
                    lcond = [b for b, blk in cfg.blocks.items() if blk.get('term') == L['i']]
                    if not lcond:
                        continue
                    H = lcond[0]
                    entry = cfg.succ[H][0] if cfg.succ[H] else None
                    any_inst = True
                    bad = None
                    for r in reads:
                        if r['i'] not in loc:
                            continue
                        target = loc[r['i']][0]
                        seen, work = set(), [entry]
                        reach = False
                        while work:
                            b = work.pop()
                            if b is None or b in seen or b == H:
                                continue
                            seen.add(b)
                            if b == target:
                                reach = True
                                break
                            if b in fills:
                                continue
                            work.extend(cfg.succ[b])
                        if reach and target not in fills:
                            bad = r
                            break
                    key = '%s|%s|%s' % (f.rel(), f.q, v['n'])
                    ck.ob('E.loop-scratch-reinitialised', key, f.where(bad) if bad else f.where(L), bad is None,
                          '' if bad is None else 'in %s: the scratch array `%s` (declared at %s, outside the loop at %s) is written element-wise in an iteration and handed as a whole to `%s` at %s, '
                                                 'but on some path of the iteration it is not completely re-initialised first: entries left by the previous iteration take part in the result' % (
                                                     f.full[:80], v['n'], f.where(dn), f.where(L), (bad.get('f') or bad.get('m') or '?').split('::')[-1], f.where(bad)))
            if any_inst:
                done.add((f.file, f.line))


def rule_F(ck, units, floor=2, only=None):
    """a local std::shared_ptr declared without initialiser is null; if it is assigned only on some paths, every dereference must lie on
    those paths.  The analysis is disjunctive in the boolean parameters / locals tested directly (`if (flag)`), so `if (get_app) p = ...;
    ... if (get_app) p->f();` is accepted and an unguarded `p->f()` is reported (the callers that pass get_app = false exist)."""
    ck.rule('F.null-deref-guarded', 'a local shared_ptr that starts null and is assigned only under a condition is dereferenced only where it has been assigned on every path '
                                    '(path-sensitive in directly tested boolean flags)', floor)
    done = set()
    for u in units.values():
        for f in u.funcs:
            if f.cfg is None or (f.file, f.line) in done or not f.rel().startswith('amgcl/') or (only is not None and not only(f)):
                continue
            ptrs = {}
            for n in f.nodes.values():
                if n['k'] == 'decl':
                    for v in n['v']:
                        t = u.type(f.decl(v['d']).get('ct')) or ''
                        if 'shared_ptr<' in t and v.get('init') is None and f.decl(v['d']).get('k') == 'local' and not f.decl(v['d']).get('ref'):
                            ptrs[v['d']] = n
                        elif 'shared_ptr<' in t and v.get('init') is not None and f.decl(v['d']).get('k') == 'local':
                            iu = unwrap(v['init'])
                            if iu is not None and iu['k'] in ('ctor', 'tmp', 'zeroinit') and not iu.get('a'):
                                ptrs[v['d']] = n
            if not ptrs:
                continue
            loc = locate(f)
            cfg = f.cfg
            # events: assignment (non-null) / dereference
            events = {}
            flags = set()
            for b in cfg.blocks:
                c = cfg.cond(b)
                cu = unwrap(c) if c is not None else None
                while cu is not None and cu['k'] == 'un' and cu['op'] == '!':
                    cu = unwrap(cu['e'])
                if cu is not None and cu['k'] == 'ref' and 'bool' in (u.type(f.decl(cu['d']).get('ct')) or ''):
                    flags.add(cu['d'])
            for n in f.nodes.values():
                if n['i'] not in loc:
                    continue
                b, pos = loc[n['i']]
                if n['k'] == 'bin' and n['op'] == '=' and unwrap(n['x'])['k'] == 'ref' and unwrap(n['x'])['d'] in ptrs:
                    events.setdefault(b, []).append((pos, n['i'], 'set', unwrap(n['x'])['d'], n))
                elif n['k'] == 'call' and (n.get('f') or '') == 'std::tie':
                    for a in n.get('a', []):
                        au = unwrap(a)
                        if au is not None and au['k'] == 'ref' and au['d'] in ptrs:
                            events.setdefault(b, []).append((pos, n['i'], 'set', au['d'], n))
                elif n['k'] == 'bin' and n['op'] == '=' and unwrap(n['x'])['k'] == 'ref' and unwrap(n['x'])['d'] in flags:
                    events.setdefault(b, []).append((pos, n['i'], 'flagmod', unwrap(n['x'])['d'], n))
                else:
                    tgt = None
                    if n['k'] == 'mem' and n.get('arrow') and n.get('b') is not None and unwrap(n['b'])['k'] == 'ref':
                        tgt = unwrap(n['b'])['d']
                    elif n['k'] == 'un' and n['op'] == '*' and unwrap(n['e'])['k'] == 'ref':
                        tgt = unwrap(n['e'])['d']
                    elif n['k'] == 'call' and n.get('obj') is not None and n.get('m') and unwrap(n['obj'])['k'] == 'ref' and n.get('op') in ('->',):
                        tgt = unwrap(n['obj'])['d']
                    elif n['k'] == 'call' and n.get('obj') is not None and unwrap(n['obj'])['k'] == 'un' and unwrap(n['obj'])['op'] in ('*', '->') and unwrap(unwrap(n['obj'])['e'])['k'] == 'ref':
                        tgt = unwrap(unwrap(n['obj'])['e'])['d']
                    if tgt in ptrs:
                        events.setdefault(b, []).append((pos, n['i'], 'deref', tgt, n))
            for b in events:
                events[b].sort(key=lambda t: (t[0], t[1]))
            if not any(k_ == 'deref' for evs in events.values() for (_, _, k_, _, _) in evs):
                continue
            bad = {}

            def transfer(b, states, record=False):
                out = {}
                for val, nn in states:
                    val = dict(val)
                    nn = set(nn)
                    for pos, nid, kind, d, n in events.get(b, ()):
                        if kind == 'set':
                            nn.add(d)
                        elif kind == 'flagmod':
                            val.pop(d, None)
                        elif kind == 'deref' and record and d not in nn:
                            bad.setdefault(d, (n, dict(val)))
                    kv = tuple(sorted(val.items()))
                    out[kv] = (out[kv] & frozenset(nn)) if kv in out else frozenset(nn)
                return frozenset(out.items())

            def edge(b, k, s_, states):
                c = cfg.cond(b)
                if c is None or len(cfg.succ[b]) != 2:
                    return states
                cu = unwrap(c)
                neg = False
                while cu is not None and cu['k'] == 'un' and cu['op'] == '!':
                    neg = not neg
                    cu = unwrap(cu['e'])
                out = []
                for val, nn in states:
                    if cu is not None and cu['k'] == 'ref' and cu['d'] in flags:
                        truth = (k == 0) != neg
                        known = dict(val).get(cu['d'])
                        if known is not None and known != truth:
                            continue
                        v2 = dict(val)
                        v2[cu['d']] = truth
                        out.append((tuple(sorted(v2.items())), nn))
                    elif cu is not None and cu['k'] == 'ref' and cu['d'] in ptrs:
                        # if (p) ... : p is non-null on the true edge
                        truth = (k == 0) != neg
                        out.append((val, nn | {cu['d']}) if truth else (val, nn))
                    else:
                        out.append((val, nn))
                return frozenset(out) if out else None

            def join(a, b_):
                m = dict(a)
                for val, nn in b_:
                    m[val] = (m[val] & nn) if val in m else nn
                return frozenset(m.items())
            IN, OUT = cfg.forward(frozenset([((), frozenset())]), transfer, edge=edge, join=join)
            for b, st in IN.items():
                transfer(b, st, record=True)
            done.add((f.file, f.line))
            for d, dn in sorted(ptrs.items()):
                if not any(k_ == 'deref' and dd == d for evs in events.values() for (_, _, k_, dd, _) in evs):
                    continue
                key = '%s|%s|%s' % (f.rel(), f.q, f.decl(d)['n'])
                if d in bad:
                    n, val = bad[d]
                    cond = ', '.join('%s == %s' % (f.decl(k_)['n'], 'true' if v_ else 'false') for k_, v_ in val.items()) or 'some path'
                    ck.ob('F.null-deref-guarded', key, f.where(n), False,
                          'in %s: the shared pointer `%s` (null when declared at %s) is dereferenced at %s on a path where it was never assigned (%s)' % (
                              f.full[:80], f.decl(d)['n'], f.where(dn), f.where(n), cond))
                else:
                    ck.ob('F.null-deref-guarded', key, f.where(dn), True)


def rule_G(ck, units, floor=20, only=None):
    """G.no-throw-in-parallel-region: an exception that leaves the structured block of an OpenMP construct terminates the program
    (OpenMP 5.x, 2.x "a throw executed inside a region must cause execution to resume within the same region").  The library reports
    invalid input by exceptions (amgcl::precondition): no `throw` and no call of precondition / a function that always throws is
    lexically inside a parallel region (including the bodies of lambdas defined there) unless a try block inside the region encloses
    it.  Callees with their own bodies are followed one level (helpers such as sort_row that may check their input)."""
    import omp
    ck.rule('G.no-throw-in-parallel-region', 'no throw / amgcl::precondition (directly or in a callee followed one level) inside an OpenMP parallel region without an enclosing try in the '
                                             'region: an exception may not leave a parallel region (std::terminate instead of a catchable error)', floor)
    seen = set()
    for u in units.values():
        for f in u.funcs:
            if f.body is None or not f.rel().startswith('amgcl/') or (f.file, f.line) in seen:
                continue
            if only is not None and not f.rel().startswith(only):
                continue
            regs = omp.regions(f)
            if not regs:
                continue
            seen.add((f.file, f.line))
            k = 0
            for r in regs:
                k += 1
                bad = None

                def throwing(g, n):
                    return n['k'] == 'throw' or (n['k'] == 'call' and n.get('f') == 'amgcl::precondition')
                for n in walk(r.node):
                    hit = None
                    if throwing(f, n):
                        hit = (n, None)
                    elif n['k'] == 'call' and 'fd' in n:
                        g = u.by_id.get(n['fd'])
                        if g is not None and g.body is not None and g is not f and g.rel().startswith('amgcl/'):
                            for m in walk(g.body):
                                if throwing(g, m) and not any(a['k'] == 'try' for a in g.ancestors(m)):
                                    hit = (n, (g, m))
                                    break
                    if hit is None:
                        continue
                    if any(a['k'] == 'try' and a['i'] > r.node['i'] for a in f.ancestors(n)):
                        continue
                    bad = hit
                    break
                det = ''
                if bad is not None:
                    n, via = bad
                    det = ('%s at %s is executed inside the OpenMP region that starts at %s%s: an exception cannot leave a parallel region - the program is terminated instead of '
                           'reporting the error' % (show(n)[:60], f.where(n), f.where(r.node), (' (it throws at %s)' % via[0].where(via[1])) if via else ''))
                ck.ob('G.no-throw-in-parallel-region', '%s|%s|region#%d' % (f.rel(), '::'.join(f.q.split('::')[-2:]), k), f.where(r.node), not det, det)


def rule_H(ck, units, floor=3):
    """H.count-fill-agree (sa/twopass.py): in a two-pass CRS assembly the counting pass (++M.ptr[i + 1]) and the filling pass
    (M.col[head] = ...) select the same entries - compared as boolean formulas over the atoms they test, for all truth values and all
    orderings of the compared operands.  Passes that count distinct columns through a marker array are not of this shape and are skipped."""
    import twopass
    ck.rule('H.count-fill-agree', 'two-pass CRS assembly: the counting pass and the filling pass select the same entries (selection predicates compared as boolean formulas over '
                                  'their atoms for every truth value / ordering of compared operands; marker-based passes excluded)', floor)
    seen = set()
    for u in units.values():
        for f in u.funcs:
            if f.body is None or not f.rel().startswith('amgcl/') or (f.file, f.line) in seen:
                continue

            def mroot(e):
                ap = ir.access_path(e)
                return (ap[0], ap[1], ap[2][:-1]) if ap is not None and ap[2] else None
            counts, fills = {}, {}
            for n in f.nodes.values():
                if n['k'] == 'un' and n['op'] == '++':
                    e = unwrap(n['e'])
                    if e is not None and e['k'] == 'idx':
                        ap = ir.access_path(e)
                        ix = unwrap(e['x'])
                        if ap is not None and ap[2] and ap[2][-1] == 'ptr' and ix is not None and ix['k'] == 'bin' and ix['op'] == '+' and unwrap(ix['y'])['k'] == 'lit' and unwrap(ix['y']).get('v') == '1':
                            counts.setdefault(mroot(e), []).append(n)
                elif n['k'] == 'bin' and n['op'] == '=':
                    e = unwrap(n['x'])
                    if e is not None and e['k'] == 'idx':
                        ap = ir.access_path(e)
                        if ap is not None and ap[2] and ap[2][-1] == 'col':
                            fills.setdefault(mroot(e), []).append(n)
            for root in sorted(set(counts) & set(fills), key=str):
                cs, fs = counts[root], fills[root]

                def row_loop(n):
                    loops = [a for a in f.ancestors(n) if a['k'] in ('for', 'while', 'rfor', 'do')]
                    return loops[-1] if loops else None
                if any(row_loop(n) is None for n in cs + fs):
                    continue
                # marker-based passes: the selection depends on a scratch array that the pass itself updates
                def uses_marker(n):
                    rl = row_loop(n)
                    written = set()
                    for m in walk(rl):
                        if m['k'] == 'bin' and m['op'] == '=' and unwrap(m['x'])['k'] == 'idx':
                            ap = ir.access_path(m['x'])
                            if ap is not None and not ap[2] and ap[0] == 'var':
                                written.add(ap[1])
                    for a in f.ancestors(n):
                        if a is rl:
                            break
                        if a['k'] == 'if' and any(x['k'] == 'ref' and x['d'] in written for x in walk(a['c'])):
                            return True
                    return False
                if any(uses_marker(n) for n in cs + fs):
                    continue
                # rows are counted where they are built: the index of every count is <row loop variable> + 1 (a scatter / transpose that
                # counts by column is another shape)
                def counts_own_row(n):
                    rl = row_loop(n)
                    ix = unwrap(unwrap(n['e'])['x'])
                    base = unwrap(ix['x'])
                    if base is None or base['k'] != 'ref':
                        return False
                    ivs = set()
                    if rl.get('init') is not None:
                        ivs = {v['d'] for d in walk(rl['init']) if d['k'] == 'decl' for v in d['v']}
                    if rl['k'] == 'rfor' and rl.get('var'):
                        ivs.add(rl['var']['d'])
                    # ... or a per-row local derived inside the row loop (`iu = idx[i]`)
                    ivs |= {v['d'] for d in walk(rl['b']) if d['k'] == 'decl' for v in d['v']
                            if not any(a['k'] in ('for', 'while', 'rfor', 'do') and a is not rl for a in f.ancestors(d) if a['i'] > rl['i'])}
                    return base['d'] in ivs
                if not all(counts_own_row(n) for n in cs):
                    continue
                seen.add((f.file, f.line))
                # aliases: X[i] = (x op= ...) / X[i] = x  : the array element and the local hold the same value afterwards
                alias = {}
                for m in f.nodes.values():
                    if m['k'] == 'bin' and m['op'] == '=' and unwrap(m['x'])['k'] == 'idx':
                        y = unwrap(m['y'])
                        while y is not None and y['k'] == 'bin' and y['op'] in ('*=', '+=', '-=', '/=', '='):
                            y = unwrap(y['x'])
                        if y is not None and y['k'] == 'ref' and f.decl(y['d']).get('k') == 'local':
                            alias[y['n']] = twopass._norm_text(f, m['x'], {})
                diffs = twopass.compare(f, [(n, row_loop(n)) for n in cs], [(n, row_loop(n)) for n in fs], alias)
                mname = '.'.join(str(x) for x in root[2]) or (f.decl(root[1])['n'] if root[0] == 'var' else 'this')
                key = '%s|%s|%s' % (f.rel(), '::'.join(f.q.split('::')[-2:]), mname if root[0] != 'var' else f.decl(root[1])['n'] + ('.' + mname if root[2] else ''))
                ok = not diffs
                ck.ob('H.count-fill-agree', key, f.where(cs[0]), ok, '' if ok else
                      'the counting pass (%s) and the filling pass (%s) disagree %s' % (f.where(cs[0]), f.where(fs[0]), '; '.join('%s level: %s' % d for d in diffs[:2])))


def main(tier):
    ck = Check('C10', tier, 'C10 (clauses): raw-allocated arrays are completely filled; arrays are freed only by their owner; empty_level never escapes the hierarchy construction.')
    T = os.path.join(ir.VERIF, 'tus')
    names = ['rt_builtin', 'composite'] if tier == 'quick' else ['rt_builtin', 'composite', 'vt_float', 'vt_complex', 'vt_block', 'be_block_crs', 'be_eigen', 'mpi_rt']
    specs = [dict(name=n, src=os.path.join(T, n + '.cpp'), mpi=(n == 'mpi_rt')) for n in names]
    units = ir.run_units(specs, 'C10')
    ck.add_units(units, specs)
    rule_A(ck, units, 25)
    c17.rule_C(ck, units)
    rule_C(ck, units)
    rule_D(ck, units)
    rule_E(ck, units, floor=3 if tier == 'quick' else 3)
    rule_F(ck, units)
    rule_G(ck, units)
    rule_H(ck, units)
    import c16
    c16.rule_profile(ck, units)      # the skyline copy pass writes only what the profile pass sized (shared with C16)
    # outputs are a function of the inputs only: the multigrid cycle does not read what an earlier application left in
    # its per-level scratch vectors (rules shared with C02)
    import c02
    c02.rule_AB(ck, {k: v for k, v in units.items() if k in ('rt_builtin', 'mpi_rt')})
    # an application must not see what earlier ones left in overwritten outputs (even NaN / Inf): zero-coefficient overwrite of the backend primitives (shared with C07)
    import c15
    c15.rule_E(ck, {k: v for k, v in units.items() if k == 'rt_builtin'})     # cleared containers carry no state (shared with C15)
    import c07
    c07.rule_zero(ck, {k: v for k, v in units.items() if k == 'rt_builtin'}, floor=8)
    import rmerge
    rmerge.rule_scratch_fits(ck, units)     # the scratch of the row-merge SpGEMM holds every sub-buffer handed to the row kernels (shared with C03 / C08)
    ck.assumptions += ['index arithmetic in range for all inputs and leaks on exception paths are not decided',
                       'arrays written only at the diagonal entry rely on the documented precondition of a structurally present diagonal']
    return ck.finish()
