"""C19 - matrix / vector files (DESIGN.md 4, C19).

A  every read from a file is checked: each std::getline, operator>> chain on a stream and io::read
   is (part of) the condition of a precondition()
B  file-derived indices are range-checked: a value read from the file may be used as a subscript /
   pointer offset, or stored into a returned index array, only after a dominating two-sided range test;
   index arrays read in bulk must be validated before they are used or returned
C  written precision >= max_digits10 (scientific, setprecision(p) with p + 1 >= 21)
"""
import os
import re

import ir
from ir import walk, unwrap, show
from accesses import Analyzer
from effects import locate
from framework import Check

READERS = ('amgcl::io::mm_reader::mm_reader', 'amgcl::io::mm_reader::operator()', 'amgcl::io::mm_reader::read_value', 'amgcl::io::read_crs',
           'amgcl::io::read_dense', 'amgcl::io::crs_size', 'amgcl::io::dense_size')
INT_TYPES = ('int', 'long', 'unsigned int', 'unsigned long', 'short', 'unsigned short', 'long long', 'unsigned long long', 'char', 'signed char', 'unsigned char')


def stream_reads(f):
    """read operations in f: (node, kind).  An operator>> chain counts once (its outermost node)."""
    out = []
    for n in f.nodes.values():
        if n['k'] == 'call' and n.get('f') == 'std::getline':
            out.append((n, 'getline'))
        elif n['k'] == 'call' and n.get('f') == 'amgcl::io::read':
            out.append((n, 'io::read'))
        elif n['k'] == 'bin' and n['op'] == '>>' and n.get('f', '').endswith('operator>>'):
            pi = f.parent.get(n['i'])
            p = f.nodes.get(pi) if pi is not None else None
            if p is not None and p['k'] == 'bin' and p['op'] == '>>' and p.get('f', '').endswith('operator>>') and unwrap(p['x']) is n:
                continue   # inner link of a chain
            out.append((n, 'operator>>'))
        elif n['k'] == 'call' and n.get('m') == 'read' and n.get('obj') is not None and 'stream' in (n.get('f') or ''):
            out.append((n, 'istream::read'))
    return out


def in_precondition(f, n):
    """is n (part of) the condition argument of a precondition call, or the returned expression of a bool helper?"""
    cur = n
    for a in f.ancestors(n):
        if a['k'] == 'call' and a.get('f') == 'amgcl::precondition':
            return any(x is n for x in walk(a['a'][0]))
        if a['k'] == 'ret':
            return 'returned'
    return False


def rule_A(ck, units):
    ck.rule('A.reads-checked', 'every std::getline / operator>> chain / io::read in the readers is the condition of a precondition (helpers that return the stream state count '
                               'when every caller checks them)', 18)
    seen = set()
    for u in units.values():
        for f in u.funcs:
            if not f.q.startswith(READERS) and f.q != 'amgcl::io::read':
                continue
            k = 0
            for n, kind in sorted(stream_reads(f), key=lambda t: t[0]['i']):
                k += 1
                key = '%s|%s|%s#%d' % (f.rel(), f.q, kind, k)
                if (key, f.full) in seen:
                    continue
                seen.add((key, f.full))
                st = in_precondition(f, n)
                ok = bool(st)
                det = ''
                if st == 'returned':
                    # every call of this helper must itself be checked
                    callers = []
                    for g in u.funcs:
                        for c in g.calls():
                            if c.get('fd') == f.id:
                                callers.append((g, c))
                    bad = [(g, c) for g, c in callers if not in_precondition(g, c)]
                    ok = not bad
                    det = '' if ok else 'the result of %s is ignored at %s' % (f.q, bad[0][0].where(bad[0][1]))
                elif not ok:
                    det = 'the %s at %s is not checked: a truncated or corrupted file goes unnoticed here' % (kind, f.where(n))
                ck.ob('A.reads-checked', key, f.where(n), ok, det)


# ------------------------------------------------------------------- B: taint
def comparisons(cond):
    """[(expr_small, expr_big, strict)] meaning small <(=) big, for the TRUE outcome of cond (conjunctions flattened)"""
    c = unwrap(cond)
    out = []
    if c is None:
        return out
    if c['k'] == 'bin' and c['op'] == '&&':
        return comparisons(c['x']) + comparisons(c['y'])
    if c['k'] == 'bin' and c['op'] in ('<', '<=', '>', '>='):
        if c['op'] in ('<', '<='):
            out.append((c['x'], c['y']))
        else:
            out.append((c['y'], c['x']))
    return out


def negated(cond):
    c = unwrap(cond)
    if c is not None and c['k'] == 'bin' and c['op'] in ('<', '<=', '>', '>='):
        # !(a < b)  ==  b <= a
        if c['op'] in ('<', '<='):
            return [(c['y'], c['x'])]
        return [(c['x'], c['y'])]
    return []


def index_vars(e):
    """variables that act as an index (additive position) in a subscript expression; factors of a product
    with another variable term are strides / dimensions"""
    e = unwrap(e)
    if e is None:
        return set()
    if e['k'] == 'bin' and e['op'] in ('+', '-'):
        return index_vars(e['x']) | index_vars(e['y'])
    if e['k'] == 'bin' and e['op'] == '*':
        # (i - row_beg) * m : the parenthesised position is the index, the other factor the stride
        out = set()
        for side in (e['x'], e['y']):
            su = unwrap(side)
            if su is not None and su['k'] == 'bin' and su['op'] in ('+', '-'):
                out |= index_vars(su)
        return out
    return refs(e)


def refs(e):
    return {x['d'] for x in walk(e) if x['k'] == 'ref'}


def analyse_reader(ck, u, an, f):
    loc = locate(f)
    cfg = f.cfg
    # ---- taint closure (flow-insensitive)
    tainted = {}          # decl -> reason
    containers = {}       # decl -> reason (elements are file-derived)
    derived_from = {}     # scalar decl -> container decl it was taken from

    def mark(d, why, cont=False):
        tgt = containers if cont else tainted
        if d not in tgt:
            tgt[d] = why
            return True
        return False
    changed = True
    rounds = 0
    while changed and rounds < 10:
        changed = False
        rounds += 1
        for n in f.nodes.values():
            if n['k'] == 'bin' and n['op'] == '>>' and n.get('f', '').endswith('operator>>'):
                y = unwrap(n['y'])
                if y is not None and y['k'] == 'ref' and f.decl(y['d']).get('k') in ('local', 'param'):
                    t = u.type(f.decl(y['d']).get('ct')).replace('const ', '').replace('&', '').strip()
                    if t in INT_TYPES:
                        changed |= mark(y['d'], 'extracted from the stream at %s' % f.where(n))
            if n['k'] == 'call' and n.get('f') == 'amgcl::io::read' and len(n.get('a', [])) == 2:
                r = an.root_of_expr(f, n['a'][1])
                if r is not None and r[0] in ('var', 'param'):
                    d = r[1] if r[0] == 'var' else f.params[r[1]]
                    t = u.type(f.decl(d).get('ct'))
                    if 'vector<' in t:
                        el = t[t.index('vector<') + 7:].split(',')[0].split('>')[0].strip()
                        if el in INT_TYPES:
                            changed |= mark(d, 'read in bulk from the file at %s' % f.where(n), cont=True)
                    else:
                        if t.replace('&', '').strip() in INT_TYPES:
                            changed |= mark(d, 'read from the file at %s' % f.where(n))
            # propagation: v = expr(tainted) ; decl v = expr ; container.push_back(tainted)
            src = None
            tgt = None
            if n['k'] == 'decl':
                for v in n['v']:
                    if v.get('init') is not None:
                        if taint_of(f, v['init'], tainted, containers) and is_int(u, f, v['d']):
                            changed |= mark(v['d'], 'derived from file data at %s' % f.where(n))
                            src_c = container_of(f, v['init'], containers)
                            if src_c is not None:
                                derived_from[v['d']] = src_c
            elif n['k'] == 'bin' and n['op'] == '=':
                x = unwrap(n['x'])
                if x is not None and x['k'] == 'ref' and taint_of(f, n['y'], tainted, containers) and is_int(u, f, x['d']):
                    changed |= mark(x['d'], 'derived from file data at %s' % f.where(n))
            elif n['k'] == 'rfor' and n.get('var'):
                rr = an.root_of_expr(f, n['range'])
                if rr is not None and rr[0] in ('var', 'param'):
                    d = rr[1] if rr[0] == 'var' else f.params[rr[1]]
                    if d in containers:
                        changed |= mark(n['var']['d'], 'element of file data')
            # (containers filled by push_back / element stores are not taint sources: an unchecked store is itself a sink)
    if not tainted and not containers:
        return 0
    # ---- flow-sensitive bounds facts
    events = {}

    def add(n, kind, payload):
        w = loc.get(n['i'])
        if w is not None:
            events.setdefault(w[0], []).append((w[1], n['i'], kind, payload))
    for n in f.nodes.values():
        if n['k'] == 'call' and n.get('f') == 'amgcl::precondition':
            add(n, 'assume', n['a'][0])
        elif n['k'] == 'bin' and n['op'] in ('=', '+=', '-=', '*=', '/=') and unwrap(n['x']) is not None and unwrap(n['x'])['k'] == 'ref':
            add(n, 'mod', unwrap(n['x'])['d'])
        elif n['k'] == 'un' and n['op'] in ('++', '--') and unwrap(n['e'])['k'] == 'ref':
            add(n, 'mod', unwrap(n['e'])['d'])
    sinks = []
    for n in f.nodes.values():
        if n['k'] == 'idx':
            ts = [d for d in index_vars(n['x']) if d in tainted]
            if ts:
                add(n, 'sink', ('subscript', ts, n))
            # element of a file-derived container used as subscript / offset
        if n['k'] == 'call' and n.get('m') == 'push_back' and n.get('a'):
            ts = [d for d in refs(n['a'][0]) if d in tainted]
            if ts:
                add(n, 'sink', ('store', ts, n))
        if n['k'] == 'bin' and n['op'] == '=' and unwrap(n['x'])['k'] == 'idx':
            ts = [d for d in refs(n['y']) if d in tainted]
            rr = an.root_of_expr(f, n['x'])
            if ts and rr is not None and rr[0] == 'param':
                add(n, 'sink', ('store', ts, n))
        if n['k'] == 'bin' and n['op'] in ('+', '-') and unwrap(n['x'])['k'] in ('un', 'idx') and any(d in tainted for d in refs(n['y'])):
            xx = unwrap(n['x'])
            if xx['k'] == 'un' and xx['op'] == '&':
                add(n, 'sink', ('pointer offset', [d for d in refs(n['y']) if d in tainted], n))
        if n['k'] == 'ret' and not f.in_lambda(n):
            add(n, 'ret', n)
    for b in events:
        events[b].sort(key=lambda t: (t[0], t[1]))

    def assume(cmp_list, st):
        st = set(st)
        for small, big in cmp_list:
            for d in refs(small):
                if d in tainted:
                    st.add(('ub', d))
            for d in refs(big):
                if d in tainted:
                    st.add(('lb', d))
            # containers validated by a precondition that mentions them
        return st

    findings = []

    def transfer(b, st, record=False):
        st = set(st)
        for pos, nid, kind, p in events.get(b, ()):
            if kind == 'assume':
                st = assume(comparisons(p), st)
                is_read = any(x['k'] == 'call' and x.get('f') in ('amgcl::io::read', 'std::getline') for x in walk(p))
                if not is_read:
                    for d in refs(p):
                        if d in containers:
                            st.add(('ok', d))    # validated by a dedicated precondition that inspects its entries
            elif kind == 'mod':
                st = {x for x in st if x[1] != p}
            elif kind == 'sink' and record:
                what, ts, n = p
                for d in ts:
                    if d in derived_from and ('ok', derived_from[d]) in st:
                        continue   # element of an index array that has been validated
                    if ('lb', d) not in st or ('ub', d) not in st:
                        miss = [nm for nm, k_ in (('lower', 'lb'), ('upper', 'ub')) if (k_, d) not in st]
                        findings.append((n, d, what, miss))
        return frozenset(st)

    def edge(b, k, s, st):
        c = cfg.cond(b)
        if c is None:
            return st
        if k == 0:
            return frozenset(assume(comparisons(c), st))
        return frozenset(assume(negated(c), st))
    IN, OUT = cfg.forward(frozenset(), transfer, edge=edge, join=lambda a, b_: a & b_)
    for b, st in IN.items():
        transfer(b, st, record=True)
    seen = set()
    nob = 0
    for n, d, what, miss in findings:
        k = (f.decl(d)['n'], what, n['i'])
        if k in seen:
            continue
        seen.add(k)
    # obligations per tainted variable and per container
    byvar = {}
    for n, d, what, miss in findings:
        byvar.setdefault(d, []).append((n, what, miss))
    fkey = '%s|%s' % (f.rel(), f.q)
    for d in sorted(tainted):
        nob += 1
        lst = byvar.get(d, [])
        used = any(kind == 'sink' and d in p[1] for evs in events.values() for (_, _, kind, p) in evs)
        det = ''
        if lst:
            n, what, miss = lst[0]
            det = 'in %s: `%s` (%s) is used as a %s in `%s` at %s without a dominating %s bound check' % (
                f.full[:90], f.decl(d)['n'], tainted[d], what, show(n)[:50], f.where(n), ' and '.join(miss))
        ck.ob('B.indices-checked', '%s|%s' % (fkey, f.decl(d)['n']), f.where(lst[0][0]) if lst else f.where(), not lst, det, trivial=not used)
    # bulk containers that are parameters (returned to the caller) or used as offsets
    for d, why in sorted(containers.items()):
        dd = f.decl(d)
        if dd.get('k') != 'param':
            continue
        nob += 1
        # validated on every path to the returns / end?
        okall = True
        for b, st in IN.items():
            if b == cfg.exit:
                okall = okall and ('ok', d) in st
        # uses as offsets before validation
        det = '' if okall else 'in %s: the index array `%s` (%s) is used / returned without validation of its entries: a corrupted file yields out-of-range offsets or a structurally invalid matrix' % (
            f.full[:90], dd['n'], why)
        ck.ob('B.indices-checked', '%s|%s[]' % (fkey, dd['n']), f.where(), okall, det)
    return nob


def taint_of(f, e, tainted, containers):
    # the value of X[i] is an element of X: it is file-derived only if X is; the index i does not taint it
    skip = set()
    for x in walk(e):
        if x['k'] == 'idx':
            for y in walk(x['x']):
                skip.add(y['i'])
    for x in walk(e):
        if x['i'] in skip:
            continue
        if x['k'] == 'ref' and (x['d'] in tainted):
            return True
        if x['k'] == 'idx' or (x['k'] == 'call' and x.get('m') in ('front', 'back', 'at')):
            b = unwrap(x.get('b') if x['k'] == 'idx' else x.get('obj'))
            while b is not None and b['k'] in ('un', 'cast'):
                b = unwrap(b['e'])
            if b is not None and b['k'] == 'ref' and b['d'] in containers:
                return True
    return False


def container_of(f, e, containers):
    e = unwrap(e)
    if e is not None and e['k'] == 'idx':
        b = unwrap(e['b'])
        if b is not None and b['k'] == 'ref' and b['d'] in containers:
            return b['d']
    if e is not None and e['k'] == 'call' and e.get('m') in ('front', 'back', 'at') and e.get('obj') is not None:
        b = unwrap(e['obj'])
        if b is not None and b['k'] == 'ref' and b['d'] in containers:
            return b['d']
    return None


def is_int(u, f, d):
    t = u.type(f.decl(d).get('ct')).replace('const ', '').replace('&', '').strip()
    return t in INT_TYPES


def rule_B(ck, units):
    ck.rule('B.indices-checked', 'a value read from the file is used as a subscript / pointer offset or stored into a returned index array only after a dominating lower and upper '
                                 'bound test; index arrays read in bulk are validated before they are used or returned', 8)
    done = set()
    for u in units.values():
        an = Analyzer([u])
        for f in u.funcs:
            if f.cfg is None or not f.q.startswith(READERS):
                continue
            if f.full in done:
                continue
            done.add(f.full)
            analyse_reader(ck, u, an, f)


MAX_DIGITS10 = {'float': 9, 'double': 17, 'long double': 21}


def const_int(u, x, depth=0):
    """compile-time integer value of x: literal, constant expression, or a call of a function whose body is `return <constant>`"""
    x = unwrap(x)
    if x is None:
        return None
    if x['k'] == 'lit' and x.get('t') == 'int':
        return int(x['v'])
    if 'cv' in x:
        return int(x['cv'])
    if x['k'] == 'call' and 'fd' in x and not x.get('a') and depth < 3:
        g = u.by_id.get(x['fd'])
        if g is not None:
            rets = [n for n in walk(g.body) if n['k'] == 'ret']
            if len(rets) == 1 and rets[0].get('e') is not None:
                return const_int(u, rets[0]['e'], depth + 1)
    if x['k'] == 'bin' and x['op'] in ('+', '-'):
        a, b = const_int(u, x['x'], depth), const_int(u, x['y'], depth)
        if a is not None and b is not None:
            return a + b if x['op'] == '+' else a - b
    return None


def rule_C(ck, units):
    ck.rule('C.precision', 'detail::write_value<Val> prints floating-point values in scientific notation with setprecision(p), p + 1 >= max_digits10 of the scalar type of Val '
                           '(9 / 17 / 21 for float / double / long double): the number of significant digits that guarantees an exact text round trip', 2)
    done = set()
    for u in units.values():
        for f in u.funcs:
            if f.q != 'amgcl::io::detail::write_value':
                continue
            m = re.search(r'write_value<(.*)>$', f.full.split('(')[0].strip())
            val = m.group(1) if m else '?'
            key = 'amgcl::io::detail::write_value<%s>' % val
            if key in done:
                continue
            done.add(key)
            scalar = val
            mm = re.match(r'std::complex<(.*)>$', val)
            if mm:
                scalar = mm.group(1).strip()
            need = MAX_DIGITS10.get(scalar)
            if need is None:
                # integer kinds are printed exactly whatever the manipulators are
                ck.ob('C.precision', key, f.where(), True, '', trivial=True)
                continue
            sci = any(x['k'] == 'ref' and x['n'] == 'scientific' for x in walk(f.body))
            prec = [unwrap(c['a'][0]) for c in f.calls('std::setprecision') if c.get('a')]
            vals = []
            unknown = []
            for x in prec:
                v = const_int(u, x)
                if v is None:
                    unknown.append(x)
                else:
                    vals.append(v)
            p_ = min(vals) if vals else 0
            ok = sci and bool(vals) and not unknown and p_ + 1 >= need
            det = ''
            if not ok:
                if unknown:
                    det = 'the precision `%s` is not a compile-time constant: the number of digits written cannot be established' % show(unknown[0])[:60]
                else:
                    det = '%s values are written with %s and precision %d (%d significant digits): an exact round trip needs %d' % (
                        scalar, 'scientific' if sci else 'default notation', p_, p_ + 1 if sci else p_, need)
            ck.ob('C.precision', key, f.where(), ok, det)


INT_SIZE = {'char': 1, 'signed char': 1, 'unsigned char': 1, 'short': 2, 'unsigned short': 2, 'int': 4, 'unsigned int': 4, 'long': 8, 'unsigned long': 8, 'long long': 8, 'unsigned long long': 8}


def rule_F(ck, units):
    ck.rule('F.integer-parse-width', 'mm_reader::read_value<T> for an integral T extracts the number into a variable at least as wide as T (a narrower temporary makes valid 64-bit integer '
                                     'files fail to parse or wrap): the int temporary is for the character types only', 3)
    done = set()
    for u in units.values():
        for f in u.funcs:
            if f.q != 'amgcl::io::mm_reader::read_value' or f.body is None:
                continue
            m = re.search(r'read_value<(.*)>$', f.full.split('(')[0].strip())
            T = (m.group(1) if m else '').replace('const ', '').strip()
            if T not in INT_SIZE or T in done:
                continue
            done.add(T)
            bad = None
            loc_ = locate(f)
            live = f.cfg.reachable() if f.cfg is not None else None
            for n in f.nodes.values():
                if n['k'] == 'bin' and n['op'] == '>>' and n.get('f', '').endswith('operator>>'):
                    if live is not None and (n['i'] not in loc_ or loc_[n['i']][0] not in live):
                        continue      # in a branch whose condition is a compile-time false for this T (if (is_same<T, char>::value))
                    y = unwrap(n['y'])
                    if y is not None and y['k'] == 'ref':
                        t = u.type(f.decl(y['d']).get('ct')).replace('const ', '').replace('&', '').strip()
                        if t in INT_SIZE and INT_SIZE[t] < INT_SIZE[T]:
                            bad = (n, t)
            ck.ob('F.integer-parse-width', 'amgcl::io::mm_reader::read_value<%s>' % T, f.where(bad[0]) if bad else f.where(), bad is None,
                  '' if bad is None else 'values of type %s are extracted into a variable of type %s at %s: numbers beyond its range make a valid file fail to parse' % (T, bad[1], f.where(bad[0])))


def rule_G(ck, units, floor=2):
    """G.consumption-slice-free: a reader asked for a row range still walks the WHOLE file - lines of rows outside the range are read and
    dropped.  The number of lines / items a loop takes from the file is therefore a property of the file (sizes from its header, end of
    file), never of the requested range: the condition of a loop that reads from the file does not mention a caller-supplied integer
    parameter (row_beg, row_end).  Otherwise the rest of a column / section stays in the stream and everything read afterwards is
    shifted."""
    ck.rule('G.consumption-slice-free', 'MatrixMarket / binary readers: the condition of every loop that takes lines or items from the file mentions no caller-supplied integer '
                                        'parameter (the requested row range): what is consumed depends on the file only, the range only filters what is kept', floor)
    done = set()
    for u in units.values():
        for f in u.funcs:
            if f.body is None or not f.rel().startswith('amgcl/io/') or (f.file, f.line) in done:
                continue
            reads = [n for n, kind in stream_reads(f) if kind in ('getline', 'io::read', 'istream::read')]
            if not reads:
                continue
            k = 0
            for L in sorted((x for x in f.nodes.values() if x['k'] in ('for', 'while', 'do') and x.get('c') is not None), key=lambda x: x['i']):
                if not any(any(y is r for y in walk(L)) for r in reads):
                    continue
                k += 1
                bad = []
                for x in walk(L['c']):
                    if x['k'] == 'ref' and f.param_index(x['d']) is not None:
                        t = u.type(f.decl(x['d']).get('ct')).replace('const ', '').replace('&', '').strip()
                        if t in INT_TYPES:
                            bad.append(f.decl(x['d'])['n'])
                ck.ob('G.consumption-slice-free', '%s|%s|loop#%d' % (f.rel(), f.q, k), f.where(L), not bad, '' if not bad else
                      'the loop at %s reads from the file and is bounded by the parameter `%s` (`%s`): items of the file outside the requested range are not consumed, everything read '
                      'afterwards comes from the wrong position' % (f.where(L), bad[0], show(L['c'])[:50]))
            if k:
                done.add((f.file, f.line))


def main(tier):
    ck = Check('C19', tier, 'C19 (clauses): every file read is checked, file-derived indices are range-checked before use, written precision suffices for an exact round trip.')
    T = os.path.join(ir.VERIF, 'tus')
    specs = [dict(name='io', src=os.path.join(T, 'io.cpp'))]
    if tier == 'thorough':
        specs.append(dict(name='tests_test_io', src=os.path.join(ir.REPO, 'tests', 'test_io.cpp'), extra=['-DBOOST_TEST_DYN_LINK']))
    units = ir.run_units(specs, 'C19')
    ck.add_units(units, specs)
    rule_A(ck, units)
    rule_B(ck, units)
    rule_C(ck, units)
    rule_D(ck, units)
    rule_E(ck, units)
    rule_F(ck, units)
    rule_G(ck, units)
    import c15
    cu = ir.run_units([dict(name='controls', src=os.path.join(ir.VERIF, 'tus', 'controls.cpp'))], 'C19c')
    c15.rule_F(ck, units, cu['controls'])      # the readers fill their output containers completely, also when the caller reuses them (shared with C15)
    import c10
    c10.rule_G(ck, units, floor=1, only=('amgcl/io/',))     # a damaged file is reported by a catchable exception, also from the parallel row-sorting loop (shared with C10)
    import c11
    c11.rule_I(ck, units, floor=4, only=('amgcl/io/',))    # row_beg / row_end = -1 mean 'whole file'; an empty range [k, 0) is not the whole file (shared with C11)
    ck.assumptions += ['the round trip itself and row-range slices being equal to the full read are not decided',
                       'allocation sizes and loop bounds taken from the file fail by exception (length_error / bad_alloc / unexpected eof) and are not treated as sinks']
    return ck.finish()


# ------------------------------------------------------------------ D: symmetric expansion vs row filter
def iteration_conditions(f, L, target_block):
    """branching blocks inside one iteration of loop L that decide whether target_block is reached
    (control dependences of the target relative to the entry of the loop body)"""
    cfg = f.cfg
    lcond = [b for b, blk in cfg.blocks.items() if blk.get('term') == L['i']]
    if not lcond:
        return None
    H = lcond[0]
    entry = cfg.succ[H][0] if cfg.succ[H] else None
    if entry is None:
        return None
    # blocks that can reach the target without passing the loop header
    can = {target_block}
    work = [target_block]
    while work:
        b = work.pop()
        for p in cfg.pred[b]:
            if p != H and p not in can:
                can.add(p)
                work.append(p)
    fwd = set()
    work = [entry]
    while work:
        b = work.pop()
        if b in fwd or b == H:
            continue
        fwd.add(b)
        for s in cfg.succ[b]:
            if s is not None:
                work.append(s)
    out = []
    for b in fwd & can:
        ss = [s for s in cfg.succ[b] if s is not None]
        if len(ss) >= 2 and any(s not in can for s in ss) and b != target_block:
            out.append(b)
    return out


def rule_D(ck, units):
    ck.rule('D.symmetric-mirror', 'in the coordinate reader every stored entry (i, j) of a symmetric file contributes its mirror (j, i) whenever j lies in the requested row range: '
                                  'whether the mirrored entry is counted and stored is decided only by the symmetry flag, i != j and the position of j - never by the position of i in the row range '
                                  '(and the direct entry only by the position of i)', 1)
    done = set()
    for u in units.values():
        for f in u.funcs:
            if f.q != 'amgcl::io::mm_reader::operator()' or f.cfg is None or len(f.params) != 5:
                continue
            if f.full in done:
                continue
            done.add(f.full)
            loc = locate(f)
            # the (row, col) pair extracted from one data line: `is >> i >> j`
            pair = None
            for n in f.nodes.values():
                if n['k'] == 'bin' and n['op'] == '>>' and n.get('f', '').endswith('operator>>'):
                    x, y = unwrap(n['x']), unwrap(n['y'])
                    if x is not None and x['k'] == 'bin' and x['op'] == '>>' and y is not None and y['k'] == 'ref' and unwrap(x['y'])['k'] == 'ref':
                        loops = [a for a in f.ancestors(n) if a['k'] in ('for', 'while', 'do')]
                        if loops and is_int(u, f, y['d']) and is_int(u, f, unwrap(x['y'])['d']):
                            pair = (unwrap(x['y'])['d'], y['d'], loops[0])
            key = '%s|%s' % (f.rel(), f.full[:140])
            if pair is None:
                ck.brk('D.symmetric-mirror: no `is >> i >> j` inside a loop in %s' % f.full[:100])
                continue
            ri, cj, L = pair
            # counting statements ++ptr[<expr of v>] inside the loop, by the index variable they use
            counts = {ri: [], cj: []}
            for n in walk(L['b']):
                if n['k'] == 'un' and n['op'] in ('++',):
                    e = unwrap(n['e'])
                    if e is not None and e['k'] == 'idx':
                        vs = refs(e['x'])
                        for v in (ri, cj):
                            if v in vs and (ri if v == cj else cj) not in vs:
                                counts[v].append(n)
            if not counts[ri] and not counts[cj]:
                ck.brk('D.symmetric-mirror: the reader loop of %s no longer counts entries per row with ++ptr[..]; the rule needs to be re-derived' % f.full[:100])
                continue
            if not counts[ri] or not counts[cj]:
                ck.ob('D.symmetric-mirror', key, f.where(L), False, 'the reader loop has no separate count for the %s entry: symmetric storage is not expanded' % ('mirrored' if counts[ri] else 'direct'))
                continue
            bad = []
            for v, other, what in ((cj, ri, 'mirrored'), (ri, cj, 'direct')):
                for n in counts[v]:
                    conds = iteration_conditions(f, L, loc[n['i']][0])
                    for b in conds or []:
                        c = f.cfg.cond(b)
                        if c is None:
                            continue
                        rs = refs(c)
                        if other in rs and v not in rs:
                            bad.append('whether the %s entry is counted at %s depends on `%s` at %s, a test of the other index only' % (what, f.where(n), show(c)[:60], f.where(c)))
            ck.ob('D.symmetric-mirror', key, f.where(L), not bad, '; '.join(bad[:2]))


# ------------------------------------------------------------------ E: file offsets of partial binary reads
def poly_add(a, b, k=1):
    out = dict(a)
    for m, c in b.items():
        out[m] = out.get(m, 0) + k * c
        if out[m] == 0:
            del out[m]
    return out


def poly_mul(a, b):
    out = {}
    for m1, c1 in a.items():
        for m2, c2 in b.items():
            m = tuple(sorted(m1 + m2))
            out[m] = out.get(m, 0) + c1 * c2
            if out[m] == 0:
                del out[m]
    return out


def poly_of(u, f, e, depth=0):
    """polynomial over symbols (variables by name, sizeof(T), X.front(), X.back()) of an integer expression;
    local variables with a single definition by initialiser are inlined.  None when the form is not polynomial."""
    e = unwrap(e)
    while e is not None and (e['k'] == 'cast' or (e['k'] == 'ctor' and len(e.get('a', [])) == 1)):
        e = unwrap(e['e'] if e['k'] == 'cast' else e['a'][0])    # fpos(offset), size_t(x)
    if e is None or depth > 8:
        return None
    if e['k'] == 'lit' and e.get('t') == 'int':
        v = int(e['v'])
        return {(): v} if v else {}
    if e['k'] == 'sizeof':
        return {('sizeof(%s)' % u.type(e['t']).strip(),): 1}
    if e['k'] == 'ref':
        d = f.decl(e['d'])
        if d.get('k') == 'local':
            init = None
            nassign = 0
            for n in f.nodes.values():
                if n['k'] == 'decl':
                    for v in n['v']:
                        if v['d'] == e['d'] and v.get('init') is not None:
                            init = v['init']
                if n['k'] == 'bin' and n['op'] in ('=', '+=', '-=', '*=', '/=') and unwrap(n['x'])['k'] == 'ref' and unwrap(n['x'])['d'] == e['d']:
                    nassign += 1
                if n['k'] == 'un' and n['op'] in ('++', '--') and unwrap(n['e'])['k'] == 'ref' and unwrap(n['e'])['d'] == e['d']:
                    nassign += 1
            # a local that is also the target of a read(f, x) is a symbol (its value comes from the file)
            isread = any(n['k'] == 'call' and n.get('f') == 'amgcl::io::read' and len(n.get('a', [])) == 2 and unwrap(n['a'][1])['k'] == 'ref' and unwrap(n['a'][1])['d'] == e['d']
                         for n in f.nodes.values())
            if init is not None and nassign == 0 and not isread:
                p = poly_of(u, f, init, depth + 1)
                if p is not None:
                    return p
        return {(d['n'],): 1}
    if e['k'] == 'call' and e.get('m') in ('front', 'back', 'size') and e.get('obj') is not None and unwrap(e['obj'])['k'] == 'ref':
        return {('%s.%s()' % (unwrap(e['obj'])['n'], e['m']),): 1}
    if e['k'] == 'bin' and e['op'] in ('+', '-'):
        a, b = poly_of(u, f, e['x'], depth + 1), poly_of(u, f, e['y'], depth + 1)
        if a is None or b is None:
            return None
        return poly_add(a, b, 1 if e['op'] == '+' else -1)
    if e['k'] == 'bin' and e['op'] == '*':
        a, b = poly_of(u, f, e['x'], depth + 1), poly_of(u, f, e['y'], depth + 1)
        if a is None or b is None:
            return None
        return poly_mul(a, b)
    return None


def poly_show(p):
    if not p:
        return '0'
    return ' + '.join(('%s' % '*'.join(m) if c == 1 and m else ('%d' % c if not m else '%d*%s' % (c, '*'.join(m)))) for m, c in sorted(p.items()))


def elem_type(u, f, e):
    r = unwrap(e)
    if r is None or r['k'] != 'ref':
        return None, None
    t = u.type(f.decl(r['d']).get('ct')).replace('&', '').strip()
    if 'vector<' in t:
        return t[t.index('vector<') + 7:].split(',')[0].strip().rstrip('>').strip(), True
    return t, False


def rule_E(ck, units):
    ck.rule('E.seek-layout', 'binary readers: the file position of every read equals (sizes of all preceding sections of the file, each count * sizeof(its own element type)) '
                             '+ (first element requested) * sizeof(element type of the array being read): CRS file = n | ptr[n+1] | col[nnz] | val[nnz], dense file = n | m | v[n*m]; '
                             'the first element is row_beg (row-indexed sections: ptr, dense rows * m) or the first row pointer of the strip (col, val)', 4)
    done = set()
    for u in units.values():
        for f in u.funcs:
            if f.q not in ('amgcl::io::read_crs', 'amgcl::io::read_dense') or f.cfg is None:
                continue
            # only instantiations in which the element types of all sections are pairwise distinct can tell the offsets apart
            ptypes = [u.type(f.decl(d).get('ct')).replace('&', '').strip() for d in f.params]
            vecs = [t for t in ptypes if 'vector<' in t]
            els = [t[t.index('vector<') + 7:].split(',')[0].strip().rstrip('>').strip() for t in vecs]
            scal = ptypes[1].strip() if len(ptypes) > 1 else '?'
            if len(set(els + [scal])) != len(els) + 1:
                continue
            if f.full in done:
                continue
            done.add(f.full)
            loc = locate(f)
            # sequence of seek / read events in source order (the readers are straight-line code)
            evs = []
            for n in f.nodes.values():
                if n['k'] == 'call' and n.get('m') == 'seekg' and n.get('a'):
                    evs.append((n['i'], 'seek', n))
                elif n['k'] == 'call' and n.get('f') == 'amgcl::io::read' and len(n.get('a', [])) == 2:
                    evs.append((n['i'], 'read', n))
            evs.sort(key=lambda t: t[0])     # node ids follow source order; the readers are straight-line code
            names = [f.param_name(i) for i in range(len(f.params))]
            S = lambda t: {('sizeof(%s)' % t,): 1}
            V = lambda s: {(s,): 1}
            if f.q.endswith('read_crs'):
                nm, ptr, col, val, rb = names[1], names[2], names[3], names[4], names[5]
                T = dict(zip(('ptr', 'col', 'val'), els))
                hdr = S(scal)
                start = {ptr: hdr,
                         col: poly_add(hdr, poly_mul(poly_add(V(nm), {(): 1}), S(T['ptr']))),
                         }
                start[val] = None  # needs nnz: the variable read at offset hdr + n * sizeof(Ptr)
            else:
                nm, mm_, vv, rb = names[1], names[2], names[3], names[4]
                T = {'v': els[0]}
                hdr = poly_mul({(): 2}, S(scal))
                start = {vv: hdr}
            pos = None
            nnz_sym = None
            k = 0
            for _, kind, n in evs:
                if kind == 'seek':
                    pos = (poly_of(u, f, n['a'][0]), n)
                    continue
                tgt = unwrap(n['a'][1])
                et, isvec = elem_type(u, f, n['a'][1])
                tname = tgt['n'] if tgt['k'] == 'ref' else '?'
                if pos is None:
                    continue      # sequential read of the header
                p, sk = pos
                pos = None
                k += 1
                key = '%s|%s|%s' % (f.rel(), f.q, tname)
                if p is None:
                    ck.ob('E.seek-layout', key, f.where(sk), False, 'the offset `%s` is not a polynomial in the sizes: cannot be compared with the file layout' % show(sk['a'][0])[:80])
                    continue
                if f.q.endswith('read_crs') and not isvec:
                    # the scalar read between ptr and col: must be the last row pointer ptr[n] = nnz
                    exp = poly_add(hdr, poly_mul(V(nm), S(T['ptr'])))
                    ok = p == exp and et == T['ptr']
                    if ok:
                        nnz_sym = tname
                        start[val] = poly_add(start[col], poly_mul(V(tname), S(T['col'])))
                    ck.ob('E.seek-layout', key, f.where(sk), ok, '' if ok else 'the total number of non-zeros is read at offset `%s`, the last row pointer is at `%s`' % (poly_show(p), poly_show(exp)))
                    continue
                base = start.get(tname)
                if base is None:
                    ck.ob('E.seek-layout', key, f.where(sk), False, 'read of `%s` at offset `%s`: the start of its section is not established (the total number of non-zeros has not been read from the last row pointer)' % (tname, poly_show(p)))
                    continue
                rem = poly_add(p, base, -1)
                sz = 'sizeof(%s)' % et
                bad = [m for m in rem if m.count(sz) != 1 or any(x.startswith('sizeof(') and x != sz for x in m)]
                det = ''
                ok = not bad
                if bad:
                    det = 'in %s: `%s` (elements of type %s) is read at offset `%s` = start of its section `%s` + `%s`: the remainder is not a multiple of %s' % (
                        f.full[:80], tname, et, poly_show(p), poly_show(base), poly_show(rem), sz)
                else:
                    first = {tuple(x for x in m if x != sz): c for m, c in rem.items()}
                    if f.q.endswith('read_crs'):
                        want = V(rb) if tname == ptr else V('%s.front()' % ptr)
                    else:
                        want = poly_mul(V(rb), V(mm_))
                    ok = first == want
                    if not ok:
                        det = 'in %s: `%s` is read starting at element `%s` of its section, the requested strip starts at element `%s`' % (f.full[:80], tname, poly_show(first), poly_show(want))
                ck.ob('E.seek-layout', key, f.where(sk), ok, det)
