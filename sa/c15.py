"""C15 - objects are reusable; calls do not leak state (DESIGN.md 4, C15).

A  inputs are read-only: rhs / A are const parameters and never reach a mutable position
B  work arrays: every data member written in operator()/apply* is (re)initialised before its
   first read on every path of one call (per array, path-sensitive for first-iteration idioms)
C  every preconditioner-like apply(rhs, x) overwrites x without reading it
D  trivial exits: zero rhs -> clear(x), (0, norm_rhs), nothing else; zero iterations -> x untouched
"""
import os

import ir
from ir import walk, unwrap, show
from absint import AbsInt
from accesses import Analyzer, zero_trip_roots
from effects import locate, prim_name
from framework import Check

ENTRY_METHODS = {'operator()', 'apply', 'apply_pre', 'apply_post', 'solve', 'cycle'}
CLASS_PREFIXES = ('amgcl::solver::', 'amgcl::relaxation::', 'amgcl::preconditioner::', 'amgcl::make_solver', 'amgcl::make_block_solver',
                  'amgcl::deflated_solver', 'amgcl::amg', 'amgcl::mpi::')
# documented exception: LGMRES keeps its augmentation vectors between solves unless always_reset
DOCUMENTED_STATE = {('amgcl::solver::lgmres', 'outer_v'): 'sym:prm.always_reset'}
# documented parameter domain: schur_pressure_correction::params::type is 1 or 2 ("type of the preconditioner" comment); on the path where it is neither, apply()
# neither writes u / p nor solves anything, so the two vectors scattered into x are those of the previous call - outside the domain, exempted
# path-wise (all the listed conditions false); inside the domain (type == 1, type == 2) the rule applies in full
for _c in ('amgcl::preconditioner::schur_pressure_correction', 'amgcl::mpi::schur_pressure_correction'):
    for _m in ('u', 'p'):
        DOCUMENTED_STATE[(_c, _m)] = ('sym:prm.type == 1', 'sym:prm.type == 2')
# element-level define-before-use that the per-array rule cannot see; confirmed by reading, one symbol each
ELEMENTWISE_OK = {
    ('amgcl::solver::skyline_lu', 'y'): 'forward substitution reads only y[j] with j = i - len + (k - ptr[i]) < i, written earlier in the same loop; '
                                         'backward substitution and the copy to x follow the complete forward sweep',
}
# members that hold other amgcl objects or configuration, not work arrays: writes to them inside an
# entry point are reported only if they are vectors (a call on a member object is analysed in its class)
SOLVERS = ['cg', 'bicgstab', 'bicgstabl', 'gmres', 'fgmres', 'lgmres', 'idrs', 'richardson']
# x += X with X cleared when no iteration was made (bicgstabl): adding the zero vector
ZERO_ITER_EXCEPT = {'bicgstabl': 'after label done x is incremented by the accumulator X, which is cleared at entry and untouched when no iteration is made'}


def entry_functions(units):
    for u in units.values():
        for f in u.funcs:
            if not f.cls or f.cfg is None:
                continue
            if not f.cls.startswith(CLASS_PREFIXES) or '::detail::' in f.cls and 'ilu_solve' not in f.cls:
                continue
            if f.cls.endswith('::params') or f.j.get('ctor') or f.j.get('dtor'):
                continue
            m = f.q.split('::')[-1]
            if m in ENTRY_METHODS:
                yield u, f, m


def rule_B(ck, an, units, only=None, floor=50, entries=None, rule='B.work-arrays'):
    if rule == 'B.work-arrays':
        ck.rule('B.work-arrays', 'every data member written inside operator()/apply*/solve/cycle is killed (clear, copy-into, zero-coefficient overwrite, fill, '
                                 'element assignment) before its first read on every path of the call', floor)
    for u, f, m in (entries if entries is not None else entry_functions(units)):
        if only is not None and not only(f):
            continue
        acc = [a for a in an.accesses(f) if a.root[0] == 'this']
        written = {a.root for a in acc if a.kind in ('kill', 'elem', 'rw', 'one')}
        if not written:
            continue
        loc = locate(f)
        events = {}
        for a in acc:
            if a.root not in written:
                continue
            w = loc.get(a.node['i'])
            if w is None:
                continue
            events.setdefault(w[0], []).append((w[1], a.order, a))
        exempt_flag = {r[1]: DOCUMENTED_STATE[(f.cls, r[1])] for r in written if (f.cls, r[1]) in DOCUMENTED_STATE}
        holder = []

        def apply(a, facts, env):
            if a.kind_in(holder[0], env) in ('kill', 'elem'):
                return facts | {a.root}
            return facts

        def cedge(b, k, cond, facts, env):
            z = zero_trip_roots(an, f, holder[0], b, k, env)
            return (facts | set(z)) if z else facts
        ai = AbsInt(f, events, apply, cedge)
        holder.append(ai)
        ai.run()
        bad = {}

        def visit(b, nid, a, facts, env):
            if a.kind_in(ai, env) in ('read', 'rw') and a.root not in facts:
                flag = exempt_flag.get(a.root[1])
                flags = (flag,) if isinstance(flag, str) else (flag or ())
                if flags and all(env.get(fl) == 'F' for fl in flags):
                    return   # documented: state is kept when the reset flag is off / outside the documented parameter domain
                bad.setdefault(a.root, a)
        ai.visit(visit)
        for r in sorted(written):
            a = bad.get(r)
            key = '%s::%s|%s' % (f.cls, m, r[1])
            if (f.cls, r[1]) in ELEMENTWISE_OK:
                continue
            ck.ob(rule, key, f.where(a.node) if a else f.where(), a is None,
                  '' if a is None else 'in %s: member `%s` is read (%s) at %s on a path where this call has not initialised it yet: its value leaks from the previous call' % (
                      f.full[:120], r[1], a.why, f.where(a.node)))


def qr_entries(units):
    """the methods of detail::QR that (re)build its member buffers: a QR object is reused for every row / aggregate"""
    for u in units.values():
        seen = set()
        for f in u.funcs:
            if f.cls == 'amgcl::detail::QR' and f.cfg is not None and f.q.split('::')[-1] in ('factorize', 'compute_q', 'compute', 'solve') and (f.file, f.line) not in seen:
                seen.add((f.file, f.line))
                yield u, f, f.q.split('::')[-1]


def rule_B_qr(ck, an, units, floor=3):
    ck.rule('B.qr-buffers', 'detail::QR (one object reused for many small factorisations): every member buffer (r, q, tau, f) written by factorize / compute_q / solve is killed '
                            'before its first read in that call - vector::resize(n[, v]) does not re-initialise elements that already exist', floor)
    rule_B(ck, an, units, entries=list(qr_entries(units)), rule='B.qr-buffers')


def rule_A(ck, an, units):
    ck.rule('A.inputs-const', 'the right-hand side and the system matrix are const parameters of every entry point and never the subject of a const_cast', 60)
    for u, f, m in entry_functions(units):
        if m == 'cycle':
            continue
        names = [f.decl(d)['n'] for d in f.params]
        for i, d in enumerate(f.params):
            dd = f.decl(d)
            nm = dd['n']
            if nm not in ('rhs', 'A', 'f', 'b', 'F') or m == 'solve' and nm == 'rhs' and len(f.params) == 1:
                continue
            # the solution / scratch parameters are x, tmp, ...; inputs must be const
            is_input = nm in ('rhs', 'A') or (nm in ('f', 'b', 'F') and i < len(f.params) - 1)
            if not is_input:
                continue
            okc = bool(dd.get('const')) or not (dd.get('ref') or dd.get('ptr'))
            casts = [n for n in f.nodes.values() if n['k'] == 'cast' and n.get('ck') == 'const' and an.root_of_expr(f, n['e']) == ('param', i)]
            eff = an.param_effect(f, i) if not okc else 'read'
            ok = (okc or eff in ('read', 'neutral')) and not casts
            ck.ob('A.inputs-const', '%s::%s|%s' % (f.cls, m, nm), f.where(), ok,
                  '' if ok else ('input parameter `%s` is a mutable reference and is %s' % (nm, eff) if not casts else 'const_cast applied to input `%s` at %s' % (nm, f.where(casts[0]))))


def rule_C(ck, an, units):
    ck.rule('C.apply-overwrites', 'every preconditioner-like apply(rhs, x) / apply(A, rhs, x) kills x before any read of it on every path', 16 if ck.tier == 'thorough' or True else 13)
    for u, f, m in entry_functions(units):
        if m != 'apply' or len(f.params) not in (2, 3):
            continue
        xi = len(f.params) - 1
        eff = an.param_effect(f, xi)
        det = ''
        if eff != 'kill':
            # find the offending access for the report
            acc = [a for a in an.accesses(f) if a.root == ('param', xi)]
            first = [a for a in acc if a.kind in ('read', 'rw', 'elem')]
            det = 'in %s: output `%s` is %s%s' % (f.full[:120], f.decl(f.params[xi])['n'], 'not written at all' if eff in ('neutral', 'read') else 'read before it is overwritten',
                                                (' (e.g. %s at %s)' % (first[0].why, f.where(first[0].node))) if first else '')
        ck.ob('C.apply-overwrites', '%s::apply/%d' % (f.cls, len(f.params)), f.where(), eff == 'kill', det)


def rule_D(ck, an, units):
    ck.rule('D.zero-rhs-exit', 'on the path norm(rhs) < eps and !ns_search every solver clears x and returns (0, norm_rhs) with no other vector effect', 8)
    ck.rule('D.zero-iterations', 'whenever a solver returns with an iteration count that is provably zero, x has not been modified (zero-rhs exit aside)', 7)
    seen = set()
    for u, f, m in entry_functions(units):
        name = f.cls.split('::')[-1]
        if not (f.cls.startswith('amgcl::solver::') and name in SOLVERS and m == 'operator()' and len(f.params) == 4):
            continue
        key = 'amgcl::solver::' + name
        cfg = f.cfg
        loc = locate(f)
        acc = an.accesses(f)
        x_root = ('param', 3)
        # --- zero-rhs exit
        early = None
        for n in f.nodes.values():
            if n['k'] == 'ret' and n.get('e') is not None and not f.in_lambda(n):
                tup = [t_ for t_ in [ir.tuple_node(n['e'])] if t_ is not None]
                if tup and unwrap(tup[0]['a'][0])['k'] == 'lit' and unwrap(tup[0]['a'][1])['k'] == 'ref':
                    early = n
        if early is None or early['i'] not in loc:
            ck.ob('D.zero-rhs-exit', key, f.where(), False, 'no `return (0, norm_rhs)` exit')
        else:
            eb = loc[early['i']][0]
            # blocks from which the early return is reachable
            anc = {eb}
            work = [eb]
            while work:
                b = work.pop()
                for p in cfg.pred.get(b, []):
                    if p not in anc:
                        anc.add(p)
                        work.append(p)
            # restrict to blocks that lie only on the way to the early return: every block in anc
            # (re-initialising a member scratch array - a kill - before the exit is harmless)
            writes = [a for a in acc if loc.get(a.node['i'], (None,))[0] in anc and
                      ((a.root[0] == 'param' and a.kind in ('kill', 'elem', 'rw')) or (a.root[0] == 'this' and a.kind in ('elem', 'rw')))]
            clears = [a for a in writes if a.root == x_root and a.kind == 'kill' and loc[a.node['i']][0] == eb]
            others = [a for a in writes if not (a.root == x_root and loc[a.node['i']][0] == eb)]
            # the guard: the block is entered on norm_rhs < eps true and ns_search false
            ok = bool(clears) and not others
            det = ''
            if not clears:
                det = 'x is not cleared before `return (0, norm_rhs)`'
            elif others:
                det = 'other vector effect before the trivial exit: %s at %s' % (others[0].why, f.where(others[0].node))
            ck.ob('D.zero-rhs-exit', key, f.where(early), ok, det)
        # --- zero iterations => x untouched
        if name in ZERO_ITER_EXCEPT:
            continue
        import c01
        rets = [n for n in f.returns() if n is not early]
        kd = None
        for r in rets:
            tup = [t_ for t_ in [ir.tuple_node(r['e'])] if t_ is not None]
            if tup:
                a0 = unwrap(tup[0]['a'][0])
                if a0['k'] == 'ref':
                    kd = a0['d']
        events = {}
        for a in acc:
            if a.root == x_root and a.kind in ('kill', 'elem', 'rw') and a.node['i'] in loc:
                b, pos = loc[a.node['i']]
                if early is not None and b == loc[early['i']][0]:
                    continue
                events.setdefault(b, []).append((pos, a.order, ('xw', a)))
        for r in rets:
            if r['i'] in loc:
                b, pos = loc[r['i']]
                events.setdefault(b, []).append((pos, r['i'], ('ret', r)))

        def apply(p, facts, env):
            if p[0] == 'xw':
                return facts | {'XW'}
            return facts
        ai = AbsInt(f, events, apply)
        ai.run()
        bad = []
        nzero = [0]

        def visit(b, nid, p, facts, env):
            if p[0] == 'ret':
                if kd is not None and env.get(kd) == 'Z':
                    nzero[0] += 1
                    if 'XW' in facts:
                        bad.append(p[1])
        ai.visit(visit)
        ck.ob('D.zero-iterations', key, f.where(bad[0]) if bad else f.where(), not bad,
              '' if not bad else 'a return with iteration count 0 is reachable after x was modified', trivial=(nzero[0] == 0))
        seen.add(name)


def rule_E(ck, units, floor=1):
    """a `clear()` member of a library class resets every data member that the other mutating members modify - otherwise an object that was
    cleared still carries state of its previous use (the ring buffer that holds the LGMRES augmentation vectors)"""
    ck.rule('E.clear-resets-state', 'for every amgcl class with a clear() member: each data member written by another non-const member function (constructors aside) is assigned or cleared in clear()', floor)
    done = set()
    for u in units.values():
        an = Analyzer([u])
        bycls = {}
        for f in u.funcs:
            if f.cls and f.cls.startswith('amgcl::') and f.body is not None and f.rel().startswith('amgcl/'):
                bycls.setdefault(f.clsfull or f.cls, []).append(f)
        for clsfull, fs in bycls.items():
            clears = [f for f in fs if f.q.split('::')[-1] == 'clear' and not f.params]
            if not clears:
                continue
            cls = fs[0].cls
            if cls in done:
                continue
            done.add(cls)

            def written_members(f):
                out = set()
                for a in an.accesses(f):
                    if a.root[0] == 'this' and a.kind in ('kill', 'elem', 'rw', 'one', 'wo'):
                        out.add(a.root[1])
                for n in f.nodes.values():
                    if n['k'] == 'bin' and n['op'] in ('=', '+=', '-=', '*=', '/=', '%='):
                        x = unwrap(n['x'])
                        if x is not None and x['k'] == 'mem' and (x.get('b') is None or unwrap(x['b'])['k'] == 'this'):
                            out.add(x['n'])
                    if n['k'] == 'un' and n['op'] in ('++', '--'):
                        x = unwrap(n['e'])
                        if x is not None and x['k'] == 'mem' and (x.get('b') is None or unwrap(x['b'])['k'] == 'this'):
                            out.add(x['n'])
                    if n['k'] == 'call' and n.get('obj') is not None and not n.get('cm'):
                        o = unwrap(n['obj'])
                        if o is not None and o['k'] == 'mem' and (o.get('b') is None or unwrap(o['b'])['k'] == 'this') and n.get('m') in ('clear', 'push_back', 'resize', 'assign', 'pop_back', 'erase', 'insert'):
                            out.add(o['n'])
                return out
            state = set()
            for f in fs:
                if f.j.get('ctor') or f.j.get('dtor') or f in clears:
                    continue
                state |= written_members(f)
            reset = written_members(clears[0])
            missing = sorted(state - reset)
            ck.ob('E.clear-resets-state', cls, clears[0].where(), not missing,
                  '' if not missing else '%s::clear() does not reset the member(s) %s, which %s modify: a cleared object still depends on its earlier use' % (
                      cls, missing, ', '.join(sorted({f.q.split('::')[-1] for f in fs if not f.j.get('ctor') and f not in clears and (written_members(f) & set(missing))}))), trivial=not state)


def rule_F(ck, units, control):
    """F.resize-is-not-reset: std::vector::resize(n, v) value-initialises only the elements it CREATES.  On a data member of an object that
    lives across calls it is not a re-initialisation: elements that already exist keep the values of the previous use.  Accepted:
    constructors and functions reachable only from constructors of the class (the member is still empty), or a dominating
    member.clear() in the same function."""
    ck.rule('F.resize-is-not-reset', 'no non-constructor member function relies on member.resize(n, value) to (re)initialise a data member: every two-argument resize of a member '
                                     'happens in a constructor / constructor-only helper or after a dominating member.clear()', 0)
    found_control = False
    done = set()
    for u in list(units.values()) + [control]:
        callers = {}
        for g in u.funcs:
            if g.body is None:
                continue
            for c in g.calls():
                if 'fd' in c:
                    callers.setdefault(c['fd'], set()).add(g.id)

        def ctor_only(f, depth=0, seen=None):
            seen = seen or set()
            if f.j.get('ctor'):
                return True
            if depth > 3 or f.id in seen:
                return False
            seen = seen | {f.id}
            cs = [u.by_id[c] for c in callers.get(f.id, ()) if c in u.by_id]
            cs = [g for g in cs if g.cls == f.cls]
            return bool(cs) and all(ctor_only(g, depth + 1, seen) for g in cs)
        for f in u.funcs:
            if f.body is None or (f.file, f.line) in done:
                continue
            if not (f.rel().startswith('amgcl/') or f.q.startswith('verif_control::')):
                continue
            sites = []
            psites = []
            for n in f.nodes.values():
                if n['k'] == 'call' and n.get('m') == 'resize' and n.get('obj') is not None and len([a for a in n.get('a', []) if a is not None and a.get('k') != 'defarg']) == 2:
                    o = unwrap(n['obj'])
                    if o is not None and o['k'] == 'mem' and (o.get('b') is None or unwrap(o['b'])['k'] == 'this'):
                        t = u.type(o.get('ty')) if o.get('ty') is not None else ''
                        if 'numa_vector' in t:
                            continue          # amgcl's own resize(size, bool init) has other semantics
                        sites.append((n, o['n']))
                    elif o is not None and o['k'] == 'ref' and f.param_index(o['d']) is not None:
                        # an OUTPUT container parameter: the caller's vector may hold the result of an earlier call
                        dd = f.decl(o['d'])
                        t = u.type(dd.get('ct'))
                        if dd.get('ref') and not dd.get('const') and 'std::vector' in t:
                            psites.append((n, o['d']))
            if not sites and not psites:
                continue
            done.add((f.file, f.line))
            loc = locate(f) if f.cfg is not None else {}
            dom = f.cfg.dominators() if f.cfg is not None else {}
            for n, mname in sites:
                ok = ctor_only(f)
                why = 'constructor-only'
                if not ok and n['i'] in loc:
                    b, pos = loc[n['i']]
                    for c in f.nodes.values():
                        if c['k'] == 'call' and c.get('m') == 'clear' and c.get('obj') is not None and c['i'] in loc:
                            oc = unwrap(c['obj'])
                            if oc is not None and oc['k'] == 'mem' and oc['n'] == mname:
                                cb, cpos = loc[c['i']]
                                if (cb == b and (cpos, c['i']) < (pos, n['i'])) or (cb != b and cb in dom.get(b, ())):
                                    ok = True
                if f.q.startswith('verif_control::'):
                    found_control = found_control or not ok
                    continue
                ck.ob('F.resize-is-not-reset', '%s|%s' % (f.q, mname), f.where(n), ok, '' if ok else
                      '%s at %s: `%s` is a data member of an object that is reused; resize(n, v) leaves the elements that already exist untouched, so values of the previous use survive' % (
                          show(n)[:60], f.where(n), mname))
            for n, pd_ in psites:
                pname = f.decl(pd_)['n']
                ok = False
                if n['i'] in loc:
                    b, pos = loc[n['i']]
                    for c in f.nodes.values():
                        if c['k'] == 'call' and c.get('m') in ('clear', 'assign') and c.get('obj') is not None and c['i'] in loc:
                            oc = unwrap(c['obj'])
                            if oc is not None and oc['k'] == 'ref' and oc['d'] == pd_:
                                cb, cpos = loc[c['i']]
                                if (cb == b and (cpos, c['i']) < (pos, n['i'])) or (cb != b and cb in dom.get(b, ())):
                                    ok = True
                if not ok:
                    # every caller inside the library hands over a freshly constructed local container
                    pi = f.param_index(pd_)
                    sites_c = [(g, c) for g in u.funcs if g.body is not None and g is not f for c in g.calls() if c.get('fd') == f.id and len(c.get('a', [])) > pi]
                    def fresh(g, c):
                        a = unwrap(c['a'][pi])
                        if a is None or a['k'] != 'ref' or g.decl(a['d']).get('k') != 'local' or g.decl(a['d']).get('ref'):
                            return False
                        for x in g.nodes.values():
                            if x['i'] >= c['i']:
                                continue
                            if x['k'] == 'call' and x.get('obj') is not None and unwrap(x['obj'])['k'] == 'ref' and unwrap(x['obj'])['d'] == a['d'] and x.get('m') in ('resize', 'push_back', 'assign', 'insert', 'emplace_back'):
                                return False
                            if x['k'] == 'call' and any(unwrap(y) is not None and unwrap(y)['k'] == 'ref' and unwrap(y)['d'] == a['d'] for y in x.get('a', [])) and x is not c:
                                return False
                        inits = [v.get('init') for d_ in g.nodes.values() if d_['k'] == 'decl' for v in d_['v'] if v['d'] == a['d']]
                        return all(i_ is None or (unwrap(i_) is not None and unwrap(i_)['k'] == 'ctor' and not unwrap(i_).get('a')) for i_ in inits)
                    ok = bool(sites_c) and all(fresh(g, c) for g, c in sites_c)
                ck.ob('F.resize-is-not-reset', '%s|param %s' % (f.q, pname), f.where(n), ok, '' if ok else
                      '%s at %s: `%s` is an output parameter; when the caller passes a container that already holds elements (the result of an earlier call) resize(n, v) leaves them '
                      'untouched, and this function assigns only a part of the entries afterwards' % (show(n)[:60], f.where(n), pname))
    if not found_control:
        ck.brk('F.resize-is-not-reset: the positive control verif_control::scratch::prepare (tus/controls.cpp) was not recognised - the rule is blind')



def main(tier):
    ck = Check('C15', tier, 'C15 (clauses): solver / preconditioner objects carry no state from one call to the next.')
    T = os.path.join(ir.VERIF, 'tus')
    names = ['rt_builtin', 'composite'] if tier == 'quick' else ['rt_builtin', 'composite', 'vt_float', 'vt_complex', 'vt_block', 'be_block_crs', 'be_eigen', 'mpi_rt']
    names = [n for n in names if os.path.exists(os.path.join(T, n + '.cpp'))]
    specs = [dict(name=n, src=os.path.join(T, n + '.cpp'), mpi=(n == 'mpi_rt')) for n in names]
    units = ir.run_units(specs, 'C15')
    ck.add_units(units, specs)
    for name, u in units.items():
        an = Analyzer([u])
        rule_A(ck, an, {name: u})
        rule_B(ck, an, {name: u})
        rule_C(ck, an, {name: u})
        rule_D(ck, an, {name: u})
        import c17
        c17.rule_B(ck, {name: u})   # the system matrix handed over by shared pointer is never modified
        if name == 'rt_builtin':
            rule_E(ck, {name: u})
            import c07
            c07.rule_zero(ck, {name: u}, floor=8)   # re-initialisation through zero-coefficient primitives really overwrites (even NaN / Inf left by a failed call; shared with C07)
        if name in ('rt_builtin', 'mpi_rt'):
            import c02
            c02.rule_AB(ck, {name: u})   # per-level scratch of the multigrid cycle is history-free (shared with C02)
    cu = ir.run_units([dict(name='controls', src=os.path.join(T, 'controls.cpp'))], 'C15c')
    rule_F(ck, units, cu['controls'])
    import coverage
    coverage.rule_cover(ck, units, control=cu['controls'])      # a member that is only resize()d is rebuilt without a gap (QR workspace; shared by C09 / C15 / C16)
    ck.assumptions += ['arrays of vectors / scalars are treated per array, not per element (a kill of one element counts for the array)',
                       'member objects with their own methods (QR, nested solvers) are analysed in their own classes',
                       'callee effects are derived bottom-up from the instantiated bodies; recursion is closed coinductively',
                       'bitwise equality with a fresh object is not decided']
    return ck.finish()
