"""Small semantic recognisers shared by rules: the same computation is written in several ways by different hands; rules ask these
helpers *what* a statement computes, not how it is spelled.

running extremum of a variable (or member lvalue) V:
    V = std::max(V, E)            V = std::max(E, V)           (also std::min)
    if (E > V) V = E;             if (V < E) V = E;            if (E >= V) V = E;   (E compared and assigned: same text)
    if (D >= V) V = D + 1;        if (D + 1 > V) V = D + 1;    (integers: D >= V  <=>  D + 1 > V)
    V = E > V ? E : V;            V = V < E ? E : V;
Each recogniser returns (contribution expression node E, kind) or None.
"""
from ir import unwrap, show, walk


def _txt(e):
    return show(unwrap(e)).replace(' ', '') if e is not None else None


def _same(a, b):
    return a is not None and b is not None and _txt(a) == _txt(b)


def _plus_one(e):
    """D for an expression D + 1 / 1 + D, else None"""
    e = unwrap(e)
    if e is not None and e['k'] == 'bin' and e['op'] == '+':
        x, y = unwrap(e['x']), unwrap(e['y'])
        if y is not None and y['k'] == 'lit' and y.get('v') == '1':
            return e['x']
        if x is not None and x['k'] == 'lit' and x.get('v') == '1':
            return e['y']
    return None


def _resolve_local(f, e, depth=0):
    """a local with a single definition by initialiser (`const T dep = level[*c];`) stands for its initialiser"""
    u = unwrap(e)
    if u is None or u['k'] != 'ref' or depth > 3 or f.decl(u['d']).get('k') != 'local':
        return e
    inits = [v['init'] for n in f.nodes.values() if n['k'] == 'decl' for v in n['v'] if v['d'] == u['d'] and v.get('init') is not None]
    mods = [n for n in f.nodes.values() if (n['k'] == 'bin' and n['op'] in ('=', '+=', '-=', '*=', '/=') and unwrap(n['x'])['k'] == 'ref' and unwrap(n['x'])['d'] == u['d'])
            or (n['k'] == 'un' and n['op'] in ('++', '--') and unwrap(n['e'])['k'] == 'ref' and unwrap(n['e'])['d'] == u['d'])]
    if len(inits) == 1 and not mods:
        return _resolve_local(f, inits[0], depth + 1)
    return e


def extremum_update(f, n, want='max'):
    """n: an assignment statement or an `if` statement.  Returns (target lvalue node, contribution expression node) when n updates its
    target as a running maximum (want='max') / minimum (want='min') of target and contribution; else None."""
    if n is None:
        return None
    fn = 'std::max' if want == 'max' else 'std::min'
    gt = ('>', '>=') if want == 'max' else ('<', '<=')
    lt = ('<', '<=') if want == 'max' else ('>', '>=')
    if n['k'] == 'bin' and n['op'] == '=':
        V, y = n['x'], unwrap(n['y'])
        if y is not None and y['k'] == 'call' and (y.get('f') or '') == fn and len(y.get('a', [])) == 2:
            a, b = y['a']
            if _same(a, V):
                return V, b
            if _same(b, V):
                return V, a
        if y is not None and y['k'] == 'cond':
            r = _cmp_select(f, y['c'], y['x'], y['y'], V, gt, lt)
            if r is not None:
                return V, r
        return None
    if n['k'] == 'if' and n.get('e') is None and n.get('t') is not None:
        body = n['t']
        stmts = body.get('s', []) if body['k'] == 'block' else [body]
        stmts = [s for s in stmts if s is not None]
        if len(stmts) != 1:
            return None
        a = stmts[0]
        if a['k'] == 'expr' and a.get('e') is not None:
            a = a['e']
        a = unwrap(a) if a['k'] not in ('bin',) else a
        if a is None or a['k'] != 'bin' or a['op'] != '=':
            return None
        V, E = a['x'], a['y']
        r = _cmp_select(f, n['c'], E, V, V, gt, lt)
        if r is not None:
            return V, r
    return None


def _cmp_select(f, c, then_e, else_e, V, gt, lt):
    """condition c selects then_e (instead of keeping V) exactly when then_e is beyond V in the wanted direction: returns the contribution
    or None.  gt: operators `E op V` that select E, lt: operators `V op E` that select E."""
    c = unwrap(c)
    if c is None or c['k'] != 'bin' or not _same(else_e, V):
        return None
    E = then_e
    Er = _resolve_local(f, E)
    for p, q, ops in ((c['x'], c['y'], gt), (c['y'], c['x'], lt)):
        if c['op'] not in ops or not _same(q, V):
            continue
        pr = _resolve_local(f, p)
        if _same(p, E) or _same(pr, Er):
            return E
        # integers, maximum only:  D >= V  <=>  D + 1 > V   selects  V = D + 1
        d = _plus_one(Er)
        if d is not None and gt == ('>', '>=') and c['op'] in ('>=', '<=') and (_same(p, d) or _same(pr, _resolve_local(f, d))):
            return E
    return None


def extremum_updates(f, root, want='max'):
    """all running-extremum updates below the tree `root`: [(statement node, target node, contribution node)]"""
    out = []
    for n in walk(root):
        r = extremum_update(f, n, want)
        if r is not None:
            out.append((n, r[0], r[1]))
    # an `if (E > V) V = E;` contains the plain assignment `V = E` as a child: drop children of recognised ifs
    ifs = [n for n, _, _ in out if n['k'] == 'if']
    inner = {x['i'] for i_ in ifs for x in walk(i_) if x is not i_}
    return [(n, V, E) for n, V, E in out if n['i'] not in inner]


def deep_nodes(f, e, depth=0):
    """nodes of e and of the initialisers of the single-definition locals it mentions (transitively, bounded)"""
    for x in walk(e):
        yield x
        if x['k'] == 'ref' and depth < 3:
            r = _resolve_local(f, x)
            if r is not x:
                for y in deep_nodes(f, r, depth + 1):
                    yield y
