"""C05 - each Krylov method produces its defining iterates (DESIGN.md 4, C05): the structural clauses.

The property is numerical (optimality of iterates, agreement with reference implementations) and is not decided as a
whole.  Decided, as necessary conditions of "with maxiter = k every method returns the k-th iterate of the algorithm
it names, for every call on the object":

richardson-form   one iteration of solver::richardson is exactly  x <- x + damping * P(f - A x):  symbolic execution of the
                  loop body over the backend primitives gives this term for x, and leaves r = f - A x for the new x
lock-step         cg, bicgstab, idrs: every x += c D is paired with r -= c V, V the (side-dependent) operator image of D
                  (shared with C01) - the recurrences that define the iterates keep x and r consistent
state-reinitialised  the recurrence state held in mutable members (Hessenberg matrix, Givens rotations, search directions,
                  M, f, G, U ...) is re-initialised by every solve before it is read (shared with C15): the iterates of a
                  call do not depend on earlier calls
"""
import os

import ir
import inline
from ir import walk, unwrap, show
from accesses import Analyzer
from effects import prim_name, classify_coef, PRIMS
from framework import Check
import c01
import linalg as la
import c15


def sym_iteration(ck, u, f):
    """symbolic execution (linalg.py) of one pass through the iteration loop of richardson::operator()"""
    key = 'amgcl::solver::richardson'
    an = Analyzer([u])
    A, P, rhs, x = [('param', i) for i in range(4)]
    loops = [n for n in f.nodes.values() if n['k'] in ('for', 'while') and n.get('c') is not None and 'maxiter' in show(n['c'])]
    if len(loops) != 1:
        ck.ob('richardson-form', key, f.where(), False, 'expected one iteration loop bounded by prm.maxiter, found %d' % len(loops))
        return
    L = loops[0]
    X0, F = la.sym('x'), la.sym('f')
    it = la.Interp(f, an, lambda e: 'A' if an.expr_root(f, e) == A else None, lambda c: 'P' if an.expr_root(f, c['obj']) == P else None)
    it.env[x] = X0
    it.env[rhs] = F

    def res(xt):
        return la.add(F, la.apply_op('A', xt), -1)
    it.run([n for n in sorted(f.nodes.values(), key=lambda t: t['i']) if n['k'] == 'call' and n['i'] < L['i'] and not f.in_lambda(n)])
    # whatever x is at loop entry is the iterate x_k =: x; the vectors that hold f - A x_k are the carried residuals
    xin = it.val(x)
    carried = [r for r, t in it.env.items() if r not in (x, rhs) and t == res(xin)]
    if not carried:
        ck.ob('richardson-form', key, f.where(L), False, 'the residual f - A x is not computed before the first iteration')
        return
    it.env.clear()
    it.env[x] = X0
    it.env[rhs] = F
    for r in carried:
        it.env[r] = res(X0)
    it.run(sorted(walk(L['b']), key=lambda t: t['i']))
    xt = it.env[x]
    p = la.app('P', res(X0))
    corr = la.add(xt, X0, -1)
    dets = []
    ok_x = False
    if len(corr) == 1:
        (b, fac), m = next(iter(corr.items()))
        ok_x = b == next(iter(p))[0] and m == 1 and len(fac) <= 1 and (not fac or 'damping' in fac[0])
        if ok_x and not fac:
            dets.append('the correction P(f - A x) is not multiplied by prm.damping')
    if not ok_x:
        dets.append('one iteration maps x to `%s`; the Richardson iteration is x + damping * P(f - A x)' % la.lshow(xt))
    bad_r = [r for r in carried if it.env.get(r) != res(xt)]
    if ok_x and bad_r:
        dets.append('after the update the carried residual `%s` is `%s`, but f - A x of the new x is `%s`: the next iteration does not start from the residual of its iterate' % (
            bad_r[0][-1], la.lshow(it.env.get(bad_r[0])), la.lshow(res(xt))))
    ck.ob('richardson-form', key, f.where(L), not dets, '; '.join(dets))


def main(tier):
    ck = Check('C05', tier, 'C05 (clauses): Richardson iteration form, solution / residual lock-step of CG, BiCGStab, IDR(s), per-solve re-initialisation of the recurrence state.')
    T = os.path.join(ir.VERIF, 'tus')
    names = ['rt_builtin'] if tier == 'quick' else ['rt_builtin', 'vt_float', 'vt_complex', 'vt_block', 'mpi_rt']
    specs = [dict(name=n, src=os.path.join(T, n + '.cpp'), mpi=(n == 'mpi_rt')) for n in names]
    units = ir.run_units(specs, 'C05')
    ck.add_units(units, specs)
    ck.rule('richardson-form', 'one pass of the iteration loop of solver::richardson maps (x, r = f - A x) to (x + prm.damping * P r, f - A x_new) - symbolic execution over the backend primitives', 1)
    ck.rule('B5.lock-step', 'cg, bicgstab, idrs: every x += c D is paired with a residual update -c V where V is the image of D under the (side-dependent) preconditioned operator', 3)
    ck.rule('B6.smoothing-siblings', 'idrs: the residual-smoothing block after the inner update and the one after the omega step are the same code', 1)
    seen = set()
    for uname, u in units.items():
        for name, f in c01.solver_functions({uname: u}):
            seen.add(name)
            if name in c01.LOCKSTEP:
                c01.rule_lockstep(ck, name, f)
            if name == 'richardson':
                sym_iteration(ck, u, f)
        an = Analyzer([u])
        c15.rule_B(ck, an, {uname: u}, only=lambda f: f.cls.startswith('amgcl::solver::') and f.cls.split('::')[-1] in c01.SOLVERS, floor=8)
    missing = [s for s in c01.SOLVERS if s not in seen]
    if missing:
        ck.brk('solver classes not instantiated: %s' % missing)
    ck.assumptions += ['optimality of the iterates (CG A-norm, GMRES residual minimisation), agreement with dense reference implementations and finite termination are numerical and NOT decided',
                       'the preconditioner P and the matrix A are fixed linear operators during one solve']
    return ck.finish()
