"""C05 - each Krylov method produces its defining iterates (DESIGN.md 4, C05): the structural clauses.

The property is numerical (optimality of iterates, agreement with reference implementations) and is not decided as a
whole.  Decided, as necessary conditions of "with maxiter = k every method returns the k-th iterate of the algorithm
it names, for every call on the object":

richardson-form   one iteration of solver::richardson is exactly  x <- x + damping * P(f - A x):  symbolic execution of the
                  loop body over the backend primitives gives this term for x, and leaves r = f - A x for the new x
lock-step         cg, bicgstab, idrs: every x += c D is paired with r -= c V, V the (side-dependent) operator image of D
                  (shared with C01) - the recurrences that define the iterates keep x and r consistent
state-reinitialised  the recurrence state held in mutable members (Hessenberg matrix, Givens rotations, search directions,
                  M, f, G, U ...) is re-initialised by every solve before it is read (shared with C15): the iterates of a
                  call do not depend on earlier calls
"""
import os

import ir
import inline
from ir import walk, unwrap, show
from accesses import Analyzer
from effects import prim_name, classify_coef, PRIMS
from framework import Check
import c01
import linalg as la
import c15


def sym_iteration(ck, u, f):
    """symbolic execution (linalg.py) of one pass through the iteration loop of richardson::operator()"""
    key = 'amgcl::solver::richardson'
    an = Analyzer([u])
    A, P, rhs, x = [('param', i) for i in range(4)]
    loops = [n for n in f.nodes.values() if n['k'] in ('for', 'while') and n.get('c') is not None and 'maxiter' in show(n['c'])]
    if len(loops) != 1:
        ck.ob('richardson-form', key, f.where(), False, 'expected one iteration loop bounded by prm.maxiter, found %d' % len(loops))
        return
    L = loops[0]
    X0, F = la.sym('x'), la.sym('f')
    it = la.Interp(f, an, lambda e: 'A' if an.expr_root(f, e) == A else None, lambda c: 'P' if an.expr_root(f, c['obj']) == P else None)
    it.env[x] = X0
    it.env[rhs] = F

    def res(xt):
        return la.add(F, la.apply_op('A', xt), -1)
    it.run([n for n in sorted(f.nodes.values(), key=lambda t: t['i']) if n['k'] == 'call' and n['i'] < L['i'] and not f.in_lambda(n)])
    # whatever x is at loop entry is the iterate x_k =: x; the vectors that hold f - A x_k are the carried residuals
    xin = it.val(x)
    carried = [r for r, t in it.env.items() if r not in (x, rhs) and t == res(xin)]
    if not carried:
        ck.ob('richardson-form', key, f.where(L), False, 'the residual f - A x is not computed before the first iteration')
        return
    it.env.clear()
    it.env[x] = X0
    it.env[rhs] = F
    for r in carried:
        it.env[r] = res(X0)
    it.run(sorted(walk(L['b']), key=lambda t: t['i']))
    xt = it.env[x]
    p = la.app('P', res(X0))
    corr = la.add(xt, X0, -1)
    dets = []
    ok_x = False
    if len(corr) == 1:
        (b, fac), m = next(iter(corr.items()))
        ok_x = b == next(iter(p))[0] and m == 1 and len(fac) <= 1 and (not fac or 'damping' in fac[0])
        if ok_x and not fac:
            dets.append('the correction P(f - A x) is not multiplied by prm.damping')
    if not ok_x:
        dets.append('one iteration maps x to `%s`; the Richardson iteration is x + damping * P(f - A x)' % la.lshow(xt))
    bad_r = [r for r in carried if it.env.get(r) != res(xt)]
    if ok_x and bad_r:
        dets.append('after the update the carried residual `%s` is `%s`, but f - A x of the new x is `%s`: the next iteration does not start from the residual of its iterate' % (
            bad_r[0][-1], la.lshow(it.env.get(bad_r[0])), la.lshow(res(xt))))
    ck.ob('richardson-form', key, f.where(L), not dets, '; '.join(dets))


def ip_calls(f):
    """calls of the solver's inner-product functor: inner_product(a, b)"""
    out = []
    for n in f.nodes.values():
        if n['k'] == 'call' and n.get('op') == '()' and n.get('obj') is not None and len(n.get('a', [])) == 2:
            o = unwrap(n['obj'])
            if o is not None and o['k'] == 'mem' and o['n'] == 'inner_product':
                out.append(n)
    return out


def single_def(f, d):
    defs = [v['init'] for n in f.nodes.values() if n['k'] == 'decl' for v in n['v'] if v['d'] == d and v.get('init') is not None]
    asg = [n for n in f.nodes.values() if n['k'] == 'bin' and n['op'] in ('=', '+=', '-=', '*=', '/=') and unwrap(n['x'])['k'] == 'ref' and unwrap(n['x'])['d'] == d]
    return defs[0] if len(defs) == 1 and not asg else None


def rule_conj(ck, u, name, f):
    """inner_product(x, y) is conjugate-linear in y (C07).  Two consequences the defining formulas of the methods rely on:
    (a) a fixed shadow vector (never written inside the iteration loop) that is paired with the varying vectors is the conjugated,
        i.e. second, argument: rho = r^H_shadow r = <r, r_shadow>;
    (b) a projection coefficient <a, b> / <c, c> (or / norm(c)^2) - the minimiser of ||a' - w c|| - has the direction c as the second
        argument of its numerator: w = (c^H a')/(c^H c) = <a', c>/<c, c>, as in the Gram-Schmidt projections <w, v_k> of the GMRES family."""
    an = Analyzer([u])
    key = 'amgcl::solver::' + name
    loops = [n for n in f.nodes.values() if n['k'] in ('for', 'while') and n.get('c') is not None and 'maxiter' in show(n['c'])]
    ips = ip_calls(f)
    if not ips:
        return
    dets = []
    if loops:
        L = min(loops, key=lambda n: n['i'])
        inloop = {n['i'] for n in walk(L)}
        written = set()
        for n in walk(L):
            if n['k'] != 'call':
                continue
            pr = prim_name(n)
            if pr is not None:
                written.add(an.expr_root(f, n['a'][PRIMS[pr][1]]))
            elif n.get('m') == 'apply' and len(n.get('a', [])) == 2:
                written.add(an.expr_root(f, n['a'][1]))
            elif n.get('f') == 'amgcl::preconditioner::spmv' and len(n.get('a', [])) == 6:
                written.add(an.expr_root(f, n['a'][4]))
                written.add(an.expr_root(f, n['a'][5]))
        for c in ips:
            if c['i'] not in inloop:
                continue
            ra, rb = an.expr_root(f, c['a'][0]), an.expr_root(f, c['a'][1])
            if ra is None or rb is None or ra == rb:
                continue
            if ra[0] == 'this' and ra not in written and rb in written:
                dets.append((c, 'the fixed shadow vector `%s` is the first (not conjugated) argument of %s at %s; paired with the varying `%s` it must be the conjugated second argument '
                                '(<r, r_shadow> = r_shadow^H r)' % (ra[-1], 'inner_product', f.where(c), rb[-1])))
    # (b) projection quotients
    def as_ip(e, depth=0):
        e = unwrap(e)
        if e is None:
            return None
        if e['k'] == 'call' and e in ips:
            return e
        if e['k'] == 'ref' and depth < 3:
            i = single_def(f, e['d'])
            return as_ip(i, depth + 1) if i is not None else None
        return None

    def norm_arg(e, depth=0):
        e = unwrap(e)
        if e is None:
            return None
        if e['k'] == 'call' and e.get('m') == 'norm' and len(e.get('a', [])) == 1:
            return an.expr_root(f, e['a'][0])
        if e['k'] == 'ref' and depth < 3:
            i = single_def(f, e['d'])
            return norm_arg(i, depth + 1) if i is not None else None
        return None
    for n in f.nodes.values():
        if n['k'] != 'bin' or n['op'] != '/':
            continue
        num = as_ip(n['x'])
        if num is None:
            continue
        ra, rb = an.expr_root(f, num['a'][0]), an.expr_root(f, num['a'][1])
        if ra is None or rb is None or ra == rb:
            continue
        den = unwrap(n['y'])
        direction = None
        dip = as_ip(den)
        if dip is not None:
            da, db = an.expr_root(f, dip['a'][0]), an.expr_root(f, dip['a'][1])
            if da == db:
                direction = da
        elif den is not None and den['k'] == 'bin' and den['op'] == '*':
            x, y = norm_arg(den['x']), norm_arg(den['y'])
            if x is not None and x == y:
                direction = x
        if direction is None or direction not in (ra, rb):
            continue
        if direction != rb:
            dets.append((num, 'the projection coefficient at %s is <%s, %s> / <%s, %s>: the direction `%s` must be the conjugated second argument of the numerator '
                              '(w = (c^H a)/(c^H c) = <a, c>/<c, c>); as written the coefficient is the complex conjugate of the minimiser' % (
                                  f.where(n), ra[-1], rb[-1], direction[-1], direction[-1], direction[-1])))
    seen = set()
    k = 0
    for c, msg in dets:
        if c['i'] in seen:
            continue
        seen.add(c['i'])
        k += 1
        ck.ob('conj-consistency', '%s|%s' % (key, '%s:%s' % (show(c['a'][0]).strip('*'), show(c['a'][1]).strip('*'))), f.where(c), False, msg)
    ck.ob('conj-consistency', key, f.where(), True, '', trivial=not ips)


def rule_normaliser(ck, name, f):
    """normaliser-fresh: in  axpby(math::inverse(s), V, zero, W)  - a basis vector obtained by normalising V - the scalar s is, on every
    path, the value of norm(V) taken after the last write to V.  (The Arnoldi / Krylov basis is orthonormal only then.)"""
    from effects import locate
    key = 'amgcl::solver::' + name
    cfg = f.cfg
    loc = locate(f)
    al = c01.alias_roots(f)

    def skey(e):
        e = unwrap(e)
        if e is None:
            return None
        if e['k'] == 'ref' and f.decl(e['d']).get('k') in ('local', 'param'):
            return ('d', e['d'])
        return ('t', show(e))

    def norm_root(e):
        e = unwrap(e)
        if e is not None and e['k'] == 'call' and e.get('m') == 'norm' and len(e.get('a', [])) == 1:
            return c01.root_key(f, e['a'][0], al)
        return None
    uses = []
    for n in f.nodes.values():
        if n['k'] != 'call' or prim_name(n) != 'axpby' or n['i'] not in loc:
            continue
        a = n['a']
        c = unwrap(a[0])
        if c is not None and c['k'] == 'ref':
            c = unwrap(single_def(f, c['d']))       # scalar_type inv = math::inverse(s);
        if c is None or c['k'] != 'call' or not (c.get('f') or '').endswith('math::inverse') or len(c.get('a', [])) != 1:
            continue
        if classify_coef(f, a[2]) != 'zero':
            continue
        uses.append((n, skey(c['a'][0]), c01.root_key(f, a[1], al)))
    if not uses:
        return 0
    keys = {k for _, k, _ in uses}
    events = {}

    def add(n, kind, payload):
        if n['i'] in loc:
            b, pos = loc[n['i']]
            events.setdefault(b, []).append((pos, n['i'], kind, payload))
    for n in f.nodes.values():
        if n['k'] == 'call':
            pr = prim_name(n)
            if pr is not None:
                add(n, 'write', c01.root_key(f, n['a'][PRIMS[pr][1]], al))
            elif n.get('m') == 'apply' and len(n.get('a', [])) == 2 and 'obj' in n:
                add(n, 'write', c01.root_key(f, n['a'][1], al))
            elif n.get('f') == 'amgcl::preconditioner::spmv' and len(n.get('a', [])) == 6:
                add(n, 'write', c01.root_key(f, n['a'][4], al))
                add(n, 'write', c01.root_key(f, n['a'][5], al))
            elif n.get('m') == 'swap' or (n.get('f') or '').endswith('::swap'):
                for x in n.get('a', []):
                    add(n, 'write', c01.root_key(f, x, al))
        elif n['k'] == 'decl':
            for v in n['v']:
                if ('d', v['d']) in keys:
                    add(n, 'def', (('d', v['d']), norm_root(v['init']) if v.get('init') is not None else None))
        elif n['k'] == 'bin' and n['op'] in ('=', '+=', '-=', '*=', '/='):
            k = skey(n['x'])
            if k in keys:
                add(n, 'def', (k, norm_root(n['y']) if n['op'] == '=' else None))
        elif n['k'] == 'un' and n['op'] in ('++', '--'):
            k = skey(n['e'])
            if k in keys:
                add(n, 'def', (k, None))
    for b in events:
        events[b].sort(key=lambda t: (t[0], t[1]))

    def step(evs, st):
        st = dict(st)
        for pos, nid, kind, p in evs:
            if kind == 'write':
                for k, r in list(st.items()):
                    if r == p and r is not None:
                        st[k] = ('stale',) + tuple(r)
            else:
                st[p[0]] = p[1] if p[1] is not None else ('other',)
        return frozenset(st.items())

    def join(a, b_):
        a, b_ = dict(a), dict(b_)
        out = {}
        for k in set(a) | set(b_):
            out[k] = a.get(k) if a.get(k) == b_.get(k) else ('mixed',)
        return frozenset(out.items())
    IN, OUT = cfg.forward(frozenset(), lambda b, st: step(events.get(b, ()), st), join=join)
    for n, k, root in uses:
        b, pos = loc[n['i']]
        if b not in IN:
            continue
        st = dict(step([e for e in events.get(b, ()) if (e[0], e[1]) < (pos, n['i'])], IN[b]))
        got = st.get(k)
        ok = got is not None and got == root
        sname = f.decl(k[1])['n'] if k[0] == 'd' else k[1]
        if ok:
            det = ''
        elif got is not None and got[:1] == ('stale',):
            det = '`%s` was computed as norm(%s) but %s is written again before it is normalised by `%s` at %s' % (sname, got[-1], got[-1], sname, f.where(n))
        else:
            det = '`%s` is not on every path the norm of the vector `%s` it normalises at %s' % (sname, show(n['a'][1]), f.where(n))
        ck.ob('normaliser-fresh', '%s|%s' % (key, sname), f.where(n), ok, det)
    return len(uses)


def register_x_rules(ck):
    ck.rule('x-increment-only', 'inside a solve the solution parameter x is only incremented (identity coefficient on its old value); exceptions: clear(x) on the zero-rhs exit, '
                                'copy(V, x) of an iterate V seeded by copy(x, V)', 8)
    ck.rule('x-space', 'solvers with a preconditioning side (last-writer dataflow): on a right-preconditioning path x is incremented only by results of an application of P, on a '
                       'left-preconditioning path never by the by-product T = A F of preconditioner::spmv; an unguarded increment satisfies both', 4)


def rule_xspace(ck, name, f):
    """x-increment-only / x-space.
    (a) The solution parameter x enters the result as the initial guess: inside a solve it is only incremented (x += c D with the identity
        coefficient on x), never overwritten - except clear(x) on the zero right-hand-side exit and a final copy(V, x) of an iterate V
        that was itself initialised by copy(x, V) (IDR(s) residual smoothing).
    (b) Solvers with a preconditioning side.  For right preconditioning (A P y = f, x = P y) every Krylov vector lives in the
        preconditioned space; only the result of an application of P - P.apply(., D) or the by-product T = P F of
        preconditioner::spmv(side, P, A, F, V, T) - is a solution-space vector.  For left preconditioning that by-product is T = A F, which
        is NOT a solution-space vector.  Flow-sensitive (last writers of the vector D at `x += c D`): on a right-preconditioning path
        every last writer of D is an application of P; on a left-preconditioning path none is the T by-product; an increment that is not
        guarded by the side has to satisfy both."""
    from effects import locate
    key = 'amgcl::solver::' + name
    al = c01.alias_roots(f)
    x_root = ('param', 3)
    loc = locate(f)
    has_side = any(n['k'] == 'call' and n.get('f') == 'amgcl::preconditioner::spmv' for n in f.nodes.values())
    bad_over, bad_space = [], []
    nupd = 0
    seeded = set()    # V with copy(x, V)
    for n in f.nodes.values():
        if n['k'] == 'call' and prim_name(n) == 'copy' and c01.root_key(f, n['a'][0], al) == x_root:
            seeded.add(c01.root_key(f, n['a'][1], al))
    # ---- last-writer dataflow
    events = {}

    def add(n, root, kind):
        if n['i'] in loc and root is not None:
            b, pos = loc[n['i']]
            events.setdefault(b, []).append((pos, n['i'], root, kind))
    for n in f.nodes.values():
        if n['k'] != 'call':
            continue
        pr = prim_name(n)
        if pr is not None:
            add(n, c01.root_key(f, n['a'][PRIMS[pr][1]], al), 'prim')
        elif n.get('m') == 'apply' and len(n.get('a', [])) == 2 and 'obj' in n:
            add(n, c01.root_key(f, n['a'][1], al), 'P')
        elif n.get('f') == 'amgcl::preconditioner::spmv' and len(n.get('a', [])) == 6:
            add(n, c01.root_key(f, n['a'][4], al), 'V')
            add(n, c01.root_key(f, n['a'][5], al), 'T')
    for b in events:
        events[b].sort(key=lambda t: (t[0], t[1]))

    def step(evs, st):
        st = dict(st)
        for pos, nid, root, kind in evs:
            st[root] = frozenset([(nid, kind)])
        return frozenset(st.items())

    def join(p, q):
        p, q = dict(p), dict(q)
        return frozenset((k, p.get(k, frozenset()) | q.get(k, frozenset())) for k in set(p) | set(q))
    IN = {}
    if has_side and f.cfg is not None:
        IN, _ = f.cfg.forward(frozenset(), lambda b, st: step(events.get(b, ()), st), join=join)
    for n in sorted(f.nodes.values(), key=lambda t: t['i']):
        if n['k'] != 'call':
            continue
        pr = prim_name(n)
        if pr is not None:
            ci, oi = PRIMS[pr]
            if c01.root_key(f, n['a'][oi], al) != x_root:
                continue
            nupd += 1
            coef = classify_coef(f, n['a'][ci]) if ci is not None else 'zero'
            if coef != 'identity':
                if pr == 'clear':
                    # the zero-rhs exit: clear(x) followed by a return in the same block (decided in detail by C15 D.zero-rhs-exit)
                    blk = next((a for a in f.ancestors(n) if a['k'] == 'block'), None)
                    if blk is not None and any(m['k'] == 'ret' for m in blk.get('s', [])):
                        continue
                if pr == 'copy' and c01.root_key(f, n['a'][0], al) in seeded:
                    continue
                bad_over.append('%s at %s overwrites x (coefficient `%s` on its old value)' % (show(n)[:50], f.where(n), show(n['a'][ci]) if ci is not None else 'none'))
                continue
            if pr == 'axpby' and has_side and n['i'] in loc:
                D = c01.root_key(f, n['a'][1], al)
                side = None
                for t in c01.guards_of(f, n):
                    if 'pside' in t and 'left' in t:
                        side = 'right' if t.startswith('!') else 'left'
                    elif 'pside' in t and 'right' in t:
                        side = 'left' if t.startswith('!') else 'right'
                b, pos = loc[n['i']]
                if b not in IN:
                    continue
                st = dict(step([e for e in events.get(b, ()) if (e[0], e[1]) < (pos, n['i'])], IN[b]))
                writers = st.get(D, frozenset())
                kinds = {k for _, k in writers}
                where = 'on the %s-preconditioning path' % side if side else 'irrespective of prm.pside'
                if side != 'left' and (not writers or kinds - {'P', 'T'}):
                    bad_space.append('x is incremented by `%s` at %s %s, but that vector is not (on every path) the result of an application of P: for right preconditioning the '
                                     'Krylov vectors live in the preconditioned space and x = x0 + P y' % (show(n['a'][1]), f.where(n), where))
                if side != 'right' and 'T' in kinds:
                    bad_space.append('x is incremented by `%s` at %s %s, but that vector is the by-product T of preconditioner::spmv, which is A F - not a solution-space vector - '
                                     'for left preconditioning' % (show(n['a'][1]), f.where(n), where))
        elif n.get('m') == 'apply' and len(n.get('a', [])) == 2 and 'obj' in n and c01.root_key(f, n['a'][1], al) == x_root:
            nupd += 1
            bad_over.append('%s at %s overwrites x with a preconditioner application: the initial guess is lost' % (show(n)[:50], f.where(n)))
    ck.ob('x-increment-only', key, f.where(), not bad_over and nupd > 0, '; '.join(bad_over[:2]) if bad_over else ('' if nupd else 'no update of x found'))
    if has_side:
        ck.ob('x-space', key, f.where(), not bad_space, '; '.join(bad_space[:2]))


def _rot_entry(f, e, cs, sn):
    """(sign, 'c' | 's', conjugated?) for an expression that is +-cs, +-sn, +-adjoint(cs), +-adjoint(sn) (cs, sn: parameter decls), else None"""
    e = unwrap(e)
    sign = 1
    while e is not None and e['k'] == 'un' and e['op'] in ('-', '+'):
        if e['op'] == '-':
            sign = -sign
        e = unwrap(e['e'])
    conj = False
    if e is not None and e['k'] == 'call' and (e.get('f') or '').split('::')[-1] in ('adjoint', 'conj') and len(e.get('a', [])) == 1:
        conj = True
        e = unwrap(e['a'][0])
    if e is not None and e['k'] == 'ref' and e['d'] in (cs, sn):
        return (sign, 'c' if e['d'] == cs else 's', conj)
    return None


def rule_rotation_apply(ck, units):
    """rotation-apply-unitary: apply_plane_rotation(dx, dy, cs, sn) multiplies (dx, dy) by a 2x2 matrix built from cs, sn.  Its second row
    must annihilate dy for the pair produced by generate_plane_rotation (sn = (dy/dx) cs), i.e. be +-(-sn, cs); the matrix is unitary
    for |cs|^2 + |sn|^2 = 1 only if the first row is then +-(adjoint(cs), adjoint(sn)).  Checked on the complex instantiation by reading
    the two linear forms off the assignments (any statement order, a temporary for the new dx)."""
    ck.rule('rotation-apply-unitary', 'apply_plane_rotation<complex>: new dy = +-(-sn dx + cs dy), new dx = +-(adjoint(cs) dx + adjoint(sn) dy) - the only unitary completion of the '
                                      'annihilating row', 1)
    done = False
    for u in units.values():
        for f in u.funcs:
            if done or f.q != 'amgcl::solver::detail::apply_plane_rotation' or f.body is None or len(f.params) != 4:
                continue
            if 'complex' not in u.type(f.decl(f.params[0]).get('ct')):
                continue
            done = True
            dx, dy, cs, sn = f.params
            forms = {}       # target decl -> {dx: entry, dy: entry}

            def linear(e):
                e = unwrap(e)
                if e is None or e['k'] not in ('bin', 'opcall') or e.get('op') not in ('+', '-'):
                    return None
                out = {}
                for term, sg in ((e['x'], 1), (e['y'], 1 if e['op'] == '+' else -1)):
                    t = unwrap(term)
                    neg = 1
                    while t is not None and t['k'] == 'un' and t['op'] == '-':
                        neg = -neg
                        t = unwrap(t['e'])
                    if t is None or t['k'] not in ('bin', 'opcall') or t.get('op') != '*':
                        return None
                    a, b = t['x'], t['y']
                    for coef, var in ((a, b), (b, a)):
                        v = unwrap(var)
                        ent = _rot_entry(f, coef, cs, sn)
                        if v is not None and v['k'] == 'ref' and v['d'] in (dx, dy) and ent is not None:
                            out[v['d']] = (ent[0] * sg * neg, ent[1], ent[2])
                return out if len(out) == 2 else None
            for n in sorted(f.nodes.values(), key=lambda t: t['i']):
                tgt = init = None
                if n['k'] in ('bin', 'opcall') and n.get('op') == '=' and unwrap(n['x'])['k'] == 'ref':
                    tgt, init = unwrap(n['x'])['d'], n['y']
                elif n['k'] == 'decl':
                    for v in n['v']:
                        if v.get('init') is not None:
                            lf = linear(v['init'])
                            if lf is not None:
                                forms[v['d']] = lf
                    continue
                if tgt is None:
                    continue
                lf = linear(init)
                if lf is not None:
                    forms[tgt] = lf
                else:
                    r = unwrap(init)
                    if r is not None and r['k'] == 'ref' and r['d'] in forms:
                        forms[tgt] = forms[r['d']]      # dx = tmp
            det = ''
            rx, ry = forms.get(dx), forms.get(dy)
            if rx is None or ry is None:
                det = 'the new dx / dy are not recognisable as linear forms of (dx, dy) with coefficients +-cs, +-sn, +-adjoint(.)'
            else:
                c, d = ry[dx], ry[dy]
                a, b = rx[dx], rx[dy]
                if not (c[1] == 's' and d[1] == 'c' and not c[2] and not d[2] and c[0] == -d[0]):
                    det = 'the new dy is not +-(-sn dx + cs dy): it does not annihilate dy for the generated rotation'
                elif not (a[1] == 'c' and b[1] == 's' and a[2] and b[2] and a[0] == b[0]):
                    det = ('the new dx is %s%s(cs) dx %s %s(sn) dy; with the annihilating row (-sn, cs) the rotation is unitary only for +-(adjoint(cs) dx + adjoint(sn) dy) '
                           '(a complex cosine arises in the |dy| > |dx| branch of generate_plane_rotation)' % ('-' if a[0] < 0 else '', 'adjoint' if a[2] else 'plain', '-' if b[0] < 0 else '+', 'adjoint' if b[2] else 'plain'))
            ck.ob('rotation-apply-unitary', 'apply_plane_rotation<complex>', f.where(), not det, det)


def rule_rotation(ck, units):
    """rotation-unitary: the plane rotation [conj(cs) conj(sn); -sn cs] generated for (dx, dy) is unitary iff |cs|^2 + |sn|^2 = 1.  With
    t = dy/dx (or dx/dy) and cs = 1/sqrt(1 + q), sn = t cs this needs q = |t|^2; for a complex scalar the plain square t*t is a different
    (complex) number.  Rule: in the instantiation of generate_plane_rotation for a complex scalar, no sqrt argument contains the product
    of a complex variable with itself (without conjugation)."""
    ck.rule('rotation-unitary', 'generate_plane_rotation<complex>: the normalisation sqrt(1 + q) uses q = |t|^2, never the complex square t*t (the least-squares solve of the GMRES '
                                'family is the residual minimiser only under unitary rotations)', 2)
    done = set()
    for u in units.values():
        for f in u.funcs:
            if f.q != 'amgcl::solver::detail::generate_plane_rotation' or f.body is None or not f.params:
                continue
            t = u.type(f.decl(f.params[0]).get('ct'))
            if 'complex' not in t or f.full in done:
                continue
            done.add(f.full)
            k = 0
            for n in sorted(f.nodes.values(), key=lambda x: x['i']):
                if n['k'] != 'call' or not (n.get('f') or '').split('::')[-1] == 'sqrt':
                    continue
                k += 1
                bad = []
                for m in walk(n):
                    if m['k'] in ('bin', 'opcall') and m.get('op') == '*' and m.get('x') is not None and m.get('y') is not None:
                        a, b = unwrap(m['x']), unwrap(m['y'])
                        if a is not None and b is not None and a['k'] == 'ref' and b['k'] == 'ref' and a['d'] == b['d'] and 'complex' in u.type(f.decl(a['d']).get('ct')):
                            bad.append(m)
                ck.ob('rotation-unitary', 'generate_plane_rotation<%s>|sqrt#%d' % (t.replace('const ', '').strip(), k), f.where(n), not bad, '' if not bad else
                      '`%s` at %s: the complex square `%s` is used where the squared modulus |%s|^2 is needed - the rotation is not unitary, '
                      'GMRES / FGMRES / LGMRES do not return the residual minimiser for complex systems' % (show(n)[:70], f.where(n), show(bad[0]), show(bad[0]['x'])))


def main(tier):
    ck = Check('C05', tier, 'C05 (clauses): Richardson iteration form, solution / residual lock-step of CG, BiCGStab, IDR(s), per-solve re-initialisation of the recurrence state.')
    T = os.path.join(ir.VERIF, 'tus')
    names = ['rt_builtin'] if tier == 'quick' else ['rt_builtin', 'vt_float', 'vt_complex', 'vt_block', 'mpi_rt']
    specs = [dict(name=n, src=os.path.join(T, n + '.cpp'), mpi=(n == 'mpi_rt')) for n in names]
    units = ir.run_units(specs, 'C05')
    ck.add_units(units, specs)
    ck.rule('richardson-form', 'one pass of the iteration loop of solver::richardson maps (x, r = f - A x) to (x + prm.damping * P r, f - A x_new) - symbolic execution over the backend primitives', 1)
    ck.rule('conj-consistency', 'inner products are conjugate-linear in the second argument: a fixed shadow vector paired with varying vectors is the second argument, and a projection '
                                'coefficient <a, b> / <c, c> has its direction c as the second argument of the numerator (complex systems get the defining coefficients, not their conjugates)', 7)
    ck.rule('A2.work-counted', 'every CFG cycle through an application of the system matrix A contains a modification of the returned iteration counter: maxiter = k stops after the '
                               'k-th step (bicgstabl: the j < L loop is counted in bulk by `iter += L`)', 8)
    ck.rule('normaliser-fresh', 'gmres, fgmres, lgmres: in axpby(inverse(s), V, 0, W) the scalar s is on every path norm(V) taken after the last write to V (unit basis vectors)', 6)
    register_x_rules(ck)
    ck.rule('B5.lock-step', 'cg, bicgstab, idrs: every x += c D is paired with a residual update -c V where V is the image of D under the (side-dependent) preconditioned operator', 3)
    ck.rule('B6.smoothing-siblings', 'idrs: the residual-smoothing block after the inner update and the one after the omega step are the same code', 1)
    seen = set()
    for uname, u in units.items():
        for name, f in c01.solver_functions({uname: u}):
            seen.add(name)
            if name in c01.LOCKSTEP:
                c01.rule_lockstep(ck, name, f)
            if name == 'richardson':
                sym_iteration(ck, u, f)
            kd = c01.counter_decl(f)
            if kd is None:
                ck.ob('A2.work-counted', 'amgcl::solver::' + name, f.where(), False, 'no unique returned iteration counter')
            else:
                c01.rule_counted(ck, name, f, kd)
            rule_normaliser(ck, name, f)
            rule_xspace(ck, name, f)
            rule_conj(ck, u, name, inline.expand(f, inline.same_class_helper(keep=('norm', 'operator()'))))
        an = Analyzer([u])
        c15.rule_B(ck, an, {uname: u}, only=lambda f: f.cls.startswith('amgcl::solver::') and f.cls.split('::')[-1] in c01.SOLVERS, floor=8)
    missing = [s for s in c01.SOLVERS if s not in seen]
    if missing:
        ck.brk('solver classes not instantiated: %s' % missing)
    ipu = ir.run_units([dict(name='ip_unit', src=os.path.join(T, 'ip_unit.cpp'))], 'C05i')
    rule_rotation(ck, dict(units, **ipu))
    rule_rotation_apply(ck, dict(units, **ipu))
    ck.assumptions += ['optimality of the iterates (CG A-norm, GMRES residual minimisation), agreement with dense reference implementations and finite termination are numerical and NOT decided',
                       'the preconditioner P and the matrix A are fixed linear operators during one solve']
    return ck.finish()
