"""C09 - results do not depend on the number of threads or their interleaving (DESIGN.md 4, C09).

A  write disjointness: in every OpenMP parallel region each write to a shared object is made exclusive
   (owned index / owned row cursor / per-thread slot / thread-private array of owned positions /
   critical, single, atomic, reduction) - anything else must be a named, reasoned exception
B  level schedules order every unknown a row kernel reads (sibling rule: gauss_seidel::parallel_sweep
   vs ilu_solve::sptr_solve)
C  barrier discipline in the level-scheduled sweeps
"""
import os

import ir
from ir import walk, unwrap, show
from accesses import Analyzer
import omp
from framework import Check

# writes the ownership rules cannot classify; each confirmed by reading (function suffix, written expression prefix)
_SCHUR = ('row i is mapped to position idx[i] inside its own class (idx[i] = pmask[i] ? np++ : nu++ is injective within the u-rows and within the p-rows), '
          'and the written block is selected by the class of row i: each thread writes only the rows ci of the blocks that belong to its own i')
EXCEPTIONS = {
    ('amgcl::mpi::coarsening::pmis::tentative_prolongation', 'dst'): 'dst/src are the row pointers stored in order[j]; j ranges over the rows of the aggregate i owned by the thread, aggregates are disjoint',
    ('amgcl::mpi::coarsening::pmis::tentative_prolongation', 'src'): 'same as dst',
    ('amgcl::coarsening::tentative_prolongation', 'P'): 'rows order[j] of one aggregate; aggregates are disjoint and each is handled by one iteration of the omp for',
}
WRITE_OPS = ('=', '+=', '-=', '*=', '/=', '|=', '&=', '^=', '%=')
NONMUTATING = ('begin', 'end', 'size', 'data', 'get', 'operator->', 'operator*', 'operator[]', 'at', 'front', 'back', 'stride', 'empty', 'rows', 'cols', 'col', 'value',
               'count', 'find', 'cbegin', 'cend', 'n_rows', 'n_cols')


def shared_writes(an, f, r, sh):
    """yield (node, lvalue, how) for every write inside region r that may touch a shared object"""
    for n in walk(r.node):
        if n['k'] == 'bin' and n['op'] in WRITE_OPS:
            yield n, n['x'], 'assignment'
        elif n['k'] == 'un' and n['op'] in ('++', '--'):
            yield n, n['e'], 'increment'
        elif n['k'] == 'call':
            for i, a in enumerate(n.get('a', [])):
                if i in n.get('mr', []):
                    au = unwrap(a)
                    if au is None or au['k'] in ('ctor', 'lit', 'lambda'):
                        continue
                    if au['k'] == 'call' and not (au.get('obj') is not None and (au.get('m') in ('get', 'data', 'begin', 'at', 'front', 'back') or au.get('op') == '()')):
                        continue   # temporary
                    eff = an.call_effect(f, n, i)
                    if eff in ('rw', 'kill', 'wo', 'elem'):
                        yield n, a, 'argument of ' + (n.get('f') or '?').split('::')[-1]
            if n.get('obj') is not None and not n.get('cm') and n.get('m') and n['m'] not in NONMUTATING and not n.get('conv') and n.get('op') != '()':
                ob = unwrap(n['obj'])
                if ob is not None and ob['k'] != 'this':
                    yield n, n['obj'], 'method ' + n['m']


def classify(an, f, r, sh, n, lv):
    """reason why this write is exclusive, or None"""
    root, idx = omp.lvalue_parts(lv)
    if root is None:
        return 'temporary'
    if root['k'] == 'ref':
        d = root['d']
        if sh.is_private(d):
            dd = f.decl(d)
            if not (dd.get('ref') or dd.get('ptr')):
                return 'private'
            if dd.get('ptr') and not idx and unwrap(lv)['k'] == 'ref':
                return 'private'      # ++p / p = q on a thread-private pointer variable moves the cursor, it writes no shared data
            init = None
            for m in walk(r.node):
                if m['k'] == 'decl':
                    for v in m['v']:
                        if v['d'] == d:
                            init = v.get('init')
                if m['k'] == 'rfor' and m.get('var') and m['var']['d'] == d:
                    init = m['range']
            if init is None:
                return 'private'
            w = sh.owned_expr(init)
            if w:
                return 'alias of ' + w
            root2, idx2 = omp.lvalue_parts(init)
            idx = idx + idx2
            if root2 is None:
                return 'private'
            if root2['k'] == 'ref' and sh.is_private(root2['d']) and not (f.decl(root2['d']).get('ref') or f.decl(root2['d']).get('ptr')):
                return 'private'
            root = root2
        if root['k'] == 'ref' and root['d'] in sh.reduction:
            return 'reduction'
    p = sh.protected(n)
    if p:
        return p
    # std::vector<bool> packs 64 elements into one word: writes to DIFFERENT owned indices are read-modify-writes of the same memory
    # location, so an owned index does not make the write exclusive
    if _bitpacked(f, root):
        return None
    for ix in idx:
        w = sh.owned_expr(ix)
        if w:
            return w
    return None


def _bitpacked(f, root):
    t = ''
    if root is not None and root.get('k') == 'ref':
        t = f.unit.type(f.decl(root['d']).get('ct'))
    elif root is not None and root.get('k') == 'mem' and isinstance(root.get('d'), int) and 0 <= root['d'] < len(f.unit.decls):
        ent = f.unit.decls[root['d']]
        t = f.unit.type(ent.get('ct') if ent.get('ct') is not None else ent.get('t'))
    return 'vector<bool' in (t or '')


def rule_A(ck, units, floor):
    ck.rule('A.exclusive-writes', 'every write to a shared object inside an OpenMP parallel region is exclusive to one thread (owned index, owned row cursor, per-thread slot, '
                                  'thread-private array of owned positions, critical / single / atomic / reduction) or is a named exception', floor)
    seen = set()
    nregions = 0
    for u in units.values():
        an = Analyzer([u])
        for f in u.funcs:
            regs = omp.regions(f)
            if not regs:
                continue
            k0 = (f.file, f.line)
            for ri, r in enumerate(regs):
                sh = omp.Sharing(an, f, r)
                bad = []
                nw = 0
                for n, lv, how in shared_writes(an, f, r, sh):
                    why = classify(an, f, r, sh, n, lv)
                    if why in ('private', 'temporary'):
                        continue
                    nw += 1
                    if why is None:
                        root, _ = omp.lvalue_parts(lv)
                        rn = root.get('n') if root is not None else '?'
                        if any(f.q.startswith(fq) and rn == v for (fq, v) in EXCEPTIONS):
                            continue
                        bad.append((n, lv, how))
                key = '%s|%s#%d' % (f.rel(), f.q, ri + 1)
                if (k0, ri) not in seen:
                    nregions += 1
                seen.add((k0, ri))
                ck.ob('A.exclusive-writes', key, f.where(r.node), not bad,
                      '' if not bad else 'in the `omp %s` region at %s: `%s` (%s at %s) is written by several threads without synchronisation: '
                                         'no index of it is tied to the thread or to the omp-for iteration' % (r.dir, f.where(r.node), show(bad[0][1])[:60], bad[0][2], f.where(bad[0][0])),
                      trivial=(nw == 0))
    ck.extra['omp_regions'] = nregions


# ------------------------------------------------------------------ B / C
def schedule_facts(f):
    """from a level-schedule constructor: which columns c of row i raise a level
    returns (set of relations among {'<', '>', '=='} under which `level` is updated from level[c], both-direction?)"""
    rel = set()
    for n in f.nodes.values():
        # l = std::max(l, level[c] + 1)  /  level[i] = max(...)
        if n['k'] == 'call' and n.get('f') == 'std::max':
            txt = [show(a) for a in n.get('a', [])]
            if any('level[' in t for t in txt):
                # which guards (continue conditions) precede it in the same loop body?
                guards = []
                for anc in f.ancestors(n):
                    if anc['k'] in ('for', 'rfor', 'while'):
                        for m in walk(anc['b']):
                            if m['k'] == 'if' and any(x['k'] == 'continue' for x in walk(m['t'])) and m['i'] < n['i']:
                                guards.append(m)
                        break
                rel.add(('update', tuple(show(g['c']) for g in guards)))
    return rel


def rule_B(ck, units):
    ck.rule('B.schedule-covers-reads', 'level-scheduled kernels: every unknown x[c] a row kernel reads (c != i) belongs to a row whose level is ordered against the row\'s own level '
                                       'by the schedule constructor', 2)
    ck.rule('C.all-levels-scheduled', 'level-scheduled kernels: the constructor creates one task per thread for every level 0 .. nlev-1 (the loop over the levels starts at 0 and is bounded by the level count)', 2)
    ck.rule('C.barrier', 'level-scheduled sweeps: an unconditional `omp barrier` closes every task of the per-thread task loop, and every thread gets one task per level', 2)
    done = set()
    for u in units.values():
        an = Analyzer([u])
        for f in u.funcs:
            cls = f.cls or ''
            # --- Gauss-Seidel: constructor of parallel_sweep<forward>
            if cls == 'amgcl::relaxation::gauss_seidel::parallel_sweep' and f.j.get('ctor'):
                direction = 'forward' if 'parallel_sweep<true>' in (f.clsfull or '') else 'backward'
                key = 'amgcl::relaxation::gauss_seidel::parallel_sweep|' + direction
                if key in done:
                    continue
                done.add(key)
                ok, det = gs_schedule(f, direction == 'forward')
                ck.ob('B.schedule-covers-reads', key, f.where(), ok, det)
            if cls == 'amgcl::relaxation::detail::ilu_solve::sptr_solve' and f.j.get('ctor'):
                lower = 'sptr_solve<true>' in (f.clsfull or '')
                key = 'amgcl::relaxation::detail::ilu_solve::sptr_solve|' + ('lower' if lower else 'upper')
                if key in done:
                    continue
                done.add(key)
                ok, det = ilu_schedule(f, lower)
                ck.ob('B.schedule-covers-reads', key, f.where(), ok, det)
            if cls in ('amgcl::relaxation::gauss_seidel::parallel_sweep', 'amgcl::relaxation::detail::ilu_solve::sptr_solve') and f.j.get('ctor'):
                key = '%s|%s' % (cls, 'T' if '<true>' in (f.clsfull or '') else 'F')
                if ('lv', key) not in done:
                    done.add(('lv', key))
                    ok, det = all_levels_scheduled(f)
                    ck.ob('C.all-levels-scheduled', key, f.where(), ok, det)
            # --- barrier discipline in the sweeps
            if (cls == 'amgcl::relaxation::gauss_seidel::parallel_sweep' and f.q.endswith('::sweep')) or \
               (cls == 'amgcl::relaxation::detail::ilu_solve::sptr_solve' and f.q.endswith('::solve')):
                key = '%s::%s|%s' % (cls, f.q.split('::')[-1], 'T' if '<true>' in (f.clsfull or '') else 'F')
                if key in done:
                    continue
                done.add(key)
                ok, det = barrier_ok(f)
                ck.ob('C.barrier', key, f.where(), ok, det)


def rule_D(ck, units):
    """a work-sharing loop with `nowait` has no barrier at its end: what its iterations write may not be touched by the code that follows
    in the same parallel region before the next barrier (explicit, or implied by a work-sharing construct without nowait / the end of
    the region), except through the same owned index by the same thread's own iterations"""
    ck.rule('D.nowait-phase', 'a shared array written inside an `omp for nowait` loop is not accessed by the statements that follow it in the parallel region before the next barrier '
                              '(a following `omp single` / `critical` / plain statement would read elements other threads are still writing)', 3)
    done = set()
    for u in units.values():
        an = Analyzer([u])
        for f in u.funcs:
            regs = omp.regions(f)
            if not regs or (f.file, f.line) in done:
                continue
            k = 0
            for r in regs:
                sh = omp.Sharing(an, f, r)
                for n in walk(r.node):
                    if n['k'] != 'omp' or not (n['dir'].endswith('for') or n['dir'] == 'for') or not any(cl.get('c') == 'nowait' for cl in n.get('clauses', [])):
                        continue
                    k += 1
                    key = '%s|%s|nowait#%d' % (f.rel(), f.q, k)
                    # shared arrays written in the loop
                    written = set()
                    for w, lv, how in shared_writes(an, f, r, sh):
                        if not any(x is w for x in walk(n)):
                            continue
                        root, idx = omp.lvalue_parts(lv)
                        if root is not None and root['k'] == 'ref' and not sh.is_private(root['d']) and idx:
                            written.add(root['d'])
                    # statements after the loop up to the next barrier: following siblings in the enclosing block; when the block is the
                    # body of a sequential loop inside the region, continue at the top of that body (next iteration)
                    bad = None
                    cur = n
                    hops = 0
                    while bad is None and hops < 3:
                        par = None
                        for a in f.ancestors(cur):
                            par = a
                            break
                        if par is None or par is r.node and par['k'] != 'block':
                            break
                        if par['k'] != 'block':
                            if par['k'] in ('for', 'while', 'do') and not (par is r.node):
                                cur = par
                                hops += 1
                                continue
                            if par['k'] == 'omp' and par is r.node:
                                break
                            cur = par
                            hops += 1
                            continue
                        stmts = par['s']
                        i0 = next(i for i, s_ in enumerate(stmts) if s_ is cur)
                        follow = stmts[i0 + 1:]
                        # wrap around when the block is a loop body inside the region
                        gp = next(iter(f.ancestors(par)), None)
                        if gp is not None and gp['k'] in ('for', 'while', 'do') and any(x is gp for x in walk(r.node)) and gp is not r.node:
                            follow = follow + stmts[:i0]
                        barrier = False
                        for s_ in follow:
                            if s_['k'] == 'omp':
                                d_ = s_['dir']
                                nw = any(cl.get('c') == 'nowait' for cl in s_.get('clauses', []))
                                touches = [x for x in walk(s_) if x['k'] == 'ref' and x['d'] in written]
                                if d_ == 'barrier':
                                    barrier = True
                                    break
                                if touches and d_ in ('single', 'master', 'critical', 'sections') :
                                    bad = (s_, touches[0])
                                    break
                                if (d_.endswith('for') or d_ in ('single', 'sections')) and not nw:
                                    if touches and not d_.endswith('for'):
                                        bad = (s_, touches[0])
                                    barrier = True
                                    break
                            else:
                                touches = [x for x in walk(s_) if x['k'] == 'ref' and x['d'] in written]
                                if touches:
                                    bad = (s_, touches[0])
                                    break
                        if bad or barrier:
                            break
                        cur = par
                        hops += 1
                        if par is r.node or any(par is x for x in [r.node.get('b')]):
                            break
                    ck.ob('D.nowait-phase', key, f.where(n), bad is None,
                          '' if bad is None else 'in %s: `%s` is written by the `omp for nowait` loop at %s and accessed at %s with no barrier in between: a thread that has finished its share '
                                                 'of the loop sees elements other threads are still writing' % (f.full[:80], bad[1]['n'], f.where(n), f.where(bad[0])), trivial=not written)
            if k:
                done.add((f.file, f.line))


def all_levels_scheduled(f):
    """the loop that creates the per-thread tasks runs over every level 0 .. nlev-1 (a row of a skipped level is never swept)"""
    pushes = [c for c in f.calls() if c.get('m') == 'push_back' and c.get('obj') is not None and 'tasks[' in show(c['obj'])]
    if not pushes:
        return False, 'no per-thread task list is filled'
    for c in pushes:
        loops = [a for a in f.ancestors(c) if a['k'] == 'for']
        if not loops:
            return False, 'tasks are not created in a loop over the levels'
        L = loops[0]
        init = L.get('init')
        iv, start = None, None
        for x in walk(init or {'k': 'x', 'i': -1}):
            if x['k'] == 'decl':
                for v in x['v']:
                    iv, start = v['d'], unwrap(v.get('init')) if v.get('init') is not None else None
        cond = unwrap(L.get('c')) if L.get('c') is not None else None
        if iv is None or start is None or start['k'] != 'lit' or start.get('v') != '0':
            return False, 'the loop over the levels at %s starts at `%s`, not at level 0: the rows of the skipped levels are never processed' % (f.where(L), show(start) if start is not None else '?')
        if cond is None or cond['k'] != 'bin' or cond['op'] != '<' or unwrap(cond['x']).get('d') != iv:
            return False, 'the loop over the levels at %s is not `lev < <number of levels>`' % f.where(L)
        bound = unwrap(cond['y'])
        import idioms
        nlev_defs = [n for n, V, E in idioms.extremum_updates(f, f.body, 'max') if bound['k'] == 'ref' and unwrap(V)['k'] == 'ref' and unwrap(V)['d'] == bound['d']
                     and idioms._plus_one(idioms._resolve_local(f, E)) is not None]
        if bound['k'] != 'ref' or not nlev_defs:
            return False, 'the bound `%s` of the loop over the levels at %s is not the level count (running maximum of level + 1)' % (show(bound), f.where(L))
    return True, ''


def row_loop(f):
    """the loop over the entries of row i in a schedule constructor and the statements that touch level[]"""
    for n in f.nodes.values():
        if n['k'] in ('for', 'rfor', 'while'):
            body = n['b']
            txt = [show(x) for x in walk(body) if x['k'] == 'idx']
            if any(t.startswith('level[') for t in txt) and not any(m['k'] in ('for', 'rfor', 'while') and m is not n and any(show(x).startswith('level[') for x in walk(m) if x['k'] == 'idx') for m in walk(body)):
                yield n


def _mentions_level(f, e):
    import idioms
    return any(x['k'] == 'idx' and show(x).startswith('level[') for x in idioms.deep_nodes(f, e))


def gs_schedule(f, forward):
    """Gauss-Seidel row i reads x[c] for EVERY c != i.  The schedule is correct iff for every such c either level[i] > level[c] is
    enforced (c swept before i) or level[c] > level[i] (c swept after i).  Columns already swept raise the running maximum l of the
    row (l = max(l, level[c] + 1), in any spelling - idioms.extremum_update); columns not yet swept are pushed: level[c] =
    max(level[c], l + 1) with the FINAL l of the row."""
    import idioms
    from effects import path_between
    owns, others, plain = [], [], []
    lvar = None
    for loop in row_loop(f):
        ups = idioms.extremum_updates(f, loop['b'], 'max')
        covered = {x['i'] for n, _, _ in ups for x in walk(n)}
        for n, V, E in ups:
            v = unwrap(V)
            if v['k'] == 'ref' and _mentions_level(f, E) and idioms._plus_one(idioms._resolve_local(f, E)) is not None:
                owns.append(n)
                lvar = v['d']
            elif v['k'] == 'idx' and show(v).startswith('level[') and idioms._plus_one(idioms._resolve_local(f, E)) is not None:
                others.append((n, E))
        for n in walk(loop['b']):
            if n['k'] == 'bin' and n['op'] == '=' and n['i'] not in covered and unwrap(n['x'])['k'] == 'ref' and _mentions_level(f, n['y']):
                plain.append(n)
    if plain:
        return False, 'the level of the row is assigned `%s` at %s (not the running maximum over all swept neighbours)' % (show(plain[0]['y'])[:50], f.where(plain[0]))
    if owns and others:
        reinit = [n for n in f.nodes.values() if n['k'] == 'decl' and any(v['d'] == lvar for v in n['v'])]
        inner = {x['i'] for w in owns for x in walk(w)}
        reinit += [n for n in f.nodes.values() if n['k'] == 'bin' and n['op'] == '=' and unwrap(n['x'])['k'] == 'ref' and unwrap(n['x'])['d'] == lvar and n['i'] not in inner]
        if f.cfg is not None and reinit:
            for o, E in others:
                if not any(x['k'] == 'ref' and x['d'] == lvar for x in walk(E)):
                    continue
                for w in owns:
                    wn = next((x for x in walk(w) if x['k'] == 'bin' and x['op'] == '='), w)
                    on = next((x for x in walk(o) if x['k'] == 'bin' and x['op'] == '='), o)
                    if path_between(f, on, wn, avoid=reinit):
                        return False, ('`%s` at %s pushes a neighbour with a level of the row that is not final: `%s` at %s can still raise it afterwards '
                                       '(the neighbour may end up on the same or an earlier level than the row that reads it)' % (show(on)[:50], f.where(on), show(wn)[:40], f.where(wn)))
        return True, ''
    if owns and not others:
        return False, ('the schedule raises level[i] only from the columns already swept (c %s i); the sweep also reads x[c] of the rows not yet swept, '
                       'whose level is never forced above level[i]: with a structurally non-symmetric row (a(i,c) != 0, a(c,i) == 0) rows i and c share a level '
                       'on different threads' % ('<' if forward else '>'))
    return False, 'no level dependency is derived from the row entries'


def ilu_schedule(f, lower):
    """sptr_solve row i reads x[c] exactly for the columns stored in its triangular factor row: EVERY stored column raises level[i], i.e.
    the running maximum l = max(l, level[col] + 1) (any spelling) is taken in a loop that runs over the whole row [ptr[i], ptr[i+1])
    without a filter"""
    import idioms
    for loop in row_loop(f):
        ups = [(n, V, E) for n, V, E in idioms.extremum_updates(f, loop['b'], 'max') if unwrap(V)['k'] == 'ref' and _mentions_level(f, E)]
        covered = {x['i'] for n, _, _ in ups for x in walk(n)}
        plain = [n for n in walk(loop['b']) if n['k'] == 'bin' and n['op'] == '=' and n['i'] not in covered and unwrap(n['x'])['k'] == 'ref' and _mentions_level(f, n['y'])
                 and f.decl(unwrap(n['x'])['d']).get('k') == 'local' and not any(v['d'] == unwrap(n['x'])['d'] for d in walk(loop['b']) if d['k'] == 'decl' for v in d['v'])]
        if plain:
            return False, 'the level of the row is assigned `%s` at %s (not the running maximum over all stored columns)' % (show(plain[0]['y'])[:50], f.where(plain[0]))
        for n, V, E in ups:
            if idioms._plus_one(idioms._resolve_local(f, E)) is None:
                return False, 'the level of the row is raised to `%s` at %s, not to the level of the neighbour plus one' % (show(E)[:50], f.where(n))
            inner = None
            for a in f.ancestors(n):
                if a is loop:
                    break
                if a['k'] in ('if', 'switch', 'cond'):
                    return False, 'the level dependency at %s is taken conditionally: some stored columns do not raise the level of the row' % f.where(n)
                if a['k'] in ('for', 'rfor', 'while'):
                    inner = a
                    break
            if inner is None:
                inner = loop if _full_row_range(f, loop) else None
                if inner is None:
                    return False, ('the level of the row is raised at %s from a single stored column, not in a loop over the whole row: a row may share a level with a row '
                                   'whose unknown it reads' % f.where(n))
            if not _full_row_range(f, inner):
                return False, 'the loop at %s that derives the level does not run over the whole row [ptr[i], ptr[i+1])' % f.where(inner)
            conts = [m for m in walk(inner['b']) if m['k'] in ('continue', 'break')]
            if conts:
                return False, 'some stored columns are skipped when the level of the row is computed'
            return True, ''
    return False, 'no level dependency is derived from the row entries'


def _row_bound(f, e):
    """(base text, index text) of X.ptr[k] / X + P[k] (pointer walk), through single-definition locals"""
    import idioms
    e = unwrap(idioms._resolve_local(f, e))
    if e is None:
        return None
    if e['k'] == 'idx' and 'ptr' in show(e['b']):
        return show(e['b']), show(e['x']).replace(' ', '')
    if e['k'] == 'bin' and e['op'] == '+':
        y = unwrap(idioms._resolve_local(f, e['y']))
        if y is not None and y['k'] == 'idx' and 'ptr' in show(y['b']):
            return show(e['x']) + '+' + show(y['b']), show(y['x']).replace(' ', '')
    return None


def _full_row_range(f, L):
    """for (j = X.ptr[i]; j < X.ptr[i+1]; ++j), a pointer walk  for (c = X.col + X.ptr[i]; c < X.col + X.ptr[i+1]; ++c)  (bounds possibly
    held in single-definition locals), or a row iterator  for (a = row_begin(A, i); a; ++a)"""
    if L['k'] != 'for' or L.get('c') is None:
        return False
    init = [v for n in walk(L['init']) if n['k'] == 'decl' for v in n['v'] if v.get('init') is not None] if L.get('init') is not None else []
    if init:
        ie = unwrap(init[0]['init'])
        if ie is not None and ie['k'] == 'call' and (ie.get('f') or '').endswith('row_begin'):
            return True       # a row iterator visits every stored entry of the row
    c = unwrap(L['c'])
    if c is None or c['k'] != 'bin' or c['op'] != '<' or unwrap(c['x'])['k'] != 'ref':
        return False
    jd = unwrap(c['x'])['d']
    lo = None
    for v in init:
        if v['d'] == jd:
            lo = _row_bound(f, v['init'])
    if lo is None:
        # the cursor is a local initialised before the loop:  for (; c < c_end; ++c)
        inits = [v['init'] for n in f.nodes.values() if n['k'] == 'decl' for v in n['v'] if v['d'] == jd and v.get('init') is not None]
        if len(inits) == 1:
            lo = _row_bound(f, inits[0])
    hi_e = c['y']
    for v in init:
        if unwrap(hi_e)['k'] == 'ref' and v['d'] == unwrap(hi_e)['d']:
            hi_e = v['init']
    hi = _row_bound(f, hi_e)
    if lo is None or hi is None or lo[0] != hi[0]:
        return False
    if hi[1] != lo[1] + '+1':
        return False
    inc = unwrap(L.get('inc')) if L.get('inc') is not None else None
    return inc is not None and inc['k'] == 'un' and inc['op'] == '++' and unwrap(inc['e'])['k'] == 'ref' and unwrap(inc['e'])['d'] == jd


def barrier_ok(f):
    regs = omp.regions(f)
    if len(regs) != 1:
        return False, 'expected one parallel region'
    r = regs[0]
    bars = [n for n in walk(r.node) if n['k'] == 'omp' and n['dir'] == 'barrier']
    if len(bars) != 1:
        return False, 'expected exactly one barrier in the task loop, found %d' % len(bars)
    b = bars[0]
    # the barrier must be a direct statement of the task loop body (unconditional), after the row loop
    loops = [a for a in f.ancestors(b) if a['k'] in ('for', 'rfor', 'while')]
    if len(loops) != 1:
        return False, 'the barrier is nested in %d loops (expected: the per-thread task loop only)' % len(loops)
    for a in f.ancestors(b):
        if a is loops[0]:
            break
        if a['k'] in ('if', 'switch', 'cond'):
            return False, 'the barrier is executed conditionally'
    rng = show(loops[0].get('range')) if loops[0]['k'] == 'rfor' else show(loops[0].get('c'))
    if 'tasks[' not in rng:
        return False, 'the loop that contains the barrier does not run over the per-thread task list (%s)' % rng
    return True, ''


def main(tier):
    ck = Check('C09', tier, 'C09 (clauses): no unsynchronised shared write in any OpenMP region; level schedules order the rows a kernel reads; barriers close every level.')
    T = os.path.join(ir.VERIF, 'tus')
    names = ['rt_builtin', 'composite'] if tier == 'quick' else ['rt_builtin', 'composite', 'vt_float', 'vt_complex', 'vt_block', 'be_block_crs', 'be_eigen', 'mpi_rt', 'ip_unit', 'io']
    names = [n for n in names if os.path.exists(os.path.join(T, n + '.cpp'))]
    specs = [dict(name=n, src=os.path.join(T, n + '.cpp'), mpi=(n == 'mpi_rt')) for n in names]
    units = ir.run_units(specs, 'C09')
    ck.add_units(units, specs)
    rule_A(ck, units, 60 if tier == 'quick' else 90)
    rule_B(ck, units)
    rule_D(ck, units)
    # hierarchies identical above the 16-thread SpGEMM switch: the row-merge kernel needs sorted operands (shared with C03)
    import c03
    c03.rule_F(ck, {k: v for k, v in units.items() if k == 'rt_builtin'})
    # "every interleaving yields the serial sweep's result" also needs the level-scheduled row kernel to be the serial one (shared with C06)
    import c06
    c06.rule_gs(ck, {k: v for k, v in units.items() if k == 'rt_builtin'})
    import c15
    cu = ir.run_units([dict(name='controls', src=os.path.join(ir.VERIF, 'tus', 'controls.cpp'))], 'C09c')
    # thread-private scratch objects (one QR per thread, reused for every aggregate of its chunk) are re-initialised per use (shared with C15)
    c15.rule_F(ck, units, cu['controls'])
    import coverage
    coverage.rule_cover(ck, units, control=cu['controls'])      # a member that is only resize()d is rebuilt without a gap (QR workspace; shared by C09 / C15 / C16)
    ck.assumptions += ['index arrays selected by an owned index (row pointers, permutations, per-row maps) are injective row maps',
                       'the run-time team size equals omp_get_max_threads() at construction of the level schedules',
                       'bitwise identity of results and summation-order effects of reductions are not decided']
    return ck.finish()
