"""C20 - the C interface (DESIGN.md 4, C20), decided on lib/amgcl.cpp.

Every C API function is evaluated symbolically: locals are replaced by their initialisers and calls of helpers
defined in lib/amgcl.cpp (also templates, functors, lambdas) are inlined, so the rules see *what is handed to the
C++ objects*, however the file is organised:

A  handle typestate: in each function family (amgcl_params_* / amgcl_precond_* / amgcl_solver_*) every
   static_cast of a handle, every `new` and every `delete` uses the family's C++ type; `prm` is always Params
B  1-based siblings: X_f hands the C++ object the same terms as X except that exactly the row-pointer and the column
   arrays are wrapped in a transform iterator i -> i - 1; val, rhs, x, n are untouched
C  the C++ types are those of the run-time interface, parameters are passed on unchanged, and each entry point
   forwards to the C++ member it stands for (apply -> amg::apply, solve -> make_solver::operator()) exactly once,
   on ranges [p, p + n) over the caller's arrays with n the size of the object
"""
import os
import re

import ir
from ir import walk, show
from framework import Check

FAMILIES = {'amgcl_params_': 'Params', 'amgcl_precond_': 'AMG', 'amgcl_solver_': 'Solver'}
EXPECT = {
    'Params': re.compile(r'^boost::property_tree::basic_ptree<std::(__cxx11::)?basic_string<char>, std::(__cxx11::)?basic_string<char>(, std::less<[^>]*>+)?>$'),
    'AMG': re.compile(r'^amgcl::amg<amgcl::backend::builtin<double(, long, long)?>, amgcl::runtime::coarsening::wrapper, amgcl::runtime::relaxation::wrapper>$'),
    'Solver': re.compile(r'^amgcl::make_solver<amgcl::amg<amgcl::backend::builtin<double(, long, long)?>, amgcl::runtime::coarsening::wrapper, amgcl::runtime::relaxation::wrapper>, '
                         r'amgcl::runtime::solver::wrapper<amgcl::backend::builtin<double(, long, long)?>(, amgcl::solver::detail::default_inner_product)?>>$'),
}
PAIRS = [('amgcl_precond_create', 'amgcl_precond_create_f'), ('amgcl_solver_create', 'amgcl_solver_create_f'), ('amgcl_solver_solve_mtx', 'amgcl_solver_solve_mtx_f')]
# entry point -> (C++ member it stands for, class of the object)
FORWARD = {
    'amgcl_precond_apply': ('apply', 'AMG', False),
    'amgcl_solver_solve': ('operator()', 'Solver', False),
    'amgcl_solver_solve_mtx': ('operator()', 'Solver', True),
    'amgcl_solver_solve_mtx_f': ('operator()', 'Solver', True),
}


def capi(u):
    return {f.q: f for f in u.funcs if f.file.endswith('lib/amgcl.cpp')}


def kind_of(u, t):
    t = t.replace(' *', '').replace('*', '').replace('const ', '').strip()
    for k, rx in EXPECT.items():
        if rx.match(t):
            return k
    return None


# ------------------------------------------------------------------ symbolic evaluation with inlining
class Ev:
    """terms:
       ('param', name) ('lit', v) ('var', name) ('+', base, sorted other summands...) ('idx', base, index)
       ('shift1', t) transform iterator i -> i - 1 over t; ('xform', t) any other transform iterator
       ('range', b, e) ('tuple', ...) ('new', kind-or-type, args...) ('cast', kind-or-type, t) ('deref', t)
       ('mcall', member, class, obj, args...) ('call', name, args...) ('ite', cond, a, b) ('assign', lhs, rhs) ('mem', name, obj)
       ('delete', t) ('unknown', text)"""

    def __init__(self, u, fs):
        self.u = u
        self.fs = fs
        self.file = next(iter(fs.values())).file if fs else None
        self.events = []     # (kind, type kind/name, operand term, where)

    def strip(self, e):
        while e is not None:
            k = e['k']
            if k in ('defarg', 'definit'):
                e = e['e']
            elif k == 'call' and e.get('conv'):
                e = e['obj']
            elif k == 'cast' and e.get('ck') != 'static':
                e = e['e']
            elif k == 'ctor' and len(e.get('a', [])) == 1 and not e.get('f', '').split('::')[-1]:
                e = e['a'][0]
            else:
                break
        return e

    def minus_one(self, fn, depth=0):
        """is fn a callable i -> i - 1 (lambda, functor object, function)?"""
        fn = self.strip(fn)
        if fn is None or depth > 3:
            return False
        body = None
        if fn['k'] == 'lambda':
            body = fn['b']
        else:
            # functor temporary / object: find operator() of its class; function reference: its body
            g = None
            if fn['k'] in ('ctor', 'tmp', 'zeroinit', 'call') and ('ct' in fn or 't' in fn):
                tname = self.u.type(fn.get('ct', fn.get('t'))).replace('const ', '').strip()
                for h in self.u.funcs:
                    if h.cls and (h.cls == tname or tname.endswith('::' + h.cls.split('::')[-1]) or h.cls.endswith(tname)) and h.q.endswith('::operator()'):
                        g = h
            elif fn['k'] == 'ref':
                g = next((h for h in self.u.funcs if h.id == fn.get('d') or h.q == fn.get('n')), None)
            if g is not None:
                body = g.body
        if body is None:
            return False
        rets = [r for r in walk(body) if r['k'] == 'ret' and r.get('e') is not None]
        if len(rets) != 1:
            return False
        e = self.strip(rets[0]['e'])
        return (e is not None and e['k'] == 'bin' and e['op'] == '-' and self.strip(e['x'])['k'] == 'ref'
                and self.strip(e['y'])['k'] == 'lit' and self.strip(e['y']).get('v') == '1')

    def add(self, a, b):
        items = []
        for t in (a, b):
            if t[0] == '+':
                items.extend(t[1:])
            else:
                items.append(t)
        return ('+', items[0]) + tuple(sorted(items[1:], key=repr))

    def term(self, f, e, env, eff, depth=0):
        e = self.strip(e)
        if e is None:
            return ('unknown', 'null')
        k = e['k']
        T = lambda x: self.term(f, x, env, eff, depth)
        if k == 'ref':
            d = e['d']
            if d in env:
                return env[d]
            pi = f.param_index(d)
            if pi is not None:
                return ('param', f.decl(d)['n'])
            return ('var', e['n'])
        if k == 'lit':
            return ('lit', e.get('v'))
        if k == 'this':
            return ('this',)
        if k == 'cast':       # explicit static_cast
            t = self.u.type(e['ct']) if 'ct' in e else self.u.type(e.get('t'))
            inner = T(e['e'])
            if t.startswith('void'):
                return inner
            kd = kind_of(self.u, t) or t
            if t.rstrip().endswith('*'):
                self.events.append(('cast', kd, inner, f.where(e)))
                return ('cast', kd, inner)
            return inner     # arithmetic conversions
        if k == 'new':
            t = self.u.type(e['ct']) if 'ct' in e else '?'
            kd = kind_of(self.u, t) or t
            init = e.get('init')
            args = ()
            if init is not None:
                ii = init
                if ii['k'] == 'ctor' or ii.get('a') is not None:
                    args = tuple(T(a) for a in ii.get('a', []) if a is not None and a.get('k') != 'defarg')
                else:
                    args = (T(ii),)
            self.events.append(('new', kd, None, f.where(e)))
            return ('new', kd) + args
        if k == 'delete':
            t = self.u.type(e['ct']) if 'ct' in e else '?'
            kd = kind_of(self.u, t) or t
            op = T(e['e'])
            self.events.append(('delete', kd, op, f.where(e)))
            return ('delete', op)
        if k == 'un':
            if e['op'] == '*':
                return ('deref', T(e['e']))
            if e['op'] == '&':
                x = T(e['e'])
                return x[1] if x[0] == 'deref' else ('addr', x)
            return ('un', e['op'], T(e['e']))
        if k == 'idx':
            return ('idx', T(e['b']), T(e['x']))
        if k == 'mem':
            b = T(e['b']) if e.get('b') is not None else ('this',)
            if e.get('arrow') and b[0] != 'deref':
                b = ('deref', b)
            return ('mem', e['n'], b)
        if k == 'bin':
            if e['op'] == '+':
                return self.add(T(e['x']), T(e['y']))
            if e['op'] == '=':
                return ('assign', T(e['x']), T(e['y']))
            return ('bin', e['op'], T(e['x']), T(e['y']))
        if k == 'cond':
            return ('ite', T(e['c']), T(e['x']), T(e['y']))
        if k == 'lambda':
            return ('lambda', 'minus1' if self.minus_one(e) else '?')
        if k in ('ctor', 'tmp'):
            args = [a for a in e.get('a', []) if a is not None and a.get('k') != 'defarg']
            if len(args) == 1:
                return T(args[0])       # conversion of a single value (ptree -> params, const char* -> path): transparent
            return ('ctor', self.u.type(e.get('ct', e.get('t')))[:60]) + tuple(T(a) for a in args)
        if k == 'call':
            name = (e.get('f') or '')
            short = name.split('::')[-1]
            args = [a for a in e.get('a', []) if a is not None and a.get('k') != 'defarg']
            if short == 'make_transform_iterator' and len(args) == 2:
                base = T(args[0])
                return ('shift1', base) if self.minus_one(args[1]) else ('xform', base)
            if short == 'make_iterator_range' and len(args) == 2:
                return ('range', T(args[0]), T(args[1]))
            if short == 'make_tuple':
                return ('tuple',) + tuple(T(a) for a in args)
            if short == 'data' and e.get('obj') is not None and not args:
                return ('data', T(e['obj']))
            g = self.u.by_id.get(e.get('fd')) if 'fd' in e else None
            if g is not None and g.body is not None and g.file == self.file and depth < 6 and e.get('obj') is None:
                # inline a helper (or another entry point) of lib/amgcl.cpp
                env2 = {}
                for i, a in enumerate(args):
                    if i < len(g.params):
                        env2[g.params[i]] = T(a)
                sub_eff, ret = self.block(g, g.body.get('s', []), env2, depth + 1)
                eff.extend(sub_eff)
                return ret if ret is not None else ('void',)
            if e.get('obj') is not None:
                obj = T(e['obj'])
                if obj[0] in ('cast', 'new'):      # member call through a pointer
                    obj = ('deref', obj)
                cls = '::'.join(name.split('::')[:-1])
                return ('mcall', e.get('m') or short, cls, obj) + tuple(T(a) for a in args)
            return ('call', name) + tuple(T(a) for a in args)
        return ('unknown', show(e)[:60])

    def decl(self, f, s, env, eff, depth):
        for v in s['v']:
            if v.get('init') is not None:
                t = self.term(f, v['init'], env, eff, depth)
                env[v['d']] = t
                if v.get('bind'):
                    # auto [a, b] = e;  the call is evaluated once (an effect), the names denote its components
                    eff.append(t)
                    for i, b_ in enumerate(v['bind']):
                        env[b_['d']] = ('get', i, ('result-of', t[1] if len(t) > 1 else '?'))
            else:
                env[v['d']] = ('var', v.get('n', '?'))

    def block(self, f, stmts, env, depth=0):
        """-> (effects, return term or None)"""
        eff = []
        for si, s in enumerate(stmts):
            k = s['k']
            if k == 'block':
                e2, r2 = self.block(f, s.get('s', []) + stmts[si + 1:], env, depth)
                return eff + e2, r2
            if k == 'decl':
                self.decl(f, s, env, eff, depth)
                continue
            if k == 'ret':
                return eff, (self.term(f, s['e'], env, eff, depth) if s.get('e') is not None else ('void',))
            if k == 'if':
                if s.get('init') is not None and s['init'].get('k') == 'decl':
                    self.decl(f, s['init'], env, eff, depth)       # if (auto *p = ...; p)
                c = self.term(f, s['c'], env, eff, depth)
                rest = stmts[si + 1:]
                t_st = [s['t']] if s.get('t') is not None else []
                e_st = [s['e']] if s.get('e') is not None else []
                e1, r1 = self.block(f, t_st + rest, dict(env), depth)
                e2, r2 = self.block(f, e_st + rest, dict(env), depth)
                if e1 == e2 and r1 == r2:
                    return eff + e1, r1
                eff.append(('ite', c, tuple(e1), tuple(e2)))
                if r1 is None and r2 is None:
                    return eff, None
                return eff, ('ite', c, r1, r2)
            if k in ('for', 'while', 'do', 'rfor', 'try', 'switch'):
                eff.append(('stmt', k, f.where(s)))
                continue
            if k in ('null', 'empty'):
                continue
            t = self.term(f, s, env, eff, depth)
            if t != ('void',):
                eff.append(t)
        return eff, None

    def run(self, f):
        self.events = []
        eff, ret = self.block(f, f.body.get('s', []), {}, 0)
        return eff, ret, list(self.events)


def subterms(t):
    if isinstance(t, tuple):
        yield t
        for x in t:
            for y in subterms(x):
                yield y
    elif isinstance(t, list):
        for x in t:
            for y in subterms(x):
                yield y


def tshow(t, lim=140):
    def s(t):
        if not isinstance(t, tuple):
            return str(t)
        h = t[0]
        if h == 'param' or h == 'var':
            return t[1]
        if h == 'lit':
            return str(t[1])
        if h == '+':
            return ' + '.join(s(x) for x in t[1:])
        if h == 'idx':
            return '%s[%s]' % (s(t[1]), s(t[2]))
        if h == 'range':
            return '[%s, %s)' % (s(t[1]), s(t[2]))
        if h == 'shift1':
            return 'shift1(%s)' % s(t[1])
        if h == 'tuple':
            return '(%s)' % ', '.join(s(x) for x in t[1:])
        if h == 'cast':
            return '(%s*)%s' % (t[1] if len(str(t[1])) < 12 else '..', s(t[2]))
        if h == 'deref':
            return '*' + s(t[1])
        if h == 'new':
            return 'new %s(%s)' % (t[1] if len(str(t[1])) < 12 else '..', ', '.join(s(x) for x in t[2:]))
        if h == 'mcall':
            return '%s.%s(%s)' % (s(t[3]), t[1], ', '.join(s(x) for x in t[4:]))
        if h == 'call':
            return '%s(%s)' % (t[1].split('::')[-1], ', '.join(s(x) for x in t[2:]))
        return '%s(%s)' % (h, ', '.join(s(x) for x in t[1:]))
    r = s(t)
    return r if len(r) <= lim else r[:lim] + '..'


def unshift(t):
    if isinstance(t, tuple):
        if t and t[0] == 'shift1':
            return unshift(t[1])
        return tuple(unshift(x) for x in t)
    if isinstance(t, list):
        return [unshift(x) for x in t]
    return t


def consumers(eff, ret):
    """the terms handed to C++ objects: constructions and member calls on handle objects"""
    out = []
    for t in subterms([eff, ret]):
        if t and t[0] == 'new':
            out.append(t)
        elif t and t[0] == 'mcall' and any(x and x[0] == 'cast' for x in subterms(t[3])):
            out.append(t)
    # drop terms that are sub-terms of an already collected term (size() inside a range etc. stay: they are part of the argument)
    return sorted(set(out), key=repr)


def handle_param(t):
    """the handle parameter a cast term is applied to"""
    for x in subterms(t):
        if x and x[0] == 'param':
            return x[1]
    return None


# ------------------------------------------------------------------ rules
def rule_A(ck, u, fs, R):
    ck.rule('A.handle-typestate', 'every cast of a handle, every new and every delete reached from a C API function (helpers of lib/amgcl.cpp inlined) uses the C++ type of the function\'s '
                                  'family; prm is always cast to Params; create allocates, destroy deletes the cast handle', 17)
    for name, f in sorted(fs.items()):
        fam = [v for k, v in FAMILIES.items() if name.startswith(k)]
        if not fam:
            continue
        fam = fam[0]
        eff, ret, events = R[name]
        dets = []
        for kind, kd, op, where in events:
            if kind == 'cast':
                pname = handle_param(op)
                if pname is None:
                    continue
                want = 'Params' if pname == 'prm' else fam
                if kd != want:
                    dets.append('handle `%s` is cast to %s at %s (expected %s)' % (pname, str(kd)[:50], where, want))
            elif kind == 'new' and kd != fam:
                dets.append('creates a %s at %s (expected %s)' % (str(kd)[:50], where, fam))
            elif kind == 'delete':
                if kd != fam:
                    dets.append('deletes a %s at %s (expected %s)' % (str(kd)[:50], where, fam))
                hp = name.split('_')[1] == 'params' and 'prm' or 'handle'
                if not (op and op[0] == 'cast' and op[2] == ('param', hp)):
                    dets.append('deletes `%s`, not the cast handle, at %s' % (tshow(op), where))
        if name.endswith('_create') or name.endswith('_create_f'):
            if not any(e[0] == 'new' for e in events):
                dets.append('create does not allocate the object')
            elif not any(t and t[0] == 'new' for t in subterms(ret)):
                dets.append('create does not return the object it allocates')
        if name.endswith('_destroy') and not any(e[0] == 'delete' for e in events):
            dets.append('destroy does not delete the object')
        ck.ob('A.handle-typestate', name, f.where(), not dets, '; '.join(dets[:3]), trivial=(not events))


def crs_tuple_ok(t, n_term, ptr, col, val, shifted):
    """t = (n, [P, P + n + 1), [C, C + ptr[n]), [V, V + ptr[n])) with P, C the (shifted) row-pointer / column arrays"""
    if not (t and t[0] == 'tuple' and len(t) == 5):
        return 'the matrix is not a 4-tuple (n, ptr range, col range, val range)'
    P = ('shift1', ('param', ptr)) if shifted else ('param', ptr)
    C = ('shift1', ('param', col)) if shifted else ('param', col)
    V = ('param', val)
    nnz = ('idx', ('param', ptr), n_term)
    ev = Ev.add
    want = ('tuple', n_term,
            ('range', P, ev(None, ev(None, P, n_term), ('lit', '1'))),
            ('range', C, ev(None, C, nnz)),
            ('range', V, ev(None, V, nnz)))
    if t == want:
        return None
    for i, role in ((1, 'size'), (2, 'row pointer range'), (3, 'column range'), (4, 'value range')):
        if t[i] != want[i]:
            return 'the %s of the matrix tuple is `%s`, expected `%s`' % (role, tshow(t[i], 90), tshow(want[i], 90))
    return 'matrix tuple differs'


def rule_B(ck, u, fs, R):
    ck.rule('B.one-based-siblings', 'each _f entry point hands the C++ object the same terms as its 0-based sibling except that exactly the row-pointer and the column arrays are wrapped '
                                    'in a transform iterator i -> i - 1 (val, rhs, x, n untouched); 0-based entry points shift nothing', 4)
    for a, b in PAIRS:
        if a not in fs or b not in fs:
            ck.ob('B.one-based-siblings', b, 'lib/amgcl.cpp', False, 'entry point missing')
            continue
        fa, fb = fs[a], fs[b]
        ea, ra, _ = R[a]
        eb, rb, _ = R[b]
        dets = []
        ca, cb = consumers(ea, ra), consumers(eb, rb)
        if any(t[0] in ('shift1', 'xform') for t in subterms(ca)):
            ck.ob('B.one-based-siblings', a, fa.where(), False, 'the 0-based entry point shifts indices')
        else:
            ck.ob('B.one-based-siblings', a, fa.where(), True)
        if any(t[0] == 'xform' for t in subterms(cb)):
            dets.append('a transform iterator does not subtract exactly 1')
        pb = [fb.decl(d)['n'] for d in fb.params]
        shifted = sorted({t[1][1] for t in subterms(cb) if t[0] == 'shift1' and t[1][0] == 'param'})
        # roles from the matrix tuple of the 0-based sibling
        tups = [t for t in subterms(ca) if t[0] == 'tuple' and len(t) == 5]
        want = []
        if tups:
            for pos in (2, 3):
                rng = tups[0][pos]
                if rng[0] == 'range' and rng[1][0] == 'param':
                    want.append(rng[1][1])
        if not tups or len(want) != 2:
            ck.brk('B.one-based-siblings: cannot find the CRS tuple (n, [ptr..), [col..), [val..)) handed to the C++ object in %s' % a)
            continue
        if shifted != sorted(want):
            dets.append('arrays shifted by one: %s (expected exactly %s)' % (shifted, sorted(want)))
        # every iterator built on ptr / col must be the shifted one (raw uses are allowed only as subscripted values, e.g. ptr[n])
        for t in subterms(cb):
            if t[0] == 'range':
                for side in (t[1], t[2]):
                    base = side[1] if side[0] == '+' else side
                    if base[0] == 'param' and base[1] in want:
                        dets.append('the range `%s` of the 1-based entry point is built from the unshifted array' % tshow(t, 80))
        if unshift(cb) != ca:
            d1 = [t for t in unshift(cb) if t not in ca]
            dets.append('after removing the index shift the C++ object is constructed / called with `%s`, %s with `%s`' % (
                tshow(d1[0], 110) if d1 else '(nothing)', a, tshow(([t for t in ca if t not in unshift(cb)] or ca or [('none',)])[0], 110)))
        ck.ob('B.one-based-siblings', b, fb.where(), not dets, '; '.join(dict.fromkeys(dets)))
    # amgcl_solver_solve_f must come to the same call as amgcl_solver_solve
    if 'amgcl_solver_solve_f' in fs and 'amgcl_solver_solve' in fs:
        ea, ra, _ = R['amgcl_solver_solve']
        eb, rb, _ = R['amgcl_solver_solve_f']
        ok = consumers(ea, ra) == consumers(eb, rb) and bool(consumers(ea, ra))
        ck.ob('B.one-based-siblings', 'amgcl_solver_solve_f', fs['amgcl_solver_solve_f'].where(), ok, '' if ok else 'does not come to the same call of the solver as amgcl_solver_solve(handle, rhs, x)')


def rule_C(ck, u, fs, R):
    ck.rule('C.runtime-types', 'AMG / Solver are the types of the C++ run-time interface; the object is constructed from the CRS tuple over the caller\'s arrays, with *static_cast<Params*>(prm) '
                               'exactly when prm is non-null; typed setters forward name and value to ptree::put', 7)
    for name in ('amgcl_precond_create', 'amgcl_precond_create_f', 'amgcl_solver_create', 'amgcl_solver_create_f'):
        if name not in fs:
            continue
        f = fs[name]
        eff, ret, events = R[name]
        want = 'AMG' if 'precond' in name else 'Solver'
        dets = []
        pn = [f.decl(d)['n'] for d in f.params]
        news = [t for t in subterms([eff, ret]) if t and t[0] == 'new']
        if not news or any(t[1] != want for t in news):
            dets.append('constructs %s' % ([str(t[1])[:60] for t in news],))
        if not (ret and ret[0] == 'ite' and ret[1] in (('param', pn[4]), ('cast', 'Params', ('param', pn[4])))):
            dets.append('the choice between construction with and without parameters is not `if (%s)`' % pn[4])
        else:
            w, wo = ret[2], ret[3]
            if not (w and w[0] == 'new' and len(w) == 4 and w[3] == ('deref', ('cast', 'Params', ('param', pn[4])))):
                dets.append('with parameters the object is constructed as `%s`: prm is not passed as *static_cast<Params*>(prm) unchanged' % tshow(w, 100))
            if not (wo and wo[0] == 'new' and len(wo) == 3):
                dets.append('without parameters the object is constructed as `%s`' % tshow(wo, 100))
            if w and wo and len(w) > 2 and len(wo) > 2 and w[2] != wo[2]:
                dets.append('the two constructions use different matrices')
            if w and len(w) > 2:
                bad = crs_tuple_ok(w[2], ('param', pn[0]), pn[1], pn[2], pn[3], name.endswith('_f'))
                if bad:
                    dets.append(bad)
        ck.ob('C.runtime-types', name, f.where(), not dets, '; '.join(dets[:2]))
    for name in ('amgcl_params_seti', 'amgcl_params_setf', 'amgcl_params_sets'):
        if name not in fs:
            continue
        f = fs[name]
        eff, ret, events = R[name]
        pn = [f.decl(d)['n'] for d in f.params]
        want = ('mcall', 'put', None, ('deref', ('cast', 'Params', ('param', pn[0]))), ('param', pn[1]), ('param', pn[2]))
        got = [t for t in eff if t and t[0] == 'mcall']
        ok = len(eff) == 1 and len(got) == 1 and got[0][:2] == want[:2] and got[0][3:] == want[3:]
        ck.ob('C.runtime-types', name, f.where(), ok, '' if ok else 'does not forward (name, value) to ptree::put unchanged: `%s`' % tshow(tuple(eff), 100))

    if 'amgcl_params_read_json' in fs:
        f = fs['amgcl_params_read_json']
        eff, ret, events = R['amgcl_params_read_json']
        pn = [f.decl(d)['n'] for d in f.params]
        want_args = (('param', pn[1]), ('deref', ('cast', 'Params', ('param', pn[0]))))
        calls = [t for t in eff if t and t[0] == 'call' and t[1].split('::')[-1] == 'read_json']
        ok = len(eff) == 1 and len(calls) == 1 and tuple(calls[0][2:4]) == want_args
        ck.ob('C.runtime-types', 'amgcl_params_read_json', f.where(), ok, '' if ok else 'is not exactly read_json(fname, *static_cast<Params*>(prm)) (the tree is replaced by the file, as in the C++ interface): `%s`' % tshow(tuple(eff), 120))
    ck.rule('C.forward', 'amgcl_precond_apply performs exactly amg.apply([rhs, rhs + n), [x, x + n)) and amgcl_solver_solve* exactly solver([A,] [rhs, rhs + n), [x, x + n)) on the cast handle, '
                         'n being the size of that object; nothing else touches rhs or x', 4)
    for name, (member, fam, with_matrix) in FORWARD.items():
        if name not in fs:
            continue
        f = fs[name]
        eff, ret, events = R[name]
        pn = [f.decl(d)['n'] for d in f.params]
        obj = ('deref', ('cast', fam, ('param', pn[0])))
        calls = [t for t in subterms([eff, ret]) if t and t[0] == 'mcall' and t[1] == member and any(x == obj for x in subterms(t[3]))]
        dets = []
        if len(set(calls)) != 1:
            others = sorted({t[1] for t in subterms([eff, ret]) if t and t[0] == 'mcall' and any(x == obj for x in subterms(t[3]))})
            dets.append('expected exactly one call of %s::%s on the handle, found %d (members called on it: %s)' % (fam, member, len(set(calls)), others))
        else:
            c = calls[0]
            args = c[4:]
            rhs_n, x_n = (pn[4], pn[5]) if with_matrix else (pn[1], pn[2])
            # n: size of the object
            sizes = {t for t in subterms(c) if t and ((t[0] == 'mcall' and t[1] in ('size',) and any(x == obj for x in subterms(t[3])))
                                                      or (t[0] == 'call' and t[1].endswith('backend::rows') and any(x == obj for x in subterms(t))))}
            if len(sizes) != 1:
                dets.append('the length of the ranges is not the size of the object (%s)' % ([tshow(s_) for s_ in sizes] or 'none'))
            else:
                n_term = next(iter(sizes))
                want_rhs = ('range', ('param', rhs_n), Ev.add(None, ('param', rhs_n), n_term))
                want_x = ('range', ('param', x_n), Ev.add(None, ('param', x_n), n_term))
                exp = []
                if with_matrix:
                    bad = crs_tuple_ok(args[0] if args else None, n_term, pn[1], pn[2], pn[3], name.endswith('_f'))
                    if bad:
                        dets.append(bad)
                    exp_args = args[1:]
                else:
                    exp_args = args
                if tuple(exp_args) != (want_rhs, want_x):
                    dets.append('the call is %s(%s), expected (%s, %s)' % (member, ', '.join(tshow(a, 60) for a in exp_args), tshow(want_rhs, 60), tshow(want_x, 60)))
            # nothing else may touch the matrix handed to the solver (a sort or scaling of a copy changes the summation order / the operator)
            if with_matrix and args:
                for t in eff:
                    for s_ in subterms(t):
                        if s_ and s_[0] in ('mcall', 'call') and s_ != c and not any(y == c for y in subterms(s_)) and any(y == args[0] for y in subterms(s_)) and args[0][0] == 'tuple':
                            dets.append('the matrix is also passed to `%s` before the solve: the C++ interface is called with the caller\'s arrays as they are' % tshow(s_, 60))
            # nothing else may touch x / rhs: any effect that mentions the output array outside that call
            xname = pn[5] if with_matrix else pn[2]
            for t in eff:
                for s_ in subterms(t):
                    if s_ and s_[0] in ('mcall', 'call') and s_ != c and not any(y == c for y in subterms(s_)) and any(y == ('param', xname) for y in subterms(s_)) \
                            and not any(s_ == y for y in subterms(c)):
                        dets.append('`%s` also touches the output array' % tshow(s_, 80))
        ck.ob('C.forward', name, f.where(), not dets, '; '.join(dict.fromkeys(dets)))


def main(tier):
    ck = Check('C20', tier, 'C20 (clauses): handle typestate of the C API, 0-/1-based sibling agreement, run-time interface types, forwarding to the C++ members.')
    T = os.path.join(ir.VERIF, 'tus')
    specs = [dict(name='capi', src=os.path.join(T, 'capi.cpp'), extra=['-I' + os.path.join(ir.REPO, 'lib')])]
    units = ir.run_units(specs, 'C20')
    ck.add_units(units, specs)
    u = units['capi']
    fs = capi(u)
    api = {k: v for k, v in fs.items() if k.startswith('amgcl_')}
    if len(api) < 19:
        ck.brk('only %d C API functions found in lib/amgcl.cpp (expected 19)' % len(api))
    ev = Ev(u, fs)
    R = {name: ev.run(f) for name, f in api.items()}
    rule_A(ck, u, api, R)
    rule_B(ck, u, api, R)
    rule_C(ck, u, api, R)
    ck.assumptions += ['bitwise equality of results with the C++ interface follows from identical types and arguments only together with determinism (C10 / C15)',
                       'the iterator ranges built by the _f entry points end one element past the arrays (ptr[n] is nnz + 1 in 1-based storage); consumers never read the range ends (not decided)',
                       'helpers are inlined only when they are defined in lib/amgcl.cpp; loops inside entry points are opaque (reported as a difference between siblings)']
    return ck.finish()
