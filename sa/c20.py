"""C20 - the C interface (DESIGN.md 4, C20), decided on lib/amgcl.cpp.

A  handle typestate: in each function family (amgcl_params_* / amgcl_precond_* / amgcl_solver_*) every
   static_cast of a handle, every `new` and every `delete` uses the family's C++ type; `prm` is always Params
B  1-based siblings: X_f equals X except that exactly ptr and col are wrapped in a transform iterator
   i -> i - 1; val, rhs, x, n are untouched; amgcl_solver_solve_f delegates to amgcl_solver_solve
C  the C++ types are those of the run-time interface, parameters are passed on unchanged
"""
import json
import os
import re

import ir
from ir import walk, unwrap, show
import c02
from framework import Check

FAMILIES = {'amgcl_params_': 'Params', 'amgcl_precond_': 'AMG', 'amgcl_solver_': 'Solver'}
EXPECT = {
    'Params': re.compile(r'^boost::property_tree::basic_ptree<std::(__cxx11::)?basic_string<char>, std::(__cxx11::)?basic_string<char>(, std::less<[^>]*>+)?>$'),
    'AMG': re.compile(r'^amgcl::amg<amgcl::backend::builtin<double(, long, long)?>, amgcl::runtime::coarsening::wrapper, amgcl::runtime::relaxation::wrapper>$'),
    'Solver': re.compile(r'^amgcl::make_solver<amgcl::amg<amgcl::backend::builtin<double(, long, long)?>, amgcl::runtime::coarsening::wrapper, amgcl::runtime::relaxation::wrapper>, '
                         r'amgcl::runtime::solver::wrapper<amgcl::backend::builtin<double(, long, long)?>(, amgcl::solver::detail::default_inner_product)?>>$'),
}
PAIRS = [('amgcl_precond_create', 'amgcl_precond_create_f'), ('amgcl_solver_create', 'amgcl_solver_create_f'), ('amgcl_solver_solve_mtx', 'amgcl_solver_solve_mtx_f')]


def capi(u):
    return {f.q: f for f in u.funcs if f.file.endswith('lib/amgcl.cpp')}


def kind_of(u, t):
    t = t.replace(' *', '').replace('*', '').strip()
    for k, rx in EXPECT.items():
        if rx.match(t):
            return k
    return None


def rule_A(ck, u, fs):
    ck.rule('A.handle-typestate', 'every cast of a handle, every new and every delete in a C API function uses the C++ type of the function\'s family; prm is always cast to Params', 17)
    for name, f in sorted(fs.items()):
        fam = [v for k, v in FAMILIES.items() if name.startswith(k)]
        if not fam:
            continue
        fam = fam[0]
        dets = []
        n_ops = 0
        for n in f.nodes.values():
            if n['k'] == 'cast' and n.get('ck') == 'static' and 'ct' in n:
                t = u.type(n['ct'])
                src = unwrap(n['e'])
                if t.startswith('void'):
                    continue
                # which handle parameter is cast?
                pname = src['n'] if src['k'] == 'ref' else None
                if pname is None:
                    continue
                n_ops += 1
                want = 'Params' if pname == 'prm' else fam
                got = kind_of(u, t)
                if got != want:
                    dets.append('handle `%s` is cast to %s at %s (expected %s)' % (pname, got or t[:50], f.where(n), want))
            elif n['k'] == 'new' and 'ct' in n:
                n_ops += 1
                got = kind_of(u, u.type(n['ct']))
                if got != fam:
                    dets.append('creates a %s at %s (expected %s)' % (got or u.type(n['ct'])[:50], f.where(n), fam))
            elif n['k'] == 'delete' and 'ct' in n:
                n_ops += 1
                got = kind_of(u, u.type(n['ct']))
                if got != fam:
                    dets.append('deletes a %s at %s (expected %s)' % (got or u.type(n['ct'])[:50], f.where(n), fam))
        if name.endswith('_create') or name.endswith('_create_f'):
            if not any(n['k'] == 'new' for n in f.nodes.values()):
                dets.append('create does not allocate the object')
        if name.endswith('_destroy') and not any(n['k'] == 'delete' for n in f.nodes.values()):
            dets.append('destroy does not delete the object')
        ck.ob('A.handle-typestate', name, f.where(), not dets, '; '.join(dets[:3]), trivial=(n_ops == 0))


def transform_locals(f):
    """{local decl: (wrapped parameter index, lambda ok)} for  auto p = boost::make_transform_iterator(P, [](int i){ return i - 1; })"""
    out = {}
    for n in f.nodes.values():
        if n['k'] != 'decl':
            continue
        for v in n['v']:
            init = unwrap(v.get('init')) if v.get('init') is not None else None
            if init is not None and init['k'] == 'call' and (init.get('f') or '').endswith('make_transform_iterator') and len(init.get('a', [])) == 2:
                src = unwrap(init['a'][0])
                lam = None
                for x in walk(init['a'][1]):
                    if x['k'] == 'lambda':
                        lam = x
                ok = False
                if lam is not None:
                    rets = [r for r in walk(lam['b']) if r['k'] == 'ret']
                    if len(rets) == 1:
                        e = unwrap(rets[0]['e'])
                        ok = e['k'] == 'bin' and e['op'] == '-' and unwrap(e['x'])['k'] == 'ref' and unwrap(e['y'])['k'] == 'lit' and unwrap(e['y'])['v'] == '1'
                if src['k'] == 'ref' and f.param_index(src['d']) is not None:
                    out[v['d']] = (f.param_index(src['d']), ok, n)
    return out


def norm_with(f, node, subst, drop):
    """normalised tree of node with local transform iterators replaced by the parameter they wrap"""
    pmap = {}

    def norm(n):
        if n is None:
            return None
        if isinstance(n, list):
            return [norm(x) for x in n if not (isinstance(x, dict) and x.get('i') in drop)]
        if not isinstance(n, dict):
            return n
        if n.get('k') == 'ref' and n.get('d') in subst:
            return {'k': 'ref', 'd': 'p%d' % subst[n['d']]}
        out = {}
        for k, v in n.items():
            if k in ('i', 'l', 'lf', 'fd', 'mr', 'cm', 't', 'ct', 'rt'):
                continue
            if k == 'd' and isinstance(v, int):
                pi = f.param_index(v)
                if pi is not None:
                    out[k] = 'p%d' % pi
                else:
                    if v not in pmap:
                        pmap[v] = 'v%d' % len(pmap)
                    out[k] = pmap[v]
                continue
            if k == 'n' and n.get('k') == 'ref':
                continue
            if k == 'f' and n.get('k') in ('bin', 'un', 'idx'):
                continue   # built-in vs overloaded operator (pointer vs transform iterator): the operator itself is compared
            if k in ('f',) and n.get('k') in ('call', 'ctor'):
                # callee names differ only by template arguments (iterator types): keep the unqualified name
                out[k] = v.split('::')[-1] if isinstance(v, str) else v
                continue
            out[k] = norm(v)
        return out
    return norm(node)


def rule_B(ck, u, fs):
    ck.rule('B.one-based-siblings', 'each _f entry point equals its 0-based sibling except that exactly the row-pointer and column arrays are wrapped in a transform iterator i -> i - 1', 4)
    for a, b in PAIRS:
        if a not in fs or b not in fs:
            ck.ob('B.one-based-siblings', b, 'lib/amgcl.cpp', False, 'entry point missing')
            continue
        fa, fb = fs[a], fs[b]
        tl = transform_locals(fb)
        dets = []
        pa = [fa.decl(d)['n'] for d in fa.params]
        pb = [fb.decl(d)['n'] for d in fb.params]
        wrapped = sorted(pb[v[0]] for v in tl.values())
        want = sorted(n for n in pb if n.endswith('ptr') or n.endswith('col'))
        if wrapped != want:
            dets.append('arrays shifted by one: %s (expected exactly %s)' % (wrapped, want))
        if not all(v[1] for v in tl.values()):
            dets.append('a transform iterator does not subtract exactly 1')
        if tl:
            pass
        # compare the tuples handed to the C++ object
        def tuples(f, subst, drop):
            out = []
            for c in f.calls('std::make_tuple'):
                if len(c.get('a', [])) == 4:
                    out.append(json.dumps(norm_with(f, c, subst, drop), sort_keys=True))
            return out
        subst = {d: v[0] for d, v in tl.items()}
        drop = {v[2]['i'] for v in tl.values()}
        ta, tb = tuples(fa, {}, set()), tuples(fb, subst, drop)
        if not ta or ta != tb:
            dets.append('after removing the index shift the CRS tuple differs from the one built by %s' % a)
        # the shift must actually be used: in the tuple, the row-pointer and column ranges are built from the shifted iterators only
        for c in fb.calls('std::make_tuple'):
            if len(c.get('a', [])) != 4:
                continue
            for pos, role in ((1, 'ptr'), (2, 'col')):
                used = {x['d'] for x in walk(c['a'][pos]) if x['k'] == 'ref'}
                rng = unwrap(c['a'][pos])
                begin_end = rng.get('a', []) if rng['k'] == 'call' else []
                raw = [x for y in begin_end for x in walk(y) if x['k'] == 'ref' and fb.param_index(x['d']) is not None and pb[fb.param_index(x['d'])].endswith(role)
                       and not any(p_['k'] == 'idx' for p_ in fb.ancestors(x))]
                if not any(d in tl and pb[tl[d][0]].endswith(role) for d in used) or raw:
                    dets.append('the %s range of the 1-based entry point is built from the unshifted array' % role)
            usedv = {x['d'] for x in walk(c['a'][3]) if x['k'] == 'ref'}
            if any(d in tl for d in usedv):
                dets.append('the value range is shifted')
        # the calls that consume the tuple / the handles: new T(A, prm) or (*slv)(tuple, rhs, x)
        def consumers(f, subst, drop):
            out = []
            for n in f.nodes.values():
                if n['k'] == 'new':
                    out.append(json.dumps(norm_with(f, n.get('init'), subst, drop), sort_keys=True))
                elif n['k'] == 'call' and n.get('op') == '()' and len(n.get('a', [])) >= 2:
                    out.append(json.dumps([norm_with(f, x, subst, drop) for x in n['a']], sort_keys=True))
            return sorted(out)
        if consumers(fa, {}, set()) != consumers(fb, subst, drop):
            dets.append('the C++ object is constructed / called with different arguments than in %s' % a)
        ck.ob('B.one-based-siblings', b, fb.where(), not dets, '; '.join(dets[:3]))
    # 0-based functions must not shift anything
    for a, b in PAIRS:
        if a in fs:
            tl = transform_locals(fs[a])
            ck.ob('B.one-based-siblings', a, fs[a].where(), not tl, '' if not tl else 'the 0-based entry point shifts indices')
    # amgcl_solver_solve_f delegates
    if 'amgcl_solver_solve_f' in fs:
        f = fs['amgcl_solver_solve_f']
        calls = [c for c in f.calls('amgcl_solver_solve')]
        ok = len(calls) == 1 and [unwrap(x).get('d') for x in calls[0]['a']] == f.params[:3]
        ck.ob('B.one-based-siblings', 'amgcl_solver_solve_f', f.where(), ok, '' if ok else 'does not delegate to amgcl_solver_solve(handle, rhs, x)')


def rule_C(ck, u, fs):
    ck.rule('C.runtime-types', 'AMG / Solver are the types of the C++ run-time interface; prm (when non-null) is passed to the constructor unchanged; typed setters forward name and value to ptree::put', 7)
    seen = {}
    for name, f in fs.items():
        for n in f.nodes.values():
            if n['k'] == 'new' and 'ct' in n:
                k = kind_of(u, u.type(n['ct']))
                seen.setdefault(name, []).append((k, u.type(n['ct']), n))
    for name in ('amgcl_precond_create', 'amgcl_precond_create_f', 'amgcl_solver_create', 'amgcl_solver_create_f'):
        if name not in fs:
            continue
        f = fs[name]
        want = 'AMG' if 'precond' in name else 'Solver'
        news = seen.get(name, [])
        dets = []
        if not news or any(k != want for k, t, n in news):
            dets.append('constructs %s' % ([t[:60] for k, t, n in news],))
        # new T(A, *static_cast<Params*>(prm)) under if (prm); new T(A) otherwise
        with_prm = [n for k, t, n in news if any(x['k'] == 'ref' and x['n'] == 'prm' for x in walk(n.get('init') or {'k': 'x', 'i': -1}))]
        without = [n for k, t, n in news if n not in with_prm]
        if len(with_prm) != 1 or len(without) != 1:
            dets.append('expected one construction with prm and one without')
        else:
            guard = [show(a['c']) for a in f.ancestors(with_prm[0]) if a['k'] == 'if']
            if guard != ['prm']:
                dets.append('parameters are used under guard %s' % guard)
            init = with_prm[0].get('init')
            args = init.get('a', []) if init is not None else []
            derefs = [x for x in walk(args[1]) if x['k'] == 'un' and x['op'] == '*' and x['e']['k'] == 'cast' and x['e'].get('ck') == 'static'
                      and unwrap(x['e'])['k'] == 'ref' and unwrap(x['e'])['n'] == 'prm'] if len(args) >= 2 else []
            others = [x for x in walk(args[1]) if x['k'] in ('bin', 'call') and not (x['k'] == 'call' and x.get('conv'))] if len(args) >= 2 else []
            if not derefs or others:
                dets.append('prm is not passed as *static_cast<Params*>(prm) unchanged')
        ck.ob('C.runtime-types', name, f.where(), not dets, '; '.join(dets[:2]))
    for name in ('amgcl_params_seti', 'amgcl_params_setf', 'amgcl_params_sets'):
        if name not in fs:
            continue
        f = fs[name]
        puts = [c for c in f.calls() if c.get('m') == 'put']
        ok = False
        if len(puts) == 1 and len(puts[0]['a']) >= 2:
            refs0 = [x['d'] for x in walk(puts[0]['a'][0]) if x['k'] == 'ref']
            refs1 = [x['d'] for x in walk(puts[0]['a'][1]) if x['k'] == 'ref']
            ok = refs0 == [f.params[1]] and refs1 == [f.params[2]] and not any(x['k'] == 'bin' for x in walk(puts[0]['a'][1]))
        ck.ob('C.runtime-types', name, f.where(), ok, '' if ok else 'does not forward (name, value) to ptree::put unchanged')


def main(tier):
    ck = Check('C20', tier, 'C20 (clauses): handle typestate of the C API, 0-/1-based sibling agreement, run-time interface types.')
    T = os.path.join(ir.VERIF, 'tus')
    specs = [dict(name='capi', src=os.path.join(T, 'capi.cpp'), extra=['-I' + os.path.join(ir.REPO, 'lib')])]
    units = ir.run_units(specs, 'C20')
    ck.add_units(units, specs)
    u = units['capi']
    fs = capi(u)
    if len(fs) < 19:
        ck.brk('only %d C API functions found in lib/amgcl.cpp (expected 19)' % len(fs))
    rule_A(ck, u, fs)
    rule_B(ck, u, fs)
    rule_C(ck, u, fs)
    ck.assumptions += ['bitwise equality of results with the C++ interface follows from identical types and arguments only together with determinism (C10 / C15)',
                       'the iterator ranges built by the _f entry points end one element past the arrays (ptr[n] is nnz + 1 in 1-based storage); consumers never read the range ends (not decided)']
    return ck.finish()
