"""C12 - the distributed solve is rank-consistent (DESIGN.md 4, C12).

A  in the eight Krylov solver classes every inner product / norm goes through the injected inner_product
   functor (no direct backend::inner_product): with B, every quantity that controls a loop or is returned
   is the same on all ranks
B  every mpi::make_solver constructor passes mpi::inner_product(comm) to the solver; the MPI solver aliases
   and the MPI run-time wrapper default InnerProduct to mpi::inner_product
C  every loop in amgcl/mpi/** that contains collective communication leaves only through conditions on
   all-reduced values or rank-invariant parameters
"""
import os

import ir
from ir import walk, unwrap, show
from effects import locate
import c11
from framework import Check

SOLVERS = ['cg', 'bicgstab', 'bicgstabl', 'gmres', 'fgmres', 'lgmres', 'idrs', 'richardson']
COLLECTIVE_FUNCS = ('MPI_Allreduce', 'MPI_Allgather', 'MPI_Allgatherv', 'MPI_Alltoall', 'MPI_Alltoallv', 'MPI_Barrier', 'MPI_Bcast', 'MPI_Exscan', 'MPI_Gather', 'MPI_Gatherv',
                    'MPI_Comm_split', 'MPI_Scatterv')
# exit conditions that are rank-consistent by induction on the iteration count (one symbol each, with reason)
INDUCTIVE = {
    ('amgcl::mpi::amg::init', 'levels.size() >= prm.max_levels'): 'every rank appends exactly one level per iteration of this loop, so the number of levels equals the (rank-consistent) iteration count',
}
COLLECTIVE_METHODS = ('reduce', 'exclusive_sum', 'exchange', 'start_exchange', 'finish_exchange', 'check')


def rule_A(ck, units):
    ck.rule('A.functor-only', 'the Krylov solvers obtain every inner product and norm from their inner_product member functor; backend::inner_product is never called directly', 8)
    seen = set()
    for u in units.values():
        for f in u.funcs:
            if not (f.cls and f.cls.startswith('amgcl::solver::') and f.cls.split('::')[-1] in SOLVERS):
                continue
            name = f.cls.split('::')[-1]
            m = f.q.split('::')[-1]
            if m not in ('operator()', 'norm'):
                continue
            direct = [c for c in f.calls() if c.get('f') in ('amgcl::backend::inner_product', 'amgcl::backend::norm')]
            dets = ['%s is called directly at %s' % (c['f'], f.where(c)) for c in direct]
            if m == 'norm':
                uses = [c for c in f.calls() if c.get('op') == '()' and c.get('obj') is not None and unwrap(c['obj'])['k'] == 'mem' and unwrap(c['obj'])['n'] == 'inner_product']
                if not uses:
                    dets.append('norm() does not use the inner_product functor')
            seen.add(name)
            ck.ob('A.functor-only', 'amgcl::solver::%s::%s' % (name, m), f.where(), not dets, '; '.join(dets[:2]))
    missing = [s for s in SOLVERS if s not in seen]
    if missing:
        ck.brk('solver classes not instantiated: %s' % missing)


def rule_B(ck, units):
    ck.rule('B.mpi-inner-product', 'mpi::make_solver constructs its solver with mpi::inner_product(comm); MPI solver classes / wrappers use mpi::inner_product as their InnerProduct', 2)
    done = set()
    for u in units.values():
        for f in u.funcs:
            if f.cls == 'amgcl::mpi::make_solver' and f.j.get('ctor'):
                key = 'amgcl::mpi::make_solver::ctor@%d' % f.line
                if key in done:
                    continue
                done.add(key)
                ok = False
                det = 'the solver member is not initialised'
                for ini in f.inits:
                    if ini.get('m') == 'S' and ini.get('e') is not None:
                        ips = [x for x in walk(ini['e']) if x['k'] == 'ctor' and 'mpi::inner_product' in u.type(x.get('ct')) and x.get('a')]
                        ok = bool(ips)
                        det = '' if ok else 'the solver is constructed without mpi::inner_product(comm): its reductions are rank-local'
                        if ok:
                            # built from the communicator the solver was given (first constructor parameter), not another one
                            srcs = [y for y in walk(ips[0]['a'][0]) if y['k'] == 'ref']
                            ok = len(srcs) == 1 and f.param_index(srcs[0]['d']) == 0 and 'communicator' in u.type(f.decl(f.params[0]).get('ct'))
                            det = '' if ok else 'mpi::inner_product is built from `%s`, not from the communicator of the solver' % show(ips[0]['a'][0])
                ck.ob('B.mpi-inner-product', key, f.where(), ok, det)
        # instantiated solver types inside mpi::make_solver / runtime::mpi::solver::wrapper
        for r in u.records:
            q = r['q']
            if q.startswith('amgcl::solver::') and q.split('::')[-1] in SOLVERS and not r.get('dep'):
                full = r['full']
                if 'amgcl::mpi::inner_product' in full or 'default_inner_product' in full or full.count('<') == 1:
                    continue
        for f in u.funcs:
            if f.cls == 'amgcl::runtime::mpi::solver::wrapper' and f.j.get('ctor'):
                key = 'amgcl::runtime::mpi::solver::wrapper'
                if key in done:
                    continue
                done.add(key)
                # the wrapped run-time solver wrapper must be parameterised with mpi::inner_product
                ok = any('amgcl::mpi::inner_product' in u.type(n.get('ct')) for n in f.nodes.values() if n['k'] in ('new', 'ctor', 'cast') and 'ct' in n) or \
                    any('amgcl::mpi::inner_product' in u.type(i.get('base')) for i in f.inits if 'base' in i) or 'amgcl::mpi::inner_product' in (f.clsfull or '')
                bases = [u.types[b] for r in u.records if r['q'] == 'amgcl::runtime::mpi::solver::wrapper' for b in r['bases']]
                ok = ok or any('amgcl::mpi::inner_product' in b for b in bases)
                ck.ob('B.mpi-inner-product', key, f.where(), ok, '' if ok else 'the MPI run-time solver wrapper is not parameterised with mpi::inner_product')


def collective_functions(u):
    """ids of functions of /repo that (transitively) perform collective communication"""
    cached = getattr(u, '_collective', None)
    if cached is not None:
        return cached
    coll = set()
    calls = {}
    for f in u.funcs:
        cs = []
        for c in walk(f.body):
            if c['k'] in ('call', 'ctor') and 'fd' in c:
                cs.append(c['fd'])
            if c['k'] == 'call' and (c.get('f') in COLLECTIVE_FUNCS or (c.get('m') in COLLECTIVE_METHODS and 'mpi::' in (c.get('f') or ''))):
                coll.add(f.id)
        for ini in f.inits:
            if ini.get('e') is not None:
                for c in walk(ini['e']):
                    if c['k'] in ('call', 'ctor') and 'fd' in c:
                        cs.append(c['fd'])
        calls[f.id] = cs
    changed = True
    while changed:
        changed = False
        for fid, cs in calls.items():
            if fid not in coll and any(c in coll for c in cs):
                coll.add(fid)
                changed = True
    u._collective = coll
    return coll


def collective_calls(f, node):
    out = []
    coll = collective_functions(f.unit)
    for c in walk(node):
        if c['k'] not in ('call', 'ctor'):
            continue
        if c.get('f') in COLLECTIVE_FUNCS:
            out.append(c)
        elif c.get('m') in COLLECTIVE_METHODS and ('mpi::' in (c.get('f') or '')):
            out.append(c)
        elif c.get('fd') in coll:
            out.append(c)
    return out


def rule_C(ck, units):
    ck.rule('C.collective-loops', 'a loop in amgcl/mpi/** whose body performs collective communication is left only through conditions that are rank-consistent '
                                  '(all-reduced values, global sizes, configuration)', 3)
    done = set()
    for u in units.values():
        for f in u.funcs:
            if f.cfg is None or not f.rel().startswith('amgcl/mpi/'):
                continue
            loops = [n for n in f.nodes.values() if n['k'] in ('for', 'while', 'do', 'rfor')]
            loops = [L for L in loops if collective_calls(f, L['b'])]
            if not loops:
                continue
            rc = c11.RC(f)
            # rank-consistent variable sets per block
            loc = locate(f)
            at_ret, _ = rc.analyse()
            # recompute IN states: reuse analyse internals through a second pass
            states, state_at = block_states(rc)
            k = 0
            for L in sorted(loops, key=lambda n: n['i']):
                k += 1
                key = '%s|%s|loop#%d' % (f.rel(), f.q, k)
                if key in done:
                    continue
                done.add(key)
                dets = []
                conds = []
                if L.get('c') is not None:
                    conds.append((L['c'], 'loop condition'))
                for n in walk(L['b']):
                    if n['k'] in ('break', 'ret'):
                        # innermost enclosing loop must be L for break
                        inner = [a for a in f.ancestors(n) if a['k'] in ('for', 'while', 'do', 'rfor')]
                        if n['k'] == 'break' and (not inner or inner[0] is not L):
                            continue
                        for a in f.ancestors(n):
                            if a is L:
                                break
                            if a['k'] == 'if':
                                conds.append((a['c'], 'exit condition'))
                if L['k'] == 'rfor':
                    conds.append((L['range'], 'range'))
                for c, what in conds:
                    w = loc.get(unwrap(c)['i']) or loc.get(c['i'])
                    if not w or w[0] not in states:
                        continue
                    st = state_at(w[0], w[1])
                    cu = unwrap(c)
                    if cu['k'] == 'lit':
                        continue
                    # conjunctions / disjunctions: every operand
                    ok = rc_cond(rc, c, st, L) or (f.q, show(c)) in INDUCTIVE
                    if not ok:
                        dets.append('%s `%s` at %s is not rank-consistent: ranks may leave the loop at different iterations while the body communicates collectively (%s at %s)' % (
                            what, show(c)[:50], f.where(c), (collective_calls(f, L['b'])[0].get('m') or collective_calls(f, L['b'])[0].get('f')), f.where(collective_calls(f, L['b'])[0])))
                ck.ob('C.collective-loops', key, f.where(L), not dets, '; '.join(dets[:2]))


def rc_cond(rc, c, st, L):
    c = unwrap(c)
    if c['k'] == 'bin' and c['op'] in ('&&', '||'):
        return rc_cond(rc, c['x'], st, L) and rc_cond(rc, c['y'], st, L)
    # loop counters initialised from rank-consistent values and stepped by constants are rank-consistent
    st2 = set(st)
    init = L.get('init')
    if init is not None and init['k'] == 'decl':
        for v in init['v']:
            if v.get('init') is not None and rc.expr(v['init'], st2):
                st2.add(v['d'])
    return rc.expr(c, st2)


def block_states(rc):
    """IN state (set of rank-consistent variables) per CFG block, as computed by c11.RC.analyse"""
    f = rc.f
    cfg = f.cfg
    loc = locate(f)
    init = set()
    for d in f.params:
        t = rc.u.type(f.decl(d).get('ct'))
        if c11.is_arith(rc.u, t):
            init.add(d)
    events = {}
    for n in f.nodes.values():
        w = loc.get(n['i'])
        if w is None:
            continue
        if n['k'] == 'decl':
            for v in n['v']:
                events.setdefault(w[0], []).append((w[1], n['i'], (v['d'], v.get('init'), 'decl')))
        elif n['k'] == 'bin' and n['op'] in ('=', '+=', '-=', '*=', '/='):
            x = unwrap(n['x'])
            if x is not None and x['k'] == 'ref':
                events.setdefault(w[0], []).append((w[1], n['i'], (x['d'], n['y'], n['op'])))
        elif n['k'] == 'un' and n['op'] in ('++', '--'):
            pass
    for b in events:
        events[b].sort(key=lambda t: (t[0], t[1]))

    def transfer(b, st):
        st = set(st)
        for pos, nid, (tgt, e, op) in events.get(b, ()):
            ok = e is not None and rc.expr(e, st)
            if op not in ('=', 'decl'):
                ok = ok and tgt in st
            if ok:
                st.add(tgt)
            else:
                st.discard(tgt)
        return frozenset(st)
    IN, OUT = cfg.forward(frozenset(init), transfer, join=lambda a, b_: a & b_)

    def at(block, pos):
        """state just before position `pos` of `block`"""
        st = set(IN.get(block, frozenset()))
        for p, nid, (tgt, e, op) in events.get(block, ()):
            if p >= pos:
                break
            ok = e is not None and rc.expr(e, st)
            if op not in ('=', 'decl'):
                ok = ok and tgt in st
            if ok:
                st.add(tgt)
            else:
                st.discard(tgt)
        return st
    return IN, at


def rule_D(ck, units):
    import kernels
    ck.rule('D.product-factor-order', 'distributed matrix product (the kernel behind every distributed R*A*P): in each of its accumulation sites the entry of the left matrix '
                                      '(fetched in the outer loop) is the left factor and the entry of the right matrix (fetched in the nested loop) the right factor - '
                                      'necessary for block-valued (non-commuting) matrices, and all sites must agree', 1)
    done = set()
    for u in units.values():
        for f in u.funcs:
            if f.q != 'amgcl::mpi::product' or f.cfg is None or f.full in done:
                continue
            done.add(f.full)
            sites = kernels.factor_order(f)
            bad = [n for n, ok in sites if not ok]
            ck.ob('D.product-factor-order', 'amgcl::mpi::product', f.where(bad[0]) if bad else f.where(), bool(sites) and not bad,
                  ('no accumulation site found' if not sites else 'at %s the product is `%s`: the entry of the right matrix is the left factor (%d other sites multiply left * right)' % (
                      f.where(bad[0]), show(bad[0]), len(sites) - len(bad))) if (bad or not sites) else '')
            ck.extra['product_sites'] = len(sites)


def _row_loop_matrix(f, L):
    """for (j = X.ptr[i], ...): (decl id, name) of X, else None"""
    init = L.get('init')
    if init is None:
        return None
    for n in walk(init):
        if n['k'] != 'decl':
            continue
        for v in n['v']:
            import idioms
            e = unwrap(idioms._resolve_local(f, v['init'])) if v.get('init') is not None else None     # `j = loc_beg` with `const ptrdiff_t loc_beg = A_loc.ptr[i]`
            if e is not None and e['k'] == 'idx':
                b = unwrap(e['b'])
                if b is not None and b['k'] == 'mem' and b['n'] == 'ptr':
                    base = unwrap(b['b'])
                    while base is not None and base['k'] == 'un' and base['op'] == '*':
                        base = unwrap(base['e'])
                    if base is not None and base['k'] == 'ref':
                        return base['d'], base['n']
    return None


def rule_E(ck, units, floor=4):
    """E.row-sums-cover-remote: a distributed matrix row lives in two CRS parts, X_loc (columns owned by this rank) and X_rem (ghost
    columns).  A per-row quantity accumulated over the entries of X_loc (`t += ...` in `for (j = X_loc.ptr[i]; ...)`, t declared
    outside the loop) is accumulated over the entries of X_rem as well - unless the accumulation is restricted to the diagonal entry
    (`if (col == i) t += ...`), which is always local."""
    ck.rule('E.row-sums-cover-remote', 'a per-row accumulator summed over the local part X_loc of a distributed matrix row is also summed over the remote part X_rem of that row '
                                       '(exception: accumulation guarded by a pure diagonal test)', floor)
    seen = set()
    for u in units.values():
        for f in u.funcs:
            if f.body is None or not f.rel().startswith('amgcl/mpi') or (f.file, f.line) in seen:
                continue
            seen.add((f.file, f.line))
            acc = {}
            for L in f.nodes.values():
                if L['k'] != 'for':
                    continue
                m = _row_loop_matrix(f, L)
                if m is None:
                    continue
                decl_in = {v['d'] for x in walk(L) if x['k'] == 'decl' for v in x['v']}
                for n in walk(L['b']):
                    if n['k'] in ('bin', 'opcall') and n.get('op') in ('+=', '-=') and n.get('x') is not None:
                        x = unwrap(n['x'])
                        if x is not None and x['k'] == 'ref' and x['d'] not in decl_in and f.decl(x['d']).get('k') == 'local':
                            # guard: the ifs between the accumulation and the row loop
                            guards = [a for a in f.ancestors(n) if a['k'] == 'if' and a['i'] > L['i']]
                            diag = bool(guards) and all(unwrap(g['c'])['k'] == 'bin' and unwrap(g['c'])['op'] == '==' for g in guards)
                            acc.setdefault(x['d'], []).append((m[1], n, diag))
            for t, lst in acc.items():
                locs = [(nm, n, dg) for nm, n, dg in lst if nm.endswith('_loc')]
                if not locs:
                    continue
                for nm, n, dg in locs:
                    partner = nm[:-4] + '_rem'
                    has = any(x[0] == partner for x in lst)
                    key = '%s|%s|%s' % ('::'.join(f.q.split('::')[-2:]), f.decl(t)['n'], nm)
                    if dg and not has:
                        ck.ob('E.row-sums-cover-remote', key, f.where(n), True, trivial=True)
                        continue
                    ck.ob('E.row-sums-cover-remote', key, f.where(n), has, '' if has else
                          '`%s` is accumulated over the entries of %s (%s) but not over those of %s: the ghost columns of the row are left out' % (
                              f.decl(t)['n'], nm, f.where(n), partner))


def rule_E2(ck, units):
    """E2.row-width-covers-remote: a row of a distributed matrix is "empty" / "lonely" only if BOTH of its parts are: a condition that
    classifies a row by the number of its entries in a local part (X_loc.ptr[i+1] - X_loc.ptr[i], directly or through a local) compared
    with a constant also involves the width of the remote part of that row."""
    import idioms
    ck.rule('E2.row-width-covers-remote', 'mpi: a test of the form `<width of the local part of row i> == const` also takes the width of the remote part of the row into account '
                                          '(an unknown whose only strong couplings are on other ranks is not lonely)', 1)
    seen = set()
    for u in units.values():
        for f in u.funcs:
            if f.body is None or not f.rel().startswith('amgcl/mpi') or (f.file, f.line) in seen:
                continue

            def width_part(e):
                """'loc' / 'rem' when e is X.ptr[i+1] - X.ptr[i] of a *_loc / *_rem matrix"""
                e = unwrap(e)
                if e is None or e['k'] != 'bin' or e['op'] != '-':
                    return None
                x, y = unwrap(e['x']), unwrap(e['y'])
                if x is None or y is None or x['k'] != 'idx' or y['k'] != 'idx' or show(x['b']) != show(y['b']) or not show(x['b']).endswith('ptr'):
                    return None
                base = show(x['b'])
                return 'loc' if '_loc' in base else ('rem' if '_rem' in base else None)
            k = 0
            for n in f.nodes.values():
                if n['k'] not in ('if', 'cond') or n.get('c') is None:
                    continue
                for c in walk(n['c']):
                    if c['k'] != 'bin' or c['op'] not in ('==', '!=', '<', '<=', '>', '>='):
                        continue
                    sides = [(c['x'], c['y']), (c['y'], c['x'])]
                    for a, b in sides:
                        bu = unwrap(b)
                        if bu is None or bu['k'] != 'lit':
                            continue
                        parts = set()
                        for x in idioms.deep_nodes(f, a):
                            w = width_part(x)
                            if w:
                                parts.add(w)
                        if 'loc' in parts:
                            k += 1
                            ok = 'rem' in parts
                            ck.ob('E2.row-width-covers-remote', '%s#%d' % ('::'.join(f.q.split('::')[-2:]), k), f.where(c), ok, '' if ok else
                                  '`%s` at %s classifies the row by its local part only; its remote part may still hold entries' % (show(c)[:60], f.where(c)))
            if k:
                seen.add((f.file, f.line))


def main(tier):
    ck = Check('C12', tier, 'C12 (clauses): all reductions of the distributed solve are global, and communicating loops terminate consistently on all ranks.')
    T = os.path.join(ir.VERIF, 'tus')
    specs = [dict(name='mpi_rt', src=os.path.join(T, 'mpi_rt.cpp'), mpi=True)]
    if tier == 'thorough':
        specs.append(dict(name='rt_builtin', src=os.path.join(T, 'rt_builtin.cpp')))
    units = ir.run_units(specs, 'C12')
    ck.add_units(units, specs)
    rule_A(ck, units)
    rule_B(ck, units)
    rule_C(ck, units)
    rule_D(ck, units)
    rule_E(ck, units)
    rule_E2(ck, units)
    import c11
    import c14
    c14.rule_F(ck, T)          # run-time distributed relaxations are built from the operand their compile-time classes use (shared with C14)
    c11.rule_J(ck, units)      # buffers of nonblocking operations are stable and alive until completion (shared with C11)
    c11.rule_H(ck, units)      # messages are taken from / put at their own slice (shared with C11)
    c11.rule_G(ck, units)      # transfer operators moved with keep_src stay intact for the next coarsening step (shared with C11)
    c11.rule_F(ck, units)      # global reductions use the operator of the local accumulation (shared with C11)
    ck.assumptions += ['configuration is equal on all ranks', 'convergence, the distributed aggregation being a partition, distributed RAP and the direct coarse solve are not decided']
    return ck.finish()
