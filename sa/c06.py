"""C06 - every relaxation sweep has correction form x += M (f - A x) (DESIGN.md 4, C06).

For each relaxation named by runtime::relaxation::type, in apply_pre and apply_post:
  (i)   a vector becomes "residual-derived" by residual(rhs, A, x, .) of the function's own arguments;
  (ii)  residual-derived vectors stay so under operations whose other operands are constant operators
        of the object (diagonals, factors) or residual-derived themselves, with zero coefficient on the
        overwritten content (or the content residual-derived);
  (iii) x is modified only by accumulation with coefficient identity on x and a residual-derived source.
Then A x = f  =>  residual = 0  =>  every derived vector is 0  =>  x is unchanged: the exact solution is a fixed point.
Gauss-Seidel is a row sweep, not residual form: instead its serial and its level-scheduled parallel row
kernels must be the same update (sibling agreement).
"""
import json
import os

import ir
import inline
from ir import walk, unwrap, show
from absint import AbsInt
from accesses import Analyzer, zero_trip_roots
from effects import locate, prim_name, classify_coef, PRIMS, PRIM_READS
from framework import Check

RESIDUAL_FORM = ['damped_jacobi', 'spai0', 'spai1', 'ilu0', 'iluk', 'ilup', 'ilut', 'chebyshev']
ALL = RESIDUAL_FORM + ['gauss_seidel']
# in-place transformations of a vector by a constant operator of the object (linear, zero -> zero)
LINEAR_INPLACE = {'amgcl::relaxation::detail::ilu_solve::solve': 'triangular solves with the stored factors: linear in the argument'}


def body_function(u, f):
    """follow a pure delegation apply_pre(A,rhs,x,tmp){ solve(A,rhs,x); } to the member that does the work"""
    stmts = f.body.get('s', [])
    if len(stmts) == 1 and stmts[0]['k'] == 'call' and 'fd' in stmts[0]:
        c = stmts[0]
        g = u.by_id.get(c['fd'])
        if g is not None and g.cls == f.cls and g.cfg is not None and c.get('obj') is not None and unwrap(c['obj'])['k'] == 'this':
            args = [unwrap(a) for a in c.get('a', [])]
            if all(a['k'] == 'ref' and f.param_index(a['d']) is not None for a in args):
                # parameter mapping callee index -> caller index
                return g, [f.param_index(a['d']) for a in args]
    return f, list(range(len(f.params)))


def analyse(ck, u, an, f0, cls, which):
    f, pmapping = body_function(u, f0)
    key = '%s::%s' % (cls, which)
    # roles by caller parameter index: 0 A, 1 rhs, 2 x, 3 tmp
    role = {}
    for gi, ci in enumerate(pmapping):
        role[ci] = ('param', gi)
    A, rhs, x = role.get(0), role.get(1), role.get(2)
    if f is not f0 and f0.q.split('::')[-1] != which:
        pass
    # delegation to a sub-object's member of the same name (ilup -> ilu0): verified in that class
    calls = list(f.calls())
    if len(calls) >= 1 and all((c.get('m') == which) for c in calls if c.get('m') in ('apply_pre', 'apply_post')) and any(c.get('m') == which for c in calls) and \
            not any(prim_name(c) for c in calls):
        c = [c for c in calls if c.get('m') == which][0]
        roots = [an.expr_root(f, a) for a in c.get('a', [])]
        ok = roots[:3] == [A, rhs, x]
        ck.ob('correction-form', key, f.where(c), ok, '' if ok else 'delegates with arguments %s' % (roots,), trivial=True)
        return
    loc = locate(f)
    acc = an.accesses(f)
    written_members = {a.root for a in acc if a.root[0] == 'this' and a.kind in ('kill', 'elem', 'rw', 'one')}

    def const_root(r):
        return r is not None and ((r[0] == 'this' and r not in written_members) or r == A)
    events = {}
    for n in f.nodes.values():
        if n['k'] == 'call' and n['i'] in loc:
            b, pos = loc[n['i']]
            events.setdefault(b, []).append((pos, n['i'] + 0.5, n))
    findings = []
    holder = []

    def effect(n, D, env, report):
        """new derived-set after call n; report(list) collects violations"""
        pr = prim_name(n)
        a = n.get('a', [])
        if pr is not None:
            ci, oi = PRIMS[pr]
            out = an.expr_root(f, a[oi])
            ins = [an.expr_root(f, a[i]) for i in PRIM_READS[pr] if i < len(a) and i != ci]
            if pr == 'residual':
                good = [an.expr_root(f, a[0]), an.expr_root(f, a[1]), an.expr_root(f, a[2])] == [rhs, A, x]
                if out == x:
                    report.append((n, 'x is overwritten by a residual'))
                return (D | {out}) if good else (D - {out})
            if pr in ('clear',):
                if out == x:
                    report.append((n, 'x is cleared inside a sweep'))
                return D | {out}    # the zero vector is trivially residual-derived
            coef = None
            if ci is not None:
                coef = classify_coef(f, a[ci])
                if coef not in ('zero', 'identity') and holder and holder[0].eval(a[ci], env) == 'Z':
                    coef = 'zero'
            # vector operands: everything except scalars; constant operators of the object are allowed
            vec_ins = [r for r in ins if r is not None and not (r[0] == 'var')]
            derived_ins = all((r in D) or const_root(r) for r in vec_ins) and any(r in D for r in vec_ins)
            if out == x:
                if coef != 'identity':
                    report.append((n, 'x is updated with coefficient `%s` on its previous value (must be the identity)' % (coef if isinstance(coef, str) else show(a[ci]))))
                if not derived_ins:
                    bad = [r for r in vec_ins if r not in D and not const_root(r)]
                    report.append((n, 'the increment of x is not derived from the residual only (operand %s)' % (bad[0] if bad else 'none is residual-derived',)))
                return D
            if derived_ins and (coef == 'zero' or coef is None or out in D):
                return D | {out}
            return D - {out}
        # non-primitive call: in-place linear transforms keep derivedness; anything touching x is reported
        roots = [an.expr_root(f, y) for y in a]
        mr = set(n.get('mr', []))
        name = n.get('f') or ''
        for i, r in enumerate(roots):
            if r == x and i in mr:
                eff = an.call_effect(f, n, i)
                if eff in ('rw', 'kill', 'wo', 'elem'):
                    report.append((n, 'x is modified by %s, which is not a residual-form update' % (name or show(n))))
        newD = set(D)
        for i, r in enumerate(roots):
            if r is not None and i in mr and r != x:
                if name in LINEAR_INPLACE and r in D:
                    continue
                eff = an.call_effect(f, n, i)
                if eff in ('rw', 'kill', 'wo', 'elem'):
                    newD.discard(r)
        return frozenset(newD)

    def apply(n, facts, env):
        return frozenset(effect(n, set(facts), env, []))
    ai = AbsInt(f, events, apply)
    holder.append(ai)
    ai.run()

    def visit(b, nid, n, facts, env):
        rep = []
        effect(n, set(facts), env, rep)
        findings.extend(rep)
    ai.visit(visit)
    # x must actually be updated somewhere
    upd = [n for n in f.nodes.values() if n['k'] == 'call' and prim_name(n) and an.expr_root(f, n['a'][PRIMS[prim_name(n)][1]]) == x]
    msgs = sorted({'%s at %s' % (m, f.where(n)) for n, m in findings})
    if not upd:
        msgs.append('x is never updated')
    ck.ob('correction-form', key, f.where(), not msgs, '; '.join(msgs[:3]))


INT_T = ('int', 'long', 'unsigned int', 'unsigned long', 'short', 'long long', 'unsigned long long', 'char', 'bool')


def gs_kernel(f, an=None):
    """the row update of a Gauss-Seidel sweep as a skeleton of arithmetic statements over ROLES, so that index walks, pointer walks and
    row iterators compare equal:  leaves are  X[row] / X[col] (solution vector at the row index / at a column), F[row] (right-hand side),
    A (a value of the matrix row), I (an integer), literals, and the accumulator locals numbered in order of appearance.
    Returns (json skeleton, number of statements) or None."""
    if an is None:
        an = Analyzer([f.unit])
    u = f.unit
    final = None
    for n in f.nodes.values():
        if n['k'] == 'bin' and n['op'] == '=' and unwrap(n['x'])['k'] == 'idx' and any(c['k'] == 'call' and c.get('f') == 'amgcl::math::inverse' for c in walk(n['y'])):
            final = n
    if final is None:
        return None
    blk = None
    for anc in f.ancestors(final):
        if anc['k'] == 'block':
            blk = anc
            break
    if blk is None:
        return None
    xroot = an.root_of_expr(f, unwrap(final['x'])['b'])
    rowidx = show(unwrap(final['x'])['x'])
    accs = {}

    def tyname(e):
        if 'ty' in e:
            return u.type(e['ty'])
        if e['k'] == 'ref':
            return u.type(f.decl(e['d']).get('ct'))
        if e['k'] == 'call' and 'rt' in e:
            return u.type(e['rt'])
        return ''

    def is_int(e):
        t = tyname(e).replace('const ', '').replace('&', '').strip()
        return t in INT_T

    def leaf(e):
        e0 = unwrap(e)
        if e0 is None:
            return 'null'
        k = e0['k']
        if k == 'lit':
            return 'lit:' + str(e0.get('v'))
        if k == 'ref' and f.decl(e0['d']).get('k') == 'local' and not f.decl(e0['d']).get('ptr') and not f.decl(e0['d']).get('ref') and not is_int(e0):
            # value-typed local: an accumulator (X, D) or a copy of a matrix value (v = val[j])
            init = None
            nmod = 0
            for n in f.nodes.values():
                if n['k'] == 'decl':
                    for v in n['v']:
                        if v['d'] == e0['d']:
                            init = v.get('init')
                if n['k'] == 'bin' and n['op'] in ('=', '+=', '-=', '*=', '/=') and unwrap(n['x'])['k'] == 'ref' and unwrap(n['x'])['d'] == e0['d']:
                    nmod += 1
            if nmod == 0 and init is not None and leaf(init) in ('A',):
                return 'A'
            if e0['d'] not in accs:
                accs[e0['d']] = 'acc%d' % len(accs)
            return accs[e0['d']]
        if is_int(e0):
            return 'I'
        # element of a vector / value of the row
        r = an.root_of_expr(f, e0)
        if r is not None and r == xroot and k in ('idx', 'un', 'call'):
            ix = unwrap(e0['x']) if k == 'idx' else None
            return 'X[row]' if ix is not None and show(ix) == rowidx else 'X[col]'
        if r is not None and r[0] == 'param' and r != xroot and k == 'idx':
            return 'F[row]' if show(unwrap(e0['x'])) == rowidx else 'F[?]'
        if k in ('idx', 'un', 'mem') or (k == 'call' and (e0.get('m') in ('value', 'col') or e0.get('op') in ('*', '[]'))) or k == 'ref':
            return 'A'
        return None

    def sk(e):
        e0 = unwrap(e)
        if e0 is None:
            return None
        l = leaf(e0)
        if l is not None and not (e0['k'] == 'bin' or (e0['k'] == 'call' and (e0.get('f') or '').startswith('amgcl::math::')) or (e0['k'] == 'un' and e0['op'] == '-')):
            return l
        if e0['k'] == 'bin':
            return [e0['op'], sk(e0['x']), sk(e0['y'])]
        if e0['k'] == 'un' and e0['op'] in ('-', '!'):
            return [e0['op'], sk(e0['e'])]
        if e0['k'] == 'call' and (e0.get('f') or '').startswith('amgcl::math::'):
            return [e0['f'].split('::')[-1]] + [sk(a) for a in e0.get('a', [])]
        return l if l is not None else '?' + e0['k']
    stmts = []

    def visit(n, guards):
        if n['k'] == 'block':
            for s_ in n['s']:
                visit(s_, guards)
        elif n['k'] == 'decl':
            for v in n['v']:
                if v.get('init') is not None and not is_int({'k': 'ref', 'd': v['d']}) and not f.decl(v['d']).get('ptr') and not f.decl(v['d']).get('ref'):
                    l = leaf({'k': 'ref', 'd': v['d'], 'i': -1})
                    if l.startswith('acc'):
                        stmts.append(['=', l, sk(v['init']), guards])
        elif n['k'] == 'bin' and n['op'] in ('=', '+=', '-=', '*=', '/='):
            lhs = sk(n['x'])
            if isinstance(lhs, str) and (lhs.startswith('acc') or lhs.startswith('X[')):
                stmts.append([n['op'], lhs, sk(n['y']), guards])
        elif n['k'] == 'if':
            c = sk(n['c'])
            if n.get('t') is not None:
                visit(n['t'], guards + [['if', c]])
            if n.get('e') is not None:
                visit(n['e'], guards + [['else', c]])
        elif n['k'] in ('for', 'while', 'rfor', 'do'):
            visit(n['b'], guards + [['loop']])
    visit(blk, [])
    return json.dumps(stmts, sort_keys=True), len(stmts)


def rule_gs(ck, units):
    ck.rule('gs-serial-equals-parallel', 'the row update of gauss_seidel::serial_sweep and of parallel_sweep<..>::sweep is the same computation: '
                                         'X = rhs[i]; for each entry: (c == i) ? D = v : X -= v * x[c]; x[i] = inverse(D) * X', 2)
    for u in units.values():
        ser = [f for f in u.funcs if f.q == 'amgcl::relaxation::gauss_seidel::serial_sweep']
        par = [f for f in u.funcs if f.q == 'amgcl::relaxation::gauss_seidel::parallel_sweep::sweep']
        if not ser or not par:
            continue
        ks = gs_kernel(ser[0])
        for p in par:
            kp = gs_kernel(p)
            direction = 'forward' if 'parallel_sweep<true>' in (p.clsfull or '') else 'backward'
            ok = ks is not None and kp is not None and ks == kp
            ck.ob('gs-serial-equals-parallel', 'amgcl::relaxation::gauss_seidel|' + direction, p.where(), ok,
                  '' if ok else 'row kernels differ (serial %s fragments, parallel %s fragments)' % (ks[1] if ks else '?', kp[1] if kp else '?'))


def strip_types(t):
    if isinstance(t, list):
        return [strip_types(x) for x in t]
    if isinstance(t, dict):
        return {k: strip_types(v) for k, v in t.items() if k not in ('t', 'ct', 'rt', 'mr', 'cm')}
    return t


def rule_chebyshev_bounds(ck, units, which=('cheb', 'sib')):
    import json
    import c02
    if 'cheb' in which:
        ck.rule('cheb-scale-consistent', 'chebyshev: the spectral radius is estimated for the operator the iteration runs on - spectral_radius<true> exactly under prm.scale, <false> otherwise', 1)
    if 'sib' in which:
        ck.rule('radius-siblings', 'the diagonal scaling statements of the serial and the distributed spectral-radius kernels (Gershgorin and power branch) are the same code', 1)
    done = set()
    sa_done = set()
    if 'cheb' not in which:
        done.add('cheb')
    if 'sib' not in which:
        done.add('sib')
    for u in units.values():
        for f in u.funcs:
            if f.cls == 'amgcl::relaxation::chebyshev' and f.j.get('ctor') and 'cheb' not in done:
                f = inline.expand(f, inline.same_class_helper())      # helpers of the constructor are analysed in place
                calls = [c for c in f.calls('amgcl::backend::spectral_radius')]
                if not calls:
                    continue
                done.add('cheb')
                dets = []
                for c in calls:
                    g = u.by_id.get(c.get('fd'))
                    full = g.full if g is not None else ''
                    scaled = 'spectral_radius<true' in full
                    pol = None
                    cur = c
                    for a in f.ancestors(c):
                        if a['k'] == 'if' and show(a['c']) in ('prm.scale', 'this->prm.scale'):
                            pol = a.get('t') is not None and any(x is cur for x in walk(a['t']))
                        elif a['k'] == 'cond' and show(a['c']) in ('prm.scale', 'this->prm.scale'):
                            pol = any(x is cur for x in walk(a['x']))
                        cur = a
                    if pol is None:
                        dets.append('spectral_radius<%s> at %s is called irrespective of prm.scale' % ('true' if scaled else 'false', f.where(c)))
                    elif pol != scaled:
                        dets.append('spectral_radius<%s> at %s is used on the prm.scale == %s path' % ('true' if scaled else 'false', f.where(c), 'true' if pol else 'false'))
                ck.ob('cheb-scale-consistent', 'amgcl::relaxation::chebyshev::ctor', f.where(), not dets, '; '.join(dets[:2]))
                # the interval [lower * rho, higher * rho]: both ends are multiples of the ESTIMATE rho.  Where the estimate is scaled in place
                # (`hi *= prm.higher`), the other end must have been derived from it before.
                from effects import path_between
                ck.rule('cheb-bounds-from-estimate', 'chebyshev: both ends of the interval are multiples of the spectral radius estimate: the variable that holds the estimate is not '
                                                     'rescaled by one of prm.lower / prm.higher before the other end is derived from it', 1)

                def mentions(e, name):
                    return any(x['k'] not in ('ref', 'lit') and show(x).endswith('prm.' + name) for x in walk(e))

                def assigns(n):
                    """(target decl, value tree, reads the target itself) of an assignment / initialisation"""
                    if n['k'] == 'bin' and n['op'] in ('=', '*=', '/=') and unwrap(n['x'])['k'] == 'ref':
                        return [(unwrap(n['x'])['d'], n['y'], n['op'] != '=' or any(x['k'] == 'ref' and x['d'] == unwrap(n['x'])['d'] for x in walk(n['y'])), n)]
                    if n['k'] == 'decl':
                        return [(v['d'], v['init'], False, n) for v in n['v'] if v.get('init') is not None]
                    return []
                ends = {}
                for n in f.nodes.values():
                    for d, val, selfref, node in assigns(n):
                        for name in ('lower', 'higher'):
                            if mentions(val, name):
                                ends.setdefault(name, []).append((d, val, selfref, node))
                bad = []
                for name, other in (('lower', 'higher'), ('higher', 'lower')):
                    for d, val, selfref, node in ends.get(name, []):
                        if not selfref:
                            continue            # a fresh variable receives this end: nothing is overwritten
                        # `d` (the estimate) is rescaled in place by prm.<name>; the other end must not read `d` afterwards
                        for d2, val2, _, node2 in ends.get(other, []):
                            if any(x['k'] == 'ref' and x['d'] == d for x in walk(val2)) and node2 is not node and path_between(f, node, node2):
                                bad.append('`%s` is rescaled by prm.%s at %s and then used at %s to derive the prm.%s end of the interval: that end becomes %s * %s * rho' % (
                                    f.decl(d)['n'], name, f.where(node), f.where(node2), other, name, other))
                if ends.get('lower') and ends.get('higher'):
                    ck.ob('cheb-bounds-from-estimate', 'amgcl::relaxation::chebyshev::ctor', f.where(ends['lower'][0][3]), not bad, '; '.join(bad[:2]))
        # smoothed aggregation damps with omega / rho(D^-1 A_F): its estimate is always the one of the diagonally scaled operator
        if 'cheb' in which or 'sa' in which:
            for f in u.funcs:
                if f.cls in ('amgcl::coarsening::smoothed_aggregation', 'amgcl::mpi::coarsening::smoothed_aggregation') and f.body is not None and (f.cls, 'sa') not in sa_done:
                    f2 = inline.expand(f, inline.same_class_helper())
                    calls = [c for c in f2.calls('amgcl::backend::spectral_radius')]
                    if not calls:
                        continue
                    sa_done.add((f.cls, 'sa'))
                    bad = [c for c in calls if 'spectral_radius<true' not in ((u.by_id.get(c.get('fd')).full) if u.by_id.get(c.get('fd')) is not None else '')]
                    ck.rule('sa-radius-scaled', 'smoothed aggregation: the spectral radius that scales the damping of (I - omega D^-1 A_F) is estimated for the diagonally scaled operator (spectral_radius<true>)', 1)
                    ck.ob('sa-radius-scaled', f.cls, f2.where(calls[0]), not bad, '' if not bad else
                          'spectral_radius<false> at %s: the damping omega / rho is applied to D^-1 A_F, the radius is that of A - the prolongation depends on the scaling of the matrix' % f2.where(bad[0]))
        ser = [f for f in u.funcs if f.q == 'amgcl::backend::spectral_radius' and f.params and 'distributed_matrix' not in u.type(f.decl(f.params[0]).get('ct')) and 'spectral_radius<true' in f.full]
        dis = [f for f in u.funcs if f.q == 'amgcl::backend::spectral_radius' and f.params and 'distributed_matrix' in u.type(f.decl(f.params[0]).get('ct')) and 'spectral_radius<true' in f.full]
        # the two branches may live in helper functions of the same file (namespace detail)
        ser = [inline.expand(f, inline.same_file_detail_helper()) for f in ser]
        dis = [inline.expand(f, inline.same_file_detail_helper()) for f in dis]
        if ser and dis and 'sib' not in done:
            done.add('sib')

            def scale_stmts(f):
                out = set()
                for n in f.nodes.values():
                    # `if (scale)`: the template argument is substituted, the condition is the literal true here
                    c = unwrap(n['c']) if n['k'] == 'if' else None
                    if c is not None and c['k'] == 'lit' and c.get('t') == 'bool' and n.get('t') is not None and any(x['k'] == 'ref' and x['n'] == 'dia' for x in walk(n['t'])):
                        # the statements that APPLY the diagonal scaling: assignments (=, *=, /=) to something other than the diagonal copy that use it
                        for st in walk(n['t']):
                            if st['k'] == 'bin' and st['op'] in ('=', '*=', '/=') and any(x['k'] == 'ref' and x['n'] == 'dia' for x in walk(st['y'])) \
                                    and not (unwrap(st['x'])['k'] == 'ref' and unwrap(st['x'])['n'] == 'dia'):
                                pm = {}
                                out.add(json.dumps(strip_types(c02.norm_tree(f, st, pm)), sort_keys=True))
                return out
            a, b = scale_stmts(ser[0]), scale_stmts(dis[0])
            ok = bool(a) and a == b
            ck.ob('radius-siblings', 'amgcl::backend::spectral_radius|serial-vs-distributed', ser[0].where(), ok,
                  '' if ok else 'the statements guarded by `if (scale)` differ between the serial (%s) and the distributed (%s) spectral radius estimate' % (ser[0].where(), dis[0].where()))


def rule_power_norm(ck, units, floor=2):
    """power-norm-of-stored: in the power iteration of spectral_radius (serial and distributed) the squared norm that is accumulated to
    normalise the next iterate is that of the very value stored as the next iterate: between `norm += |<s, s>|` and `b[i] = s` (either
    order) s is not modified."""
    ck.rule('power-norm-of-stored', 'spectral_radius power iteration: the value whose <s, s> is accumulated into the normaliser is the value stored into the iterate '
                                    '(s is not modified between the accumulation and the store)', floor)
    seen = set()
    for u in units.values():
        for f in u.funcs:
            if f.q != 'amgcl::backend::spectral_radius' or f.body is None:
                continue
            f = inline.expand(f, inline.same_file_detail_helper())
            for n in f.nodes.values():
                if not (n['k'] == 'bin' and n['op'] == '+='):
                    continue
                v = None
                for c in walk(n['y']):
                    if c['k'] == 'call' and (c.get('f') or '').endswith('inner_product') and len(c.get('a', [])) == 2:
                        a0, a1 = unwrap(c['a'][0]), unwrap(c['a'][1])
                        if a0['k'] == 'ref' and a1['k'] == 'ref' and a0['d'] == a1['d'] and f.decl(a0['d']).get('k') == 'local':
                            v = a0['d']
                if v is None:
                    continue
                # the innermost enclosing loop body
                loop = next((a for a in f.ancestors(n) if a['k'] in ('for', 'while', 'rfor')), None)
                if loop is None:
                    continue
                stores = [m for m in walk(loop) if m['k'] == 'bin' and m['op'] == '=' and unwrap(m['x'])['k'] == 'idx'
                          and unwrap(m['y'])['k'] == 'ref' and unwrap(m['y'])['d'] == v]
                for st in stores:
                    key = 'spectral_radius|%s' % f.where(st)
                    if key in seen:
                        continue
                    seen.add(key)
                    lo, hi = sorted((n['i'], st['i']))
                    mods = [m for m in walk(loop) if lo < m['i'] < hi and m['k'] == 'bin' and m['op'] in ('=', '+=', '-=', '*=', '/=')
                            and unwrap(m['x'])['k'] == 'ref' and unwrap(m['x'])['d'] == v]
                    ck.ob('power-norm-of-stored', key, f.where(n), not mods, '' if not mods else
                          '`%s` is modified at %s between the accumulation of its squared norm (%s) and the store `%s` (%s)' % (
                              f.decl(v)['n'], f.where(mods[0]), f.where(n), show(st), f.where(st)))


def rule_power_unit(ck, units, floor=2):
    """power-iterate-unit: the power iteration estimates the radius as |<A b, b>| with a UNIT vector b.  Every value stored into the
    iterate that the quotient reads is either stored normalised (`b[i] = c * w[i]` with c = 1 / sqrt(accumulated norm)) or is normalised
    by such a store on every path before the quotient reads the iterate."""
    from effects import path_between
    ck.rule('power-iterate-unit', 'spectral_radius power iteration: the iterate read by the Rayleigh quotient <A b, b> is a unit vector - every store into it is a normalising store '
                                  '(c * w[i], c = 1 / sqrt(norm)) or is followed by one on every path to the quotient', floor)
    seen = set()
    for u in units.values():
        for f0 in u.funcs:
            if f0.q != 'amgcl::backend::spectral_radius' or f0.body is None or f0.cfg is None or (f0.file, f0.line) in seen:
                continue
            f = inline.expand(f0, inline.same_file_detail_helper())
            # the quotient: acc += norm(inner_product(s, X[i]))  with s a local and X a local vector
            quot = []
            for n in f.nodes.values():
                if n['k'] == 'bin' and n['op'] == '+=':
                    for c in walk(n['y']):
                        if c['k'] == 'call' and (c.get('f') or '').endswith('inner_product') and len(c.get('a', [])) == 2:
                            a0, a1 = unwrap(c['a'][0]), unwrap(c['a'][1])
                            for s_, x_ in ((a0, a1), (a1, a0)):
                                if s_ is not None and x_ is not None and s_['k'] == 'ref' and x_['k'] == 'idx' and unwrap(x_['b'])['k'] == 'ref':
                                    quot.append((n, unwrap(x_['b'])['d']))
            if not quot:
                continue
            seen.add((f0.file, f0.line))
            roots = set()
            for n in f.nodes.values():
                defs = []
                if n['k'] == 'bin' and n['op'] == '=' and unwrap(n['x'])['k'] == 'ref':
                    defs.append((unwrap(n['x'])['d'], n['y']))
                if n['k'] == 'decl':
                    defs += [(v['d'], v['init']) for v in n['v'] if v.get('init') is not None]
                for d, e in defs:
                    if any(c['k'] == 'call' and ((c.get('f') or '').split('::')[-1] == 'sqrt') for c in walk(e)) and any(c['k'] == 'bin' and c['op'] == '/' or (c['k'] == 'call' and (c.get('f') or '').endswith('inverse')) for c in walk(e)):
                        roots.add(d)
            for qn, X in quot:
                stores = [n for n in f.nodes.values() if n['k'] == 'bin' and n['op'] == '=' and unwrap(n['x'])['k'] == 'idx' and unwrap(unwrap(n['x'])['b'])['k'] == 'ref'
                          and unwrap(unwrap(n['x'])['b'])['d'] == X]

                def normalising(st):
                    y = unwrap(st['y'])
                    if y is None or y['k'] != 'bin' or y['op'] != '*':
                        return False
                    a, b = unwrap(y['x']), unwrap(y['y'])
                    return any(p is not None and p['k'] == 'ref' and p['d'] in roots and q is not None and q['k'] == 'idx' for p, q in ((a, b), (b, a)))
                norm_st = [st for st in stores if normalising(st)]
                # the loop that normalises element by element runs over the same range as the loop that stored the raw values: passing its
                # header counts as passing the normalisation (a zero-trip path through it has stored nothing either)
                gates = list(norm_st)
                for st in norm_st:
                    L = next((a for a in f.ancestors(st) if a['k'] in ('for', 'while', 'rfor')), None)
                    if L is not None and L.get('c') is not None:
                        gates += [x for x in walk(L['c'])]
                bad = [st for st in stores if not normalising(st) and path_between(f, st, qn, avoid=gates)]
                ck.ob('power-iterate-unit', 'spectral_radius|%s|%s' % (f.rel(), f.decl(X)['n']), f.where(qn), not bad, '' if not bad else
                      '`%s` stored at %s reaches the quotient `%s` at %s without the iterate being scaled by 1 / sqrt(norm) in between: the estimate is |<A b, b>| of a vector that is not a unit vector' % (
                          show(bad[0])[:40], f.where(bad[0]), show(qn)[:60], f.where(qn)))


def rule_iluk_level(ck, units):
    """fill-level-is-minimum: ILU(k) keeps an entry iff its level of fill - the MINIMUM over all elimination paths that create it of
    (level of the two factors + 1) - is at most k.  The work row of iluk accumulates contributions: whenever a contribution is added to
    an entry that already exists (`a.val += val`), the stored level becomes min(stored, level of the contribution) on exactly the same
    paths (same guards).  Freezing the level at the first contribution, or updating it for a part of the row only, shrinks the pattern
    the factorisation is exact on."""
    ck.rule('fill-level-is-minimum', 'iluk work row: every path that accumulates a contribution into an existing entry also lowers its level of fill to min(level, level of the contribution) '
                                     '(same guards for both statements)', 1)
    import c01
    done = False
    for u in units.values():
        for f in u.funcs:
            if done or not (f.cls or '').startswith('amgcl::relaxation::iluk') or f.body is None:
                continue
            vals = [n for n in f.nodes.values() if n['k'] in ('bin', 'opcall') and n.get('op') == '+=' and n.get('x') is not None
                    and unwrap(n['x'])['k'] == 'mem' and unwrap(n['x']).get('n') == 'val']
            if not vals or not any(f.decl(d).get('n') == 'lev' for d in f.params):
                continue
            done = True
            levp = next(d for d in f.params if f.decl(d).get('n') == 'lev')
            for w in vals:
                obj = show(unwrap(w['x']).get('b'))
                import idioms
                mins = [n for n, V, E in idioms.extremum_updates(f, f.body, 'min') if unwrap(V)['k'] == 'mem' and unwrap(V).get('n') == 'lev' and show(unwrap(V).get('b')) == obj
                        and any(x['k'] == 'ref' and x['d'] == levp for x in idioms.deep_nodes(f, E))]
                gw = c01.guards_of(f, w)
                ok = any(c01.guards_of(f, m) == gw for m in mins)
                det = ''
                if not mins:
                    det = 'the contribution is accumulated by `%s` at %s but the level of fill of the entry is not lowered to min(level, lev): it stays at the level of the first contribution' % (show(w), f.where(w))
                elif not ok:
                    det = 'the level of fill is lowered at %s only under %s, the value is accumulated at %s under %s' % (f.where(mins[0]), c01.guards_of(f, mins[0]), f.where(w), gw)
                ck.ob('fill-level-is-minimum', 'amgcl::relaxation::iluk::sparse_vector::%s' % f.q.split('::')[-1], f.where(w), not det, det)


def rule_spai0(ck, units):
    """spai0-numerator-adjoint: SPAI-0 is the diagonal M minimising ||I - M A||_F; row i gives m_i = a_ii^H / sum_j |a_ij|^2 (the
    conjugate - for blocks the conjugate transpose - of the diagonal entry).  In the constructors of relaxation::spai0 and
    mpi::relaxation::spai0 the numerator N of  m[i] = inverse(den) * N  is accumulated only from math::adjoint(entry)."""
    ck.rule('spai0-numerator-adjoint', 'spai0 (serial and distributed): the numerator of m_i = inverse(sum |a_ij|^2) * N is the adjoint of the diagonal entry (N += math::adjoint(v)): '
                                       'the row-wise least-squares minimiser of ||I - M A||_F for complex and block values', 1)
    done = set()
    for u in units.values():
        for f in u.funcs:
            if f.cls not in ('amgcl::relaxation::spai0', 'amgcl::mpi::relaxation::spai0') or not f.j.get('ctor') or f.body is None or f.cls in done:
                continue
            f = inline.expand(f, inline.same_class_helper())
            nums = set()
            for n in f.nodes.values():
                if n['k'] in ('bin', 'opcall') and n.get('op') == '=' and n.get('y') is not None:
                    y = unwrap(n['y'])
                    if y is not None and y['k'] in ('bin', 'opcall') and y.get('op') == '*':
                        a, b = unwrap(y['x']), unwrap(y['y'])
                        for p_, q in ((a, b), (b, a)):
                            if p_ is not None and p_['k'] == 'call' and (p_.get('f') or '').endswith('math::inverse') and q is not None and q['k'] == 'ref' and f.decl(q['d']).get('k') == 'local':
                                nums.add(f.canon(q['d']))
            if not nums:
                continue
            done.add(f.cls)
            bad, n_acc = [], 0
            for n in f.nodes.values():
                if n['k'] in ('bin', 'opcall') and n.get('op') in ('+=', '=') and n.get('x') is not None and unwrap(n['x'])['k'] == 'ref' and f.canon(unwrap(n['x'])['d']) in nums:
                    y = unwrap(n['y'])
                    if n['op'] == '=' and y is not None and (y['k'] == 'call' and (y.get('f') or '').endswith('math::zero') or y['k'] == 'lit'):
                        continue
                    n_acc += 1
                    if not (y is not None and y['k'] == 'call' and (y.get('f') or '').endswith('math::adjoint')):
                        bad.append(n)
            ck.ob('spai0-numerator-adjoint', f.cls, f.where(), not bad and n_acc > 0, '' if (not bad and n_acc) else (
                '`%s` at %s accumulates the diagonal entry itself: m_i = a_ii / sum |a_ij|^2 is the least-squares minimiser only for real (symmetric block) diagonals; '
                'the minimiser is adjoint(a_ii) / sum |a_ij|^2' % (show(bad[0])[:50], f.where(bad[0])) if bad else 'no accumulation of the numerator found'))


def rule_ilu_order(ck, units):
    ck.rule('ilu-multiplier-order', 'incomplete LU factorisations (ilu0, iluk, ilut): the elimination multiplier is (entry) * (inverted pivot D[c]) - the inverted pivot is the RIGHT factor '
                                    'in every such product of the three sibling constructors (the order matters for block values: (L U)_ic = a_ic needs l_ic = a_ic u_cc^-1)', 3)
    done = set()
    for u in units.values():
        for f in u.funcs:
            if not (f.cls in ('amgcl::relaxation::ilu0', 'amgcl::relaxation::iluk', 'amgcl::relaxation::ilut') and f.j.get('ctor') and f.cfg is not None) or f.cls in done:
                continue
            f = inline.expand(f, inline.same_class_helper())

            def is_D(e):
                e = unwrap(e)
                if e is None or e['k'] != 'idx':
                    return False
                b = unwrap(e['b'])
                while b is not None and b['k'] == 'un' and b['op'] == '*':
                    b = unwrap(b['e'])
                return b is not None and ((b['k'] == 'mem' and b['n'] == 'D') or (b['k'] == 'ref' and b['n'] == 'D'))
            sites = []
            for n in f.nodes.values():
                if n['k'] == 'bin' and n['op'] == '*' and (is_D(n['x']) != is_D(n['y'])):
                    other = unwrap(n['y'] if is_D(n['x']) else n['x'])
                    if other is not None and other['k'] == 'lit':
                        continue
                    sites.append((n, is_D(n['y'])))
            if not sites:
                continue
            done.add(f.cls)
            bad = [n for n, ok in sites if not ok]
            ck.ob('ilu-multiplier-order', f.cls, f.where(bad[0]) if bad else f.where(), not bad,
                  '' if not bad else 'at %s the multiplier is `%s`: the inverted pivot is applied from the left (the sibling factorisations apply it from the right)' % (f.where(bad[0]), show(bad[0])[:60]))


def main(tier):
    ck = Check('C06', tier, 'C06 (clauses): every relaxation sweep has correction form, so the exact solution is a fixed point; serial and parallel Gauss-Seidel kernels agree.')
    T = os.path.join(ir.VERIF, 'tus')
    names = ['rt_builtin', 'mpi_rt'] if tier == 'quick' else ['rt_builtin', 'vt_float', 'vt_complex', 'vt_block', 'be_block_crs', 'be_eigen', 'mpi_rt']
    specs = [dict(name=n, src=os.path.join(T, n + '.cpp'), mpi=(n == 'mpi_rt')) for n in names]
    units = ir.run_units(specs, 'C06')
    ck.add_units(units, specs)
    ck.rule('correction-form', 'apply_pre / apply_post modify x only by x += (residual-derived vector) with identity coefficient on x; '
                               'residual-derived = computed from residual(rhs, A, x, .) through constant operators of the object', 16)
    seen = set()
    for name, u in units.items():
        an = Analyzer([u])
        for f in u.funcs:
            if not (f.cls and f.cls.startswith(('amgcl::relaxation::', 'amgcl::mpi::relaxation::')) and f.cfg is not None):
                continue
            cname = f.cls.split('::')[-1]
            which = f.q.split('::')[-1]
            if cname in RESIDUAL_FORM and which in ('apply_pre', 'apply_post') and len(f.params) == 4:
                seen.add(cname)
                analyse(ck, u, an, f, f.cls, which)
    missing = [c for c in RESIDUAL_FORM if c not in seen]
    if missing:
        ck.brk('relaxation classes not instantiated: %s' % missing)
    rule_gs(ck, units)
    rule_chebyshev_bounds(ck, units)
    rule_ilu_order(ck, units)
    rule_iluk_level(ck, {k: v for k, v in units.items() if k == 'rt_builtin'})
    rule_spai0(ck, units)
    # 'the parallel level-scheduled triangular solve equals the serial one': schedule rules shared with C09
    import c09
    c09.rule_B(ck, {k: v for k, v in units.items() if k == 'rt_builtin'})
    ck.assumptions += ['constant operators of the object (diagonals, approximate inverses, triangular factors) are linear maps: zero in, zero out',
                       'that M is the documented splitting (ILU pattern/values, SPAI least squares, Chebyshev bounds) is numerical and not decided']
    return ck.finish()
