"""Verdict protocol shared by all checks (DESIGN.md 2.3, 2.4).

A check creates a Check, records obligations, and calls finish():
  exit 0  every obligation discharged (known findings printed),
  exit 1  VIOLATION lines for undischarged obligations not in known_findings.txt,
  exit 2  analysis broken (unit does not parse, instance floor not reached,
          frozen instance list differs from what /repo contains).
"""
import json
import os
import re
import sys
import time

from ir import VERIF, REPO, AnalysisBroken

KNOWN = os.path.join(VERIF, 'known_findings.txt')
# scratch runs (self-tests against a patched copy of the repository) redirect their evidence
EVID = os.environ.get('AMGCL_SA_EVIDENCE', os.path.join(VERIF, 'evidence'))


def load_known():
    """known_findings.txt lines:
         finding: property=<id> key=<key> <text>
         fixed: property=<id> <commit> <text>
    Only 'finding:' lines suppress; keys contain no line numbers."""
    out = {}
    if os.path.exists(KNOWN):
        for line in open(KNOWN):
            line = line.strip()
            m = re.match(r'finding:\s+property=(\S+)\s+key=(\S+)\s*(.*)', line)
            if m:
                out[(m.group(1), m.group(2))] = m.group(3)
    return out


class Check:
    def __init__(self, pid, tier, title=''):
        self.pid = pid
        self.tier = tier
        self.title = title
        self.t0 = time.time()
        self.obs = []          # obligations
        self.floors = {}       # rule -> minimum number of obligations
        self.units = []        # description of analysed units
        self.notes = []
        self.assumptions = []
        self.rules = {}        # rule -> text
        self.broken = []
        self.extra = {}
        try:
            self.seed = int(os.environ.get('VERIF_SEED', '0'))
        except ValueError:
            self.seed = 0

    def rule(self, name, text, floor=1):
        self.rules[name] = text
        self.floors[name] = floor

    def ob(self, rule, key, where, ok, detail='', trivial=False):
        """key: stable instance id without line numbers, e.g. file|function|symbol"""
        self.obs.append(dict(rule=rule, key=key, where=where, ok=bool(ok), detail=detail, trivial=trivial))
        return ok

    def brk(self, msg):
        self.broken.append(msg)

    def add_units(self, units, specs=None):
        for name, u in units.items():
            cmd = None
            if specs:
                for s in specs:
                    if s['name'] == name:
                        cmd = ' '.join(s.get('cmd', []))
            self.units.append(dict(name=name, source=u.name, functions=len(u.funcs), records=len(u.records), cmd=cmd))

    def finish(self):
        known = load_known()
        # de-duplicate obligations with same (rule,key): all instances must hold
        merged = {}
        for o in self.obs:
            k = (o['rule'], o['key'])
            if k not in merged:
                merged[k] = dict(o)
                merged[k]['n'] = 1
            else:
                m = merged[k]
                m['n'] += 1
                if not o['ok'] and m['ok']:
                    m.update(ok=False, where=o['where'], detail=o['detail'])
        obs = list(merged.values())
        if os.environ.get('AMGCL_SA_LIST'):      # debugging aid: list the instances of one rule
            for o in obs:
                if o['rule'] == os.environ['AMGCL_SA_LIST']:
                    print('  inst %s %s @ %s' % ('ok ' if o['ok'] else 'BAD', o['key'], o['where']))
        for r, fl in self.floors.items():
            n = sum(1 for o in obs if o['rule'] == r)
            if n < fl:
                self.brk('rule %s matched %d instances, floor is %d (anchor vanished?)' % (r, n, fl))
        failed = [o for o in obs if not o['ok']]
        viol, kf = [], []
        for o in failed:
            kk = (self.pid, '%s|%s' % (o['rule'], o['key']))
            if kk in known:
                kf.append((o, known[kk]))
            else:
                viol.append(o)
        os.makedirs(os.path.join(EVID, 'replay'), exist_ok=True)
        # remove stale replay files of this property
        rdir = os.path.join(EVID, 'replay')
        for fn in os.listdir(rdir):
            if fn.startswith(self.pid + '-'):
                os.unlink(os.path.join(rdir, fn))
        lines = []
        for o, txt in kf:
            lines.append('KNOWN-FINDING: property=%s %s|%s at %s: %s' % (self.pid, o['rule'], o['key'], o['where'], o['detail'] or txt))
        for k, o in enumerate(viol):
            rp = os.path.join(rdir, '%s-%d.json' % (self.pid, k))
            with open(rp, 'w') as f:
                json.dump(dict(property=self.pid, rule=o['rule'], rule_text=self.rules.get(o['rule'], ''), instance=o['key'],
                               where=o['where'], detail=o['detail'], repo=REPO,
                               how_to_replay='run: python3 /verif/check.py %s --tier %s  (static: the construct at "where" in the current tree is the counterexample)' % (self.pid, self.tier)), f, indent=1)
            lines.append('VIOLATION property=%s replay=%s' % (self.pid, rp))
            lines.append('  rule=%s instance=%s at %s: %s' % (o['rule'], o['key'], o['where'], o['detail']))
        nontriv = len({(o['rule'], o['key']) for o in obs if not o['trivial']})
        samples = []
        seen_rules = set()
        for o in obs:  # at least one sample per rule, failures first
            if o['rule'] not in seen_rules or not o['ok']:
                seen_rules.add(o['rule'])
                samples.append({k: o[k] for k in ('rule', 'key', 'where', 'ok', 'detail')})
        samples = samples[:60]
        per_rule = {}
        for o in obs:
            d = per_rule.setdefault(o['rule'], dict(obligations=0, discharged=0, floor=self.floors.get(o['rule'], 0)))
            d['obligations'] += 1
            d['discharged'] += 1 if o['ok'] else 0
        ev = dict(
            property_id=self.pid, tier=self.tier, seed=self.seed, level='other',
            coverage=dict(
                explanation=self.title + ' Static analysis of the current /repo sources: facts extracted by the libTooling '
                            'program sa/amgcl-sa from the listed units (template instantiations with resolved callees, clang CFG), '
                            'rules evaluated by sa/*.py; nothing from amgcl is executed.',
                obligations=len(obs), discharged=len(obs) - len(failed),
                evaluations=sum(o['n'] for o in obs), distinct_nontrivial=nontriv,
                rule='one obligation per (rule, instance); an instance is a function/struct/call site/OpenMP region found in the '
                     'analysed units; distinct = distinct (rule, instance key); non-trivial = the rule had something to check at that '
                     'instance (not vacuous).',
                rules=self.rules, per_rule=per_rule, samples=samples, units=self.units,
                exhaustive=True, known_findings=[o['rule'] + '|' + o['key'] for o, _ in kf],
                checker_cmd='python3 /verif/check.py %s --tier %s' % (self.pid, self.tier),
                trusted_base=['clang 14 front end, template instantiation and CFG construction', 'sa/amgcl-sa.cc fact extraction', 'rule evaluators in /verif/sa'],
                notes=self.notes, **self.extra),
            assumptions=self.assumptions,
            wall_s=round(time.time() - self.t0, 2),
            violations=len(viol))
        with open(os.path.join(EVID, self.pid + '.json'), 'w') as f:
            json.dump(ev, f, indent=1)
        print('%s [%s] units=%d obligations=%d discharged=%d known=%d violations=%d wall=%.1fs' % (
            self.pid, self.tier, len(self.units), len(obs), len(obs) - len(failed), len(kf), len(viol), time.time() - self.t0))
        for r, d in sorted(per_rule.items()):
            print('  rule %-28s %3d/%3d (floor %d)' % (r, d['discharged'], d['obligations'], d['floor']))
        for l in lines:
            print(l)
        for b in self.broken:
            print('ANALYSIS-BROKEN property=%s %s' % (self.pid, b))
        if viol:
            return 1   # a reported construct is a violation whatever else could not be analysed
        return 2 if self.broken else 0


def run_check(pid, tier, fn):
    try:
        return fn(tier)
    except AnalysisBroken as e:
        print('ANALYSIS-BROKEN property=%s %s' % (pid, e))
        return 2
