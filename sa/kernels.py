"""Shared structural rules about sparse kernels (used by C12 and C08)."""
from ir import walk, unwrap, show


def innermost_loop(f, n):
    for a in f.ancestors(n):
        if a['k'] in ('for', 'while', 'do', 'rfor'):
            return a
    return None


def is_ancestor(f, anc, n):
    return any(a is anc for a in f.ancestors(n))


def factor_order(f):
    """row-by-row sparse products C(i,:) += A(i,k) * B(k,:): the value fetched in the outer loop (entry of the left matrix)
    must be the LEFT operand of every multiplication with the value fetched in the loop nested inside it (entry of the right
    matrix) - the order matters for block (non-commuting) value types.
    An operand is a loop-local value `T v = M.val[j]` (fetched in the loop that declares it) or a direct read `M.val[j]`
    (fetched in the loop whose induction variable is j).
    Returns [(mul node, ok)] for every multiplication of two such values fetched in properly nested loops."""
    declnode = {}
    loopvar = {}       # induction / loop-header variable -> loop
    for n in f.nodes.values():
        if n['k'] == 'decl':
            for v in n['v']:
                declnode[v['d']] = (n, v)
        if n['k'] == 'for' and n.get('init') is not None:
            for x in walk(n['init']):
                if x['k'] == 'decl':
                    for v in x['v']:
                        loopvar[v['d']] = n

    def is_val_read(e):
        e = unwrap(e)
        if e is None or e['k'] != 'idx':
            return None
        b = unwrap(e['b'])
        if b is None or b['k'] != 'mem' or b['n'] != 'val':
            return None
        ix = unwrap(e['x'])
        return ix if ix is not None and ix['k'] == 'ref' else None

    def fetch_loop(e):
        """(loop in which the operand's value is fetched, type id) or None"""
        e = unwrap(e)
        if e is None:
            return None
        if e['k'] == 'ref' and e['d'] in declnode:
            dn, v = declnode[e['d']]
            if v.get('init') is not None and is_val_read(v['init']) is not None:
                return innermost_loop(f, dn)
            return None
        ix = is_val_read(e)
        if ix is not None:
            if ix['d'] in loopvar:
                return loopvar[ix['d']]
            if ix['d'] in declnode:
                return innermost_loop(f, declnode[ix['d']][0])
        return None
    out = []
    for n in f.nodes.values():
        if n['k'] != 'bin' or n['op'] != '*':
            continue
        lx, ly = fetch_loop(n['x']), fetch_loop(n['y'])
        if lx is None or ly is None or lx is ly:
            continue
        if is_ancestor(f, lx, ly):
            out.append((n, True))
        elif is_ancestor(f, ly, lx):
            out.append((n, False))
    return out
