"""Shared structural rules about sparse kernels (used by C12 and C08)."""
from ir import walk, unwrap, show


def innermost_loop(f, n):
    for a in f.ancestors(n):
        if a['k'] in ('for', 'while', 'do', 'rfor'):
            return a
    return None


def is_ancestor(f, anc, n):
    return any(a is anc for a in f.ancestors(n))


def factor_order(f):
    """row-by-row sparse products C(i,:) += A(i,k) * B(k,:): the value fetched in the outer loop (entry of the left matrix)
    must be the LEFT operand of every multiplication with the value fetched in the loop nested inside it (entry of the right
    matrix) - the order matters for block (non-commuting) value types.
    Returns [(mul node, ok)] for every multiplication of two such loop-local values."""
    declnode = {}
    for n in f.nodes.values():
        if n['k'] == 'decl':
            for v in n['v']:
                declnode[v['d']] = (n, v)
    out = []
    for n in f.nodes.values():
        if n['k'] != 'bin' or n['op'] != '*':
            continue
        x, y = unwrap(n['x']), unwrap(n['y'])
        if x is None or y is None or x['k'] != 'ref' or y['k'] != 'ref' or x['d'] == y['d']:
            continue
        if x['d'] not in declnode or y['d'] not in declnode:
            continue
        (dx, vx), (dy, vy) = declnode[x['d']], declnode[y['d']]
        # both are values read from a matrix array: T v = M.val[j]
        def from_array(v):
            i = unwrap(v.get('init')) if v.get('init') is not None else None
            return i is not None and i['k'] == 'idx'
        if not (from_array(vx) and from_array(vy)) or f.decl(x['d']).get('t') != f.decl(y['d']).get('t'):
            continue
        lx, ly = innermost_loop(f, dx), innermost_loop(f, dy)
        if lx is None or ly is None or lx is ly:
            continue
        if is_ancestor(f, lx, ly):
            out.append((n, True))
        elif is_ancestor(f, ly, lx):
            out.append((n, False))
    return out
