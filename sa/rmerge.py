"""Row-merge SpGEMM (amgcl/detail/spgemm.hpp: prod_row_width / prod_row): discipline of the walk over one row of A.

Both functions receive the row of A as the range (acol, acol_end) (prod_row also the values aval) and merge the rows of B the entries
select - one row directly, two rows by one merge, more rows by pairs plus a tail.  Whatever the branch, C = A * B needs

  rmerge-row-consumed   every entry of the row takes part: at every exit of the function the entries not yet passed by the walk have all
                        been read at the current position, and the walk never advances / reads past the end.  Decided by an interval
                        analysis of  r = (entries of the row not yet passed)  over the CFG; branch conditions in any spelling that is
                        linear in r (`nrows == 2`, `acol + 1 < acol_end`, `acol_end - acol > 1`, `acol == acol_end`, `k + 1 < nrows`)
                        refine the interval.
  rmerge-coefficient    an entry's value accompanies its column: (a) at every exit the values of the entries the walk has taken were
                        taken too; (b) in a merge_rows call, the coefficient of a row of B selected by the column at position p of the
                        row of A is the value at position p.

The walk may be written with moving pointers (`*acol++`, `acol += 2`, `acol[1]`) or with an index (`acol[k]`, `acol[k + 1]`, `k += 2`);
positions are kept relative to the current position of the walk in both spellings.  The rule decides the walk over A (which entries are
merged, with which coefficient), not merge_rows itself nor the numbers.
"""
from ir import walk, unwrap, show, children

INF = 10 ** 9


def _is_ref(e, d):
    e = unwrap(e)
    return e is not None and e['k'] == 'ref' and e['d'] == d


def _int_lit(e):
    e = unwrap(e)
    if e is not None and e['k'] == 'lit' and str(e.get('v', '')).lstrip('-').isdigit():
        return int(e['v'])
    return None


def _modified(f, d):
    for n in f.nodes.values():
        if n['k'] == 'un' and n['op'] in ('++', '--') and _is_ref(n['e'], d):
            return True
        if n['k'] == 'bin' and n['op'] in ('+=', '-=') and _is_ref(n['x'], d):
            return True
    return False


def _roles(f):
    """dict(cur, end, val, kidx): the range of column indices is given by the first two parameters (pointers of one type); the values by
    the pointer-to-const parameter of another pointee type that the function advances, dereferences or subscripts with a literal or with
    the walking index (bptr / bcol / bval are only subscripted by entries or offset; the out_* cursors point to non-const).  kidx: the
    integer local that subscripts the column pointer when the pointer itself does not move."""
    ps = list(f.params)
    if len(ps) < 2:
        return None
    d0, d1 = f.decl(ps[0]), f.decl(ps[1])
    if not d0.get('ptr') or not d1.get('ptr') or d0.get('ct') != d1.get('ct'):
        return None
    cur, end = ps[0], ps[1]
    kidx = None
    if not _modified(f, cur):
        cands = {}
        for n in f.nodes.values():
            if n['k'] == 'idx' and _is_ref(n['b'], cur):
                for x in walk(n['x']):
                    if x['k'] == 'ref' and f.decl(x['d']).get('k') == 'local' and (_modified(f, x['d'])):
                        cands[x['d']] = cands.get(x['d'], 0) + 1
        if len(cands) == 1:
            kidx = list(cands)[0]
        elif cands:
            return None
    val = None
    for p in ps[2:]:
        dp = f.decl(p)
        if not dp.get('ptr') or dp.get('ct') == d0.get('ct') or not f.unit.type(dp['ct']).startswith('const '):
            continue
        used = _modified(f, p)
        for n in f.nodes.values():
            if n['k'] == 'un' and n['op'] == '*' and _is_ref(n['e'], p):
                used = True
            if n['k'] == 'idx' and _is_ref(n['b'], p):
                if _int_lit(n['x']) is not None or (kidx is not None and any(x['k'] == 'ref' and x['d'] == kidx for x in walk(n['x']))):
                    used = True
        if used:
            val = p
            break
    return dict(cur=cur, end=end, val=val, kidx=kidx)


class _St(object):
    """lo..hi: interval of r; p: exact position of the walk or None; reads / rv: positions (relative to the walk) of the columns / values
    read there; d: position of a moving value pointer minus position of the walk; vars: (decl, kind, payload)"""
    __slots__ = ('lo', 'hi', 'p', 'reads', 'd', 'rv', 'vars')

    def __init__(self, lo, hi, p, reads, d, rv, vars_):
        self.lo, self.hi, self.p, self.reads, self.d, self.rv, self.vars = lo, hi, p, reads, d, rv, vars_

    def key(self):
        return (self.lo, self.hi, self.p, self.reads, self.d, self.rv, self.vars)

    def __eq__(self, o):
        return self.key() == o.key()

    def __ne__(self, o):
        return self.key() != o.key()

    def copy(self):
        return _St(self.lo, self.hi, self.p, self.reads, self.d, self.rv, self.vars)


def _join(a, b):
    lo = min(a.lo, b.lo)
    hi = max(a.hi, b.hi)
    if lo < a.lo:
        lo = 0                      # widening: a shrinking lower bound goes to its floor
    if hi > a.hi:
        hi = INF                    # widening: a growing upper bound goes to infinity
    return _St(lo, hi, a.p if a.p == b.p else None, a.reads & b.reads, a.d if a.d == b.d else None, a.rv & b.rv, a.vars & b.vars)


class Walk(object):
    def __init__(self, f, roles=None):
        self.f = f
        r = roles or _roles(f)
        self.cur, self.end, self.val, self.kidx = r['cur'], r['end'], r['val'], r['kidx']
        self.vptr = self.val is not None and _modified(f, self.val)
        self.problems = []          # (node, text)
        self.merges = {}            # call node id -> [(ok, text)]
        self.exits = {}             # node id / 'end' -> (tag, ok, text)
        self.advances = 0

    # ---- expression helpers
    def _pos_expr(self, e, st):
        """offset c when the subscript e denotes (position of the walk) + c: `k`, `k + 1`, `1 + k` in the index spelling"""
        e = unwrap(e)
        if e is None or self.kidx is None:
            return None
        if _is_ref(e, self.kidx):
            return 0
        if e['k'] == 'bin' and e['op'] in ('+', '-'):
            for a, b, sw in ((e['x'], e['y'], False), (e['y'], e['x'], True)):
                c = _int_lit(b)
                if _is_ref(a, self.kidx) and c is not None and not (sw and e['op'] == '-'):
                    return c if e['op'] == '+' else -c
        return None

    def _read_of(self, e, st):
        """(which, position relative to the walk) if e reads an element of the row: `*c`, `c[1]`, `*(c + 1)`, `*c++`, `c[k + 1]`; else None.
        Evaluated AFTER the side effects of e have been applied to st (a post-increment read lies one behind then)."""
        e = unwrap(e)
        if e is None:
            return None
        for which, c in (('c', self.cur), ('v', self.val)):
            if c is None:
                continue
            moving = (which == 'c' and self.kidx is None) or (which == 'v' and self.vptr)
            # base: position of the pointer c relative to the walk
            if which == 'c':
                base = 0 if moving else (None if st.p is None else -st.p)
            else:
                base = st.d if moving else (None if st.p is None else -st.p)
            off = None
            direct = False
            if e['k'] == 'un' and e['op'] == '*':
                x = unwrap(e['e'])
                if _is_ref(x, c):
                    off = 0
                elif x is not None and x['k'] == 'un' and x['op'] == '++' and _is_ref(x['e'], c):
                    off = -1 if x.get('post') else 0
                elif x is not None and x['k'] == 'bin' and x['op'] == '+':
                    for p_, q in ((x['x'], x['y']), (x['y'], x['x'])):
                        if _is_ref(p_, c):
                            if _int_lit(q) is not None:
                                off = _int_lit(q)
                            elif not moving and self._pos_expr(q, st) is not None:
                                off, direct = self._pos_expr(q, st), True
                            else:
                                return which, None
                if off is None:
                    continue
            elif e['k'] == 'idx' and _is_ref(e['b'], c):
                if _int_lit(e['x']) is not None:
                    off = _int_lit(e['x'])
                elif not moving and self._pos_expr(e['x'], st) is not None:
                    off, direct = self._pos_expr(e['x'], st), True
                else:
                    return which, None
            else:
                continue
            if direct:
                return which, off
            return which, (None if base is None else base + off)
        return None

    def _lin(self, e, st):
        """e as (kr, kN, c) = kr * r + kN * N + c, N the length of the row; None when not of that form"""
        e = unwrap(e)
        if e is None:
            return None
        c = _int_lit(e)
        if c is not None:
            return 0, 0, c
        if e['k'] == 'ref':
            if e['d'] == self.cur:
                return (-1, 1, 0) if self.kidx is None else (0, 0, 0)
            if e['d'] == self.end:
                return 0, 1, 0
            if self.kidx is not None and e['d'] == self.kidx:
                return -1, 1, 0
            for d, w, pay in st.vars:
                if d == e['d'] and w == 'l':
                    return pay
            return None
        if e['k'] == 'bin' and e['op'] in ('+', '-'):
            a, b = self._lin(e['x'], st), self._lin(e['y'], st)
            if a is None or b is None:
                return None
            s = 1 if e['op'] == '+' else -1
            return a[0] + s * b[0], a[1] + s * b[1], a[2] + s * b[2]
        return None

    # ---- transfer
    def _advance(self, st, which, n, node):
        if which == 'c':
            self.advances += 1
            if n < 0:
                self.problems.append((node, 'the walk over the row moves backwards at %s' % self.f.where(node)))
                return
            if st.lo < n:
                self.problems.append((node, 'the walk over the row is advanced at %s although %s may be left in the row' % (
                    self.f.where(node), 'no entry' if st.lo == 0 else 'only %d entries' % st.lo)))
            st.lo = max(0, st.lo - n)
            st.hi = st.hi if st.hi >= INF else max(0, st.hi - n)
            st.p = None if st.p is None else st.p + n
            st.reads = frozenset(k - n for k in st.reads if k - n >= 0)
            st.rv = frozenset(k - n for k in st.rv if k - n >= 0)
            if self.vptr:
                st.d = None if st.d is None else st.d - n
            nv = set()
            for d, w, pay in st.vars:
                if w in ('c', 'v'):
                    nv.add((d, w, pay - n))
                else:               # a value kr * r + ...: r_old = r_new + n
                    nv.add((d, w, (pay[0], pay[1], pay[2] + pay[0] * n)))
            st.vars = frozenset(nv)
        else:
            st.d = None if st.d is None else st.d + n

    def _effects(self, e, st):
        """apply, in evaluation order, the effects of the expression tree e on the walk"""
        if e is None:
            return
        k = e.get('k')
        if k == 'lambda':
            return
        if k == 'bin' and e['op'] in ('=', '+=', '-='):
            self._effects(e['y'], st)
            tgt = unwrap(e['x'])
            for which, c in (('c', self.cur if self.kidx is None else self.kidx), ('v', self.val)):
                if c is not None and _is_ref(tgt, c):
                    q = _int_lit(e['y'])
                    if e['op'] == '+=' and q is not None:
                        self._advance(st, which, q, e)
                    elif e['op'] == '=' and which == 'c' and self.kidx is not None and q is not None and st.p is not None:
                        self._advance(st, 'c', q - st.p, e)
                    else:
                        self.problems.append((e, '`%s` is reassigned at %s in a way the analysis does not follow' % (self.f.decl(c)['n'], self.f.where(e))))
                    return
            self._effects(e['x'], st)
            if e['op'] == '=' and tgt is not None and tgt['k'] == 'ref':
                self._define(tgt['d'], e['y'], st)
            return
        if k == 'un' and e['op'] in ('++', '--'):
            for which, c in (('c', self.cur if self.kidx is None else self.kidx), ('v', self.val)):
                if c is not None and _is_ref(e['e'], c):
                    self._advance(st, which, 1 if e['op'] == '++' else -1, e)
                    return
        if k == 'decl':
            for v in e['v']:
                if v.get('init') is not None:
                    self._effects(v['init'], st)
                    if self.kidx is not None and v['d'] == self.kidx:
                        q = _int_lit(v['init'])
                        if q is not None and st.p is not None:
                            self._advance(st, 'c', q - st.p, e)
                        else:
                            self.problems.append((e, 'the walking index `%s` starts at %s from a value the analysis does not follow' % (self.f.decl(self.kidx)['n'], self.f.where(e))))
                        continue
                    self._define(v['d'], v['init'], st)
            return
        for ch in children(e):
            self._effects(ch, st)
        r = self._read_of(e, st)
        if r is not None and r[1] is not None and r[1] >= 0:
            which, pos = r
            if which == 'c':
                if st.lo < pos + 1:
                    self.problems.append((e, 'the row entry at offset %d from the position of the walk is read at %s although %s may be left' % (
                        pos, self.f.where(e), 'no entry' if st.lo == 0 else 'only %d' % st.lo)))
                st.reads = st.reads | {pos}
            else:
                st.rv = st.rv | {pos}
        if k == 'call' and (e.get('f') or '').split('<')[0].endswith('merge_rows'):
            self._merge(e, st)

    def _define(self, d, init, st):
        st.vars = frozenset(x for x in st.vars if x[0] != d)
        r = self._read_of(init, st)
        if r is not None and r[1] is not None:
            st.vars = st.vars | {(d, r[0], r[1])}
            return
        l = self._lin(init, st)
        if l is not None and (l[0] != 0 or l[1] != 0):
            st.vars = st.vars | {(d, 'l', l)}
            return
        # a local computed from one entry (`b1_beg = bptr[ac1]`, `row1_end = bcol + bptr[a1 + 1]`) stands for that entry
        for which in ('c', 'v'):
            ps = self._positions(init, st, which)
            if len(ps) == 1 and None not in ps:
                st.vars = st.vars | {(d, which, min(ps))}
                return

    def _positions(self, e, st, which):
        """positions, relative to the walk, of the columns ('c') / values ('v') of A the expression e mentions"""
        out = set()
        for x in walk(e):
            if x['k'] == 'ref':
                for d, w, pay in st.vars:
                    if d == x['d'] and w == which:
                        out.add(pay)
            r = self._read_of(x, st)
            if r is not None and r[0] == which:
                out.add(r[1])
        return out

    def _merge(self, call, st):
        a = call.get('a', [])
        if len(a) < 8:
            return                  # the width-only variant has no coefficients
        res = []
        for g in (0, 4):
            coef, rows = a[g], a[g + 1:g + 4]
            cpos = set()
            for x in rows:
                cpos |= self._positions(x, st, 'c')
            vpos = self._positions(coef, st, 'v')
            if not cpos:
                continue            # a temporary row (already scaled)
            if len(cpos) != 1 or None in cpos:
                res.append((False, 'the row of B passed as operand %d of the merge at %s is delimited through different entries of A' % (g // 4 + 1, self.f.where(call))))
            elif not vpos:
                res.append((False, 'the row of B selected by the entry of A at offset %d from the walk is merged at %s with coefficient `%s`, which is not the value of that entry' % (
                    min(cpos), self.f.where(call), show(coef)[:40])))
            elif vpos != cpos:
                res.append((False, 'the row of B selected by the entry of A at offset %s from the walk is merged at %s with the value of the entry at offset %s (`%s`)' % (
                    min(cpos), self.f.where(call), sorted(vpos, key=lambda z: (z is None, z))[0], show(coef)[:40])))
            else:
                res.append((True, ''))
        prev = self.merges.get(call['i'])
        if prev is None or any(not ok for ok, _ in res):
            self.merges[call['i']] = res

    def _refine(self, c, st, truth):
        c = unwrap(c)
        if c is None:
            return st
        if c['k'] == 'un' and c['op'] == '!':
            return self._refine(c['e'], st, not truth)
        if c['k'] != 'bin' or c['op'] not in ('<', '<=', '>', '>=', '==', '!='):
            return st
        L, R = self._lin(c['x'], st), self._lin(c['y'], st)
        if L is None or R is None:
            return st
        kr, kn, k0, op = L[0] - R[0], L[1] - R[1], L[2] - R[2], c['op']
        if kn != 0 and st.p is not None:
            kr, k0, kn = kr + kn, k0 + kn * st.p, 0        # N = r + (position of the walk)
        if kn != 0:
            return st
        if kr == 0:
            val = {'<': k0 < 0, '<=': k0 <= 0, '>': k0 > 0, '>=': k0 >= 0, '==': k0 == 0, '!=': k0 != 0}[op]
            return st if val == truth else None
        if kr not in (1, -1):
            return st
        if kr == -1:
            k0 = -k0
            op = {'<': '>', '<=': '>=', '>': '<', '>=': '<=', '==': '==', '!=': '!='}[op]
        if not truth:
            op = {'<': '>=', '<=': '>', '>': '<=', '>=': '<', '==': '!=', '!=': '=='}[op]
        t = -k0                     # r op t
        st = st.copy()
        if op == '<':
            st.hi = min(st.hi, t - 1)
        elif op == '<=':
            st.hi = min(st.hi, t)
        elif op == '>':
            st.lo = max(st.lo, t + 1)
        elif op == '>=':
            st.lo = max(st.lo, t)
        elif op == '==':
            st.lo, st.hi = max(st.lo, t), min(st.hi, t)
        elif op == '!=':
            if st.lo == t:
                st.lo += 1
            if st.hi == t:
                st.hi -= 1
        return None if st.lo > st.hi else st

    def _exit_check(self, st, node):
        f = self.f
        where = ('the exit at %s' % f.where(node)) if node is not None else 'the end of the function'
        key = node['i'] if node is not None else 'end'
        if key in self.exits and not self.exits[key][1]:
            return
        if st.hi >= INF or not set(range(st.hi)) <= set(st.reads):
            left = 'any number of' if st.hi >= INF else 'up to %d' % (st.hi - len([k for k in range(st.hi) if k in st.reads]))
            self.exits[key] = ('row', False, 'at %s %s entries of the row of A may be left that were neither passed by the walk nor read (entries left in [%d, %s], read at the '
                                             'position of the walk: %s)' % (where, left, st.lo, 'inf' if st.hi >= INF else st.hi, sorted(st.reads)))
        elif self.val is not None and ((self.vptr and st.d != 0) or not set(range(st.hi)) <= set(st.rv)):
            self.exits[key] = ('coef', False, 'at %s the values of the row have not been taken along with its columns (%svalues read at the position of the walk: %s, columns read: %s)' % (
                where, '' if not self.vptr else ('the value pointer is %s the column walk; ' % ('level with' if st.d == 0 else ('%+d from' % st.d if st.d is not None else 'at an unknown distance from'))),
                sorted(st.rv), sorted(st.reads)))
        elif key not in self.exits:
            self.exits[key] = ('', True, '')

    def run(self):
        """The abstract state is a small disjunction of interval states, one per (entries read at the position of the walk, distance of a
        moving value pointer): `if (acol != acol_end) { a = *acol; ... }` leaves {one entry left, read} on one side and {none left} on
        the other - both fine, their interval hull with the intersection of the reads would not be."""
        f, cfg = self.f, self.f.cfg
        init = (_St(0, INF, 0, frozenset(), 0, frozenset(), frozenset()),)
        states = {'exit': []}

        def part(st):
            return (st.reads, st.rv, st.d)

        def norm(sts, old=()):
            by = {}
            oldby = {part(o): o for o in old}
            for st in sts:
                k = part(st)
                if k in by:
                    a = by[k]
                    by[k] = _St(min(a.lo, st.lo), max(a.hi, st.hi), a.p if a.p == st.p else None, a.reads, a.d, a.rv, a.vars & st.vars)
                else:
                    by[k] = st
            out = []
            for k, st in by.items():
                if k in oldby:
                    st = _join(oldby[k], st)
                out.append(st)
            for k, o in oldby.items():
                if k not in by:
                    out.append(o)
            if len(out) > 12:       # give up the partition: one hull
                h = out[0]
                for st in out[1:]:
                    h = _join(h, st)
                out = [h]
            return tuple(sorted(out, key=lambda z: (z.lo, z.hi, z.p is None, z.p or 0, sorted(z.reads), sorted(z.rv), z.d is None, z.d or 0, sorted(map(str, z.vars)))))

        def transfer(b, sts):
            out = []
            for st in sts:
                st = st.copy()
                for e in cfg.elements(b):
                    if e['k'] == 'return':
                        if e.get('e') is not None:
                            self._effects(e['e'], st)
                        states['exit'].append((e, st.copy()))
                    else:
                        self._effects(e, st)
                if cfg.exit in cfg.succ[b] and not any(e['k'] == 'return' for e in cfg.elements(b)):
                    last = None
                    for e in cfg.elements(b):
                        last = e
                    states['exit'].append((last if last is not None and last.get('i', -1) >= 0 else None, st.copy()))
                out.append(st)
            return norm(out)

        def edge(b, k, s, sts):
            c = cfg.cond(b)
            if c is None or len(cfg.succ[b]) != 2:
                return sts
            out = [r for r in (self._refine(c, st, k == 0) for st in sts) if r is not None]
            return norm(out) if out else None

        def join(a, b):
            return norm(b, old=a)

        # the checks are evaluated on the fixpoint: collect problems only in a final pass
        IN, OUT = cfg.forward(init, transfer, edge=edge, join=join)
        self.problems, self.merges, self.exits, self.advances = [], {}, {}, 0
        states['exit'] = []
        for b in IN:
            transfer(b, IN[b])
        for node, st in states['exit']:
            self._exit_check(st, node)
        return self


def rule_rmerge(ck, units, control=None, floor_rows=2, floor_coef=5):
    ck.rule('rmerge-row-consumed', 'row-merge SpGEMM (prod_row_width, prod_row): on every path every entry of the row of A takes part - at each exit the entries not passed by the '
                                   'walk have all been read at its position, and the walk never advances or reads past the end (interval analysis of the number of entries left '
                                   'over the CFG, branch conditions in any linear spelling, pointer or index walk)', floor_rows)
    ck.rule('rmerge-coefficient', 'row-merge SpGEMM (prod_row): the value of an entry accompanies its column - at each exit the values of the entries taken were taken too, and in '
                                  'every merge_rows call the coefficient of a row of B selected by the entry at position p is the value at position p', floor_coef)
    if control is not None:
        seen = False
        for f in control.funcs:
            if f.q == 'verif_control::rmerge_leaves_one' and f.cfg is not None:
                w = Walk(f).run()
                seen = any(tag == 'row' for tag, ok, t in w.exits.values())
        if not seen:
            ck.brk('rmerge-row-consumed: the positive control verif_control::rmerge_leaves_one (tus/controls.cpp) was not reported - the rule is blind')
    done = set()
    for u in units.values():
        for f in u.funcs:
            if f.q not in ('amgcl::backend::prod_row_width', 'amgcl::backend::prod_row') or f.cfg is None or f.body is None:
                continue
            if (f.q, f.line) in done:
                continue
            done.add((f.q, f.line))
            roles = _roles(f)
            if roles is None:
                continue
            w = Walk(f, roles).run()
            if w.advances == 0:
                continue            # not written as a walk the analysis knows: not an instance of this rule (the floor notices)
            bad = [t for _, t in w.problems] + [t for tag, ok, t in w.exits.values() if tag == 'row']
            ck.ob('rmerge-row-consumed', '%s|%s' % (f.rel(), f.q), f.where(), not bad, '; '.join(sorted(set(bad)))[:900])
            if w.val is None:
                continue
            badv = [t for tag, ok, t in w.exits.values() if tag == 'coef']
            ck.ob('rmerge-coefficient', '%s|%s|exits' % (f.rel(), f.q), f.where(), not badv, '; '.join(sorted(set(badv)))[:900])
            for k, (cid, res) in enumerate(sorted(w.merges.items())):
                for j, (ok, t) in enumerate(res):
                    ck.ob('rmerge-coefficient', '%s|%s|merge#%d.%d' % (f.rel(), f.q, k + 1, j + 1), f.where(f.nodes[cid]), ok, t)


def rule_factor_order(ck, units, floor=4):
    """C = A * B for non-commuting (block) values: wherever the row-merge kernel multiplies a coefficient taken from A (the by-value / by-reference
    scalar: alpha1, alpha2 of merge_rows, the local read from the value cursor in prod_row) with a value of B read through a pointer
    (`*val1++`, `*bv++`), the coefficient of A is the LEFT factor."""
    ck.rule('rmerge-factor-order', 'row-merge SpGEMM (merge_rows, prod_row): in every product of a coefficient of A (a plain variable) and a value of B read through a pointer the '
                                   'coefficient of A is the left factor (block values do not commute)', floor)
    done = set()
    for u in units.values():
        for f in u.funcs:
            if f.q not in ('amgcl::backend::merge_rows', 'amgcl::backend::prod_row') or f.body is None or (f.q, f.line) in done:
                continue

            def through_pointer(e):
                e = unwrap(e)
                return e is not None and ((e['k'] == 'un' and e['op'] == '*') or e['k'] == 'idx')

            def plain(e):
                e = unwrap(e)
                return e is not None and e['k'] == 'ref' and not f.decl(e['d']).get('ptr')
            k = 0
            for n in sorted((x for x in f.nodes.values() if x['k'] == 'bin' and x['op'] == '*'), key=lambda x: x['i']):
                a, b = n['x'], n['y']
                if (plain(a) and through_pointer(b)) or (plain(b) and through_pointer(a)):
                    k += 1
                    ok = plain(a)
                    ck.ob('rmerge-factor-order', '%s|%s|product#%d' % (f.rel(), f.q.split('::')[-1], k), f.where(n), ok, '' if ok else
                          '`%s` at %s multiplies the value of B (read through a pointer) from the left with the coefficient of A: for block values the entry of C is B_kj * A_ik instead of A_ik * B_kj' % (
                              show(n)[:50], f.where(n)))
            if k:
                done.add((f.q, f.line))


def rule_scratch_fits(ck, units, floor=2):
    """spgemm_rmerge gives prod_row_width / prod_row sub-buffers of one per-thread scratch vector: t, t + W, t + 2 * W with W the widest
    row of the product.  Every sub-buffer receives a merged row of up to W entries, so a vector whose sub-buffers start at k * W needs
    (max k + 1) * W elements.  Decided by evaluating the resize argument and the pointer offsets as multiples of W (locals that name a
    size or a sub-buffer are resolved)."""
    import idioms
    ck.rule('rmerge-scratch-fits', 'spgemm_rmerge: a per-thread scratch vector resized to c * W holds every sub-buffer handed to the row kernels: the largest offset k * W used with it '
                                   'satisfies k + 1 <= c', floor)
    done = set()
    for u in units.values():
        for f in u.funcs:
            if f.q != 'amgcl::backend::spgemm_rmerge' or f.body is None or (f.q, f.line) in done:
                continue
            done.add((f.q, f.line))

            def res(e):
                return unwrap(idioms._resolve_local(f, e))

            def mult(e, W):
                """e as an integer multiple of the variable W (None if not of that form)"""
                e = res(e)
                if e is None:
                    return None
                if e['k'] == 'ref':
                    return 1 if e['d'] == W else None
                if e['k'] == 'lit' and str(e.get('v', '')).isdigit():
                    return 0 if int(e['v']) == 0 else None
                if e['k'] == 'bin' and e['op'] == '*':
                    for a, b in ((e['x'], e['y']), (e['y'], e['x'])):
                        a_ = res(a)
                        if a_ is not None and a_['k'] == 'lit' and str(a_.get('v', '')).isdigit():
                            m = mult(b, W)
                            return None if m is None else int(a_['v']) * m
                if e['k'] == 'bin' and e['op'] == '+':
                    a, b = mult(e['x'], W), mult(e['y'], W)
                    return None if a is None or b is None else a + b
                return None

            def base_and_offset(e, W, depth=0):
                """(scratch vector decl, k) for an expression that points k * W elements into tmp[...]"""
                e = unwrap(e)
                if e is None or depth > 4:
                    return None
                if e['k'] == 'ref' and f.decl(e['d']).get('k') == 'local':
                    inits = [v['init'] for n in f.nodes.values() if n['k'] == 'decl' for v in n['v'] if v['d'] == e['d'] and v.get('init') is not None]
                    return base_and_offset(inits[0], W, depth + 1) if len(inits) == 1 else None
                if e['k'] == 'bin' and e['op'] == '+':
                    for p_, q in ((e['x'], e['y']), (e['y'], e['x'])):
                        b = base_and_offset(p_, W, depth + 1)
                        m = mult(q, W)
                        if b is not None and m is not None:
                            return b[0], b[1] + m
                    return None
                # &tmp[tid][0]  /  tmp[tid].data()
                for x in walk(e):
                    if x['k'] == 'ref' and x['d'] in vecs:
                        return x['d'], 0
                return None
            # resize sites: tmp[i].resize(c * W)
            sizes, vecs = {}, set()
            W = None
            for n in f.nodes.values():
                if n['k'] == 'call' and n.get('m') == 'resize' and n.get('obj') is not None and n.get('a'):
                    roots = [x['d'] for x in walk(n['obj']) if x['k'] == 'ref' and f.decl(x['d']).get('k') == 'local']
                    # `for (auto &buf : tmp) buf.resize(..)`: the loop variable stands for the elements of its range
                    for a in f.ancestors(n):
                        if a['k'] == 'rfor' and isinstance(a.get('var'), dict) and a['var'].get('d') in roots and a.get('range') is not None:
                            roots = [x['d'] for x in walk(a['range']) if x['k'] == 'ref' and f.decl(x['d']).get('k') == 'local']
                    if not roots:
                        continue
                    arg = n['a'][0]
                    refs = [x['d'] for x in idioms.deep_nodes(f, arg) if x['k'] == 'ref' and f.decl(x['d']).get('k') == 'local' and idioms._resolve_local(f, x) is x]
                    for w in refs:
                        c = mult(arg, w)
                        if c is not None and c > 0:
                            W = w
                            sizes[roots[0]] = (c, n)
                            vecs.add(roots[0])
            if W is None:
                continue
            used = {}
            for n in f.nodes.values():
                if n['k'] == 'call' and (n.get('f') or '').split('<')[0] in ('amgcl::backend::prod_row_width', 'amgcl::backend::prod_row'):
                    for a in n.get('a', []):
                        bo = base_and_offset(a, W)
                        if bo is not None and bo[0] in sizes:
                            if bo[0] not in used or used[bo[0]][0] < bo[1]:
                                used[bo[0]] = (bo[1], n, a)
            for v, (c, site) in sorted(sizes.items()):
                if v not in used:
                    continue
                k, call, arg = used[v]
                ok = k + 1 <= c
                ck.ob('rmerge-scratch-fits', 'spgemm_rmerge|%s' % f.decl(v)['n'], f.where(site), ok, '' if ok else
                      '`%s` is resized to %d * %s per thread at %s, but `%s` (offset %d * %s) is handed to %s at %s as a buffer for a merged row of up to %s entries: the row kernel writes '
                      'past the end of the vector' % (f.decl(v)['n'], c, f.decl(W)['n'], f.where(site), show(arg)[:40], k, f.decl(W)['n'], (call.get('f') or '').split('::')[-1], f.where(call), f.decl(W)['n']))
