"""C08 - sparse matrix kernels (DESIGN.md 4, C08): the clauses that are visible in the shape of the code.

The property is about values (kernels equal their dense definitions) and is not decided as a whole.  Decided:

adjoint-conjugates   `math::adjoint` of every non-real value type conjugates: std::conj for complex, element-wise
                     math::adjoint with swapped indices for static_matrix, .adjoint() for Eigen blocks
transpose-adjoint    backend::transpose stores math::adjoint(A.val[j]) - every value of the transposed matrix passes through
                     the conjugate transpose of its value type ("conjugate transpose for complex/block values")
product-dispatch     backend::product hands the same (A, B, *C) to the marker-based and to the row-merge kernel (the latter is
                     selected only above 16 threads, which no test reaches), and returns that C
factor-order         the marker-based kernel multiplies (entry of A) * (entry of B) in this order at every accumulation site
rmerge-row-consumed / rmerge-coefficient   (rmerge.py) the row-merge kernel walks the whole row of A on every path and pairs each
                     column with its own value
radius-siblings      the diagonal scaling of the Gershgorin / power-method estimate is the same code in the serial and the
                     distributed kernel (shared with C06)
"""
import os

import ir
from ir import walk, unwrap, show
from accesses import Analyzer
from framework import Check
from effects import locate
import c06
import kernels


def rule_adjoint(ck, units):
    ck.rule('adjoint-conjugates', 'math::adjoint conjugates for every non-real value type: complex -> std::conj(x); static_matrix -> y(j,i) = math::adjoint(x(i,j)); '
                                  'Eigen blocks -> x.adjoint()', 3)
    done = set()
    for u in units.values():
        for f in u.funcs:
            if f.q != 'amgcl::math::adjoint_impl::get' or f.body is None:
                continue
            t = (f.clsfull or f.full)
            kind = 'complex' if 'adjoint_impl<std::complex' in t else ('static_matrix' if 'adjoint_impl<amgcl::static_matrix' in t else ('eigen' if 'adjoint_impl<Eigen::Matrix' in t else None))
            if kind is None:
                continue
            key = 'amgcl::math::adjoint_impl<%s>' % kind
            if (key, f.line) in done:
                continue
            done.add((key, f.line))
            det = ''
            p0 = f.params[0]
            if kind == 'complex':
                ok = any(c['k'] == 'call' and (c.get('f') or '').split('<')[0] == 'std::conj' and unwrap(c['a'][0])['k'] == 'ref' and unwrap(c['a'][0])['d'] == p0
                         for r in f.returns() for c in walk(r['e'])) and bool(f.returns())
                if not ok:
                    # complex(real(x), -imag(x)) spelled out
                    for r in f.returns():
                        neg_im = any(c['k'] == 'un' and c['op'] == '-' and any(y['k'] == 'call' and ((y.get('f') or '').split('<')[0] in ('std::imag',) or y.get('m') == 'imag') for y in walk(c['e'])) for c in walk(r['e']))
                        re = any(y['k'] == 'call' and ((y.get('f') or '').split('<')[0] in ('std::real',) or y.get('m') == 'real') for y in walk(r['e']))
                        ok = ok or (neg_im and re)
                det = '' if ok else 'the adjoint of a complex number is not std::conj(x)'
            elif kind == 'eigen':
                ok = any(c['k'] == 'call' and c.get('m') == 'adjoint' for r in f.returns() for c in walk(r['e']))
                det = '' if ok else 'the adjoint of an Eigen block is not x.adjoint()'
            else:
                ok = False
                for n in f.nodes.values():
                    if n['k'] == 'bin' and n['op'] == '=':
                        lhs, rhs = unwrap(n['x']), unwrap(n['y'])
                        if lhs is not None and lhs['k'] == 'call' and lhs.get('op') == '()' and len(lhs.get('a', [])) == 2:
                            li = [unwrap(a).get('d') for a in lhs['a']]
                            conj = rhs is not None and rhs['k'] == 'call' and (rhs.get('f') or '').split('<')[0] == 'amgcl::math::adjoint'
                            src = unwrap(rhs['a'][0]) if conj and rhs.get('a') else rhs
                            swapped = src is not None and src['k'] == 'call' and src.get('op') == '()' and len(src.get('a', [])) == 2 and \
                                [unwrap(a).get('d') for a in src['a']] == li[::-1] and unwrap(src['obj'])['k'] == 'ref' and unwrap(src['obj'])['d'] == p0
                            if conj and swapped:
                                ok = True
                            elif swapped and not conj:
                                det = 'the block adjoint at %s transposes the block without conjugating its elements (`%s`)' % (f.where(n), show(n)[:60])
                            elif conj and not swapped:
                                det = 'the block adjoint at %s conjugates without swapping the indices (`%s`)' % (f.where(n), show(n)[:60])
                if not ok and not det:
                    det = 'no element assignment y(j,i) = math::adjoint(x(i,j)) found'
            ck.ob('adjoint-conjugates', key, f.where(), ok, det)


def rule_transpose(ck, units):
    ck.rule('transpose-adjoint', 'backend::transpose: every value stored into the transposed matrix is math::adjoint(<value of A>)', 1)
    done = set()
    for u in units.values():
        an = Analyzer([u])
        for f in u.funcs:
            if f.q != 'amgcl::backend::transpose' or f.cfg is None or len(f.params) != 1:
                continue
            if f.line in done:
                continue
            done.add(f.line)
            stores = []
            for n in f.nodes.values():
                if n['k'] == 'bin' and n['op'] == '=':
                    lhs = unwrap(n['x'])
                    if lhs is not None and lhs['k'] == 'idx' and unwrap(lhs['b'])['k'] == 'mem' and unwrap(lhs['b'])['n'] == 'val':
                        stores.append(n)
            bad = []
            for n in stores:
                rhs = unwrap(n['y'])
                ok = rhs is not None and rhs['k'] == 'call' and (rhs.get('f') or '').split('<')[0] == 'amgcl::math::adjoint' and an.root_of_expr(f, rhs['a'][0]) == ('param', 0)
                if not ok:
                    bad.append(n)
            ck.ob('transpose-adjoint', 'amgcl::backend::transpose', f.where(bad[0]) if bad else f.where(), bool(stores) and not bad,
                  ('no value store found' if not stores else 'the value stored at %s is `%s`, not math::adjoint of the entry of A: complex / block values are transposed without conjugation' % (
                      f.where(bad[0]), show(bad[0]['y'])[:60])) if (bad or not stores) else '')


def rule_dispatch(ck, units):
    ck.rule('product-dispatch', 'backend::product passes (A, B, *C) of its own arguments to whichever SpGEMM kernel it selects and returns that C', 1)
    done = set()
    for u in units.values():
        an = Analyzer([u])
        for f in u.funcs:
            if f.q != 'amgcl::backend::product' or f.cfg is None or len(f.params) < 2 or 'crs<' not in u.type(f.decl(f.params[0]).get('ct')):
                continue
            if f.line in done:
                continue
            done.add(f.line)
            ks = [c for c in f.calls() if (c.get('f') or '').startswith('amgcl::backend::spgemm_')]
            dets = []
            rets = f.returns()
            rroot = {an.root_of_expr(f, r['e']) for r in rets}
            for c in ks:
                roots = [an.root_of_expr(f, a) for a in c['a'][:3]]
                if roots[:2] != [('param', 0), ('param', 1)]:
                    dets.append('%s at %s is called with %s, expected (A, B, C)' % (c['f'].split('::')[-1], f.where(c), roots))
                if len(roots) < 3 or roots[2] not in rroot:
                    dets.append('%s at %s does not fill the matrix that is returned' % (c['f'].split('::')[-1], f.where(c)))
            names = sorted({c['f'].split('::')[-1].split('<')[0] for c in ks})
            if names != ['spgemm_rmerge', 'spgemm_saad']:
                dets.append('expected one call of spgemm_saad and one of spgemm_rmerge, found %s' % names)
            ck.ob('product-dispatch', 'amgcl::backend::product', f.where(), not dets, '; '.join(dets[:2]))


def rule_order(ck, units):
    ck.rule('factor-order', 'spgemm_saad: at every accumulation site the entry of A (outer loop) is the left and the entry of B (nested loop) the right factor', 1)
    done = set()
    for u in units.values():
        for f in u.funcs:
            if f.q != 'amgcl::backend::spgemm_saad' or f.cfg is None or f.line in done:
                continue
            done.add(f.line)
            sites = kernels.factor_order(f)
            bad = [n for n, ok in sites if not ok]
            ck.ob('factor-order', 'amgcl::backend::spgemm_saad', f.where(bad[0]) if bad else f.where(), bool(sites) and not bad,
                  ('no accumulation site found' if not sites else 'at %s the product is `%s`: the entry of B is the left factor' % (f.where(bad[0]), show(bad[0]))) if (bad or not sites) else '')


def rule_first_flag(ck, units, floor=5):
    """flagged reductions:  if (F) { F = <off>; ACC = X; } else { ACC = g(ACC, X); }   (F a boolean local, <off> the literal opposite to
    the one that arms it).  ACC is the reduction of every X met since F was last armed.  The loops that enclose the pattern but none
    of the places where ACC is consumed are the loops the reduction runs over; F must not be re-armed inside them (the reduction would
    restart and forget what it has seen)."""
    ck.rule('flagged-reduction-scope', 'a first-element flag of a min/max reduction is armed outside the loops the reduction runs over (the loops around the reduction step that '
                                       'do not contain a consumer of the accumulator)', floor)
    done = set()
    for u in units.values():
        for f in u.funcs:
            if f.body is None or (f.file, f.line) in done or not f.rel().startswith('amgcl/'):
                continue
            k = 0
            for n in f.nodes.values():
                if n['k'] != 'if' or n.get('t') is None or n.get('e') is None:
                    continue
                c = unwrap(n['c'])
                if c is None or c['k'] != 'ref' or f.decl(c['d']).get('k') != 'local':
                    continue
                F = f.canon(c['d'])
                offs = [m for m in walk(n['t']) if m['k'] == 'bin' and m['op'] == '=' and unwrap(m['x'])['k'] == 'ref' and f.canon(unwrap(m['x'])['d']) == F
                        and unwrap(m['y'])['k'] == 'lit' and unwrap(m['y']).get('t') == 'bool']
                if len(offs) != 1:
                    continue
                off = unwrap(offs[0]['y'])['v']
                tas = [m for m in walk(n['t']) if m['k'] == 'bin' and m['op'] == '=' and m is not offs[0] and unwrap(m['x'])['k'] == 'ref']
                eas = [m for m in walk(n['e']) if m['k'] == 'bin' and m['op'] == '=' and unwrap(m['x'])['k'] == 'ref']
                if len(tas) != 1 or len(eas) != 1 or f.canon(unwrap(tas[0]['x'])['d']) != f.canon(unwrap(eas[0]['x'])['d']):
                    continue
                ACC = f.canon(unwrap(tas[0]['x'])['d'])
                if not any(x['k'] == 'ref' and f.canon(x['d']) == ACC for x in walk(eas[0]['y'])):
                    continue
                k += 1
                inside = {x['i'] for x in walk(n)}
                loops = [a for a in f.ancestors(n) if a['k'] in ('for', 'while', 'do', 'rfor')]
                consumers = [x for x in f.nodes.values() if x['k'] == 'ref' and f.canon(x['d']) == ACC and x['i'] not in inside
                             and not any(a_['k'] == 'decl' and a_.get('v') and any(f.decl(v_['d']).get('inl_param') for v_ in a_['v']) for a_ in f.ancestors(x))]
                # plain (re)definitions of ACC are not consumers
                defs_ = {unwrap(m['x'])['i'] for m in f.nodes.values() if m['k'] == 'bin' and m['op'] == '=' and unwrap(m['x'])['k'] == 'ref' and f.canon(unwrap(m['x'])['d']) == ACC}
                consumers = [x for x in consumers if x['i'] not in defs_]
                over = [L for L in loops if not any(x['i'] in {y['i'] for y in walk(L)} for x in consumers)]
                arm = 'true' if off == 'false' else 'false'
                arms = []
                for m in f.nodes.values():
                    if m['k'] == 'decl':
                        for v in m['v']:
                            if f.canon(v['d']) == F and v['d'] == F and v.get('init') is not None and unwrap(v['init'])['k'] == 'lit' and unwrap(v['init'])['v'] == arm:
                                arms.append(m)
                    elif m['k'] == 'bin' and m['op'] == '=' and unwrap(m['x'])['k'] == 'ref' and f.canon(unwrap(m['x'])['d']) == F and unwrap(m['y'])['k'] == 'lit' \
                            and unwrap(m['y'])['v'] == arm:
                        arms.append(m)
                bad = []
                for L in over:
                    li = {y['i'] for y in walk(L)}
                    bad += [m for m in arms if m['i'] in li]
                key = '%s|%s|%s' % (f.q, f.decl(F)['n'], f.decl(ACC)['n']) + ('' if k == 1 else '#%d' % k)
                ck.ob('flagged-reduction-scope', key, f.where(n), not bad and bool(arms) and bool(consumers), '' if not bad and arms and consumers else (
                    'flag `%s` of the reduction into `%s` is re-armed at %s inside a loop the reduction runs over (the accumulator is consumed only outside that loop)' % (
                        f.decl(F)['n'], f.decl(ACC)['n'], f.where(bad[0])) if bad else 'no arming site / consumer of the flagged reduction found'))
            if k:
                done.add((f.file, f.line))


def rule_scan(ck, units):
    """merge scans over sorted rows: `while (cur < end) { c = col[cur]; ...; if (c >= limit) break; ... }  saved = cur;`
    The element that makes the scan stop belongs to the NEXT group; the cursor that is saved for the next scan must still point at it.
    If the cursor is advanced before the test (`col[cur++]`, or `++cur` ahead of the `if`), the rejected element is consumed and never
    takes part in the group it belongs to."""
    ck.rule('scan-cursor-discipline', 'in a grouped scan over a sorted row the cursor is advanced only after the element was accepted: on the path from reading `col[cur]` to the `break` that '
                                      'rejects the element (it belongs to the next block column) `cur` is not incremented when `cur` is saved for the next scan afterwards', 2)
    done = set()
    for u in units.values():
        for f in u.funcs:
            if f.cfg is None or (f.file, f.line) in done or not f.rel().startswith('amgcl/'):
                continue
            loc = locate(f)
            k = 0
            for L in [n for n in f.nodes.values() if n['k'] == 'while' and n.get('c') is not None]:
                c = unwrap(L['c'])
                if c['k'] != 'bin' or c['op'] != '<' or unwrap(c['x'])['k'] != 'ref':
                    continue
                cur = unwrap(c['x'])['d']
                body = L['b']
                # the element read at the cursor: T v = X[cur] / X[cur++]
                reads = []
                for n in walk(body):
                    if n['k'] == 'decl':
                        for v in n['v']:
                            init = unwrap(v.get('init')) if v.get('init') is not None else None
                            if init is not None and init['k'] == 'idx':
                                ix = unwrap(init['x'])
                                post = ix is not None and ix['k'] == 'un' and ix['op'] == '++' and unwrap(ix['e'])['k'] == 'ref' and unwrap(ix['e'])['d'] == cur
                                plain = ix is not None and ix['k'] == 'ref' and ix['d'] == cur
                                if post or plain:
                                    reads.append((n, v['d'], post))
                if not reads:
                    continue
                # breaks guarded by a comparison of a value read at the cursor
                brks = []
                for n in walk(body):
                    if n['k'] == 'break' and not any(a['k'] in ('for', 'while', 'do', 'switch') and a is not L and any(x is a for x in walk(body)) for a in f.ancestors(n) if a is not L):
                        for a in f.ancestors(n):
                            if a is L:
                                break
                            if a['k'] == 'if' and any(x['k'] == 'ref' and x['d'] in {r[1] for r in reads} for x in walk(a['c'])) and unwrap(a['c'])['k'] == 'bin' and unwrap(a['c'])['op'] in ('>=', '>', '<', '<='):
                                brks.append((n, a))
                if not brks:
                    continue
                # is the cursor saved after the loop?
                saved = [n for n in f.nodes.values() if n['k'] == 'bin' and n['op'] == '=' and n['i'] > L['i'] and not any(x is n for x in walk(L))
                         and unwrap(n['y']) is not None and unwrap(n['y'])['k'] == 'ref' and unwrap(n['y'])['d'] == cur]
                if not saved:
                    continue
                k += 1
                incs = [n for n in walk(body) if n['k'] == 'un' and n['op'] == '++' and unwrap(n['e'])['k'] == 'ref' and unwrap(n['e'])['d'] == cur]
                bad = None
                for b_, cond_if in brks:
                    for inc in incs:
                        # executed before the test on the same iteration: source order inside the loop body before the guarding `if`
                        if inc['i'] < cond_if['i'] and not any(a['k'] == 'if' for a in f.ancestors(inc) if any(x is a for x in walk(body))):
                            bad = (inc, b_)
                key = '%s|%s|scan#%d' % (f.rel(), f.q, k)
                ck.ob('scan-cursor-discipline', key, f.where(bad[0]) if bad else f.where(L), bad is None,
                      '' if bad is None else 'in %s: the cursor `%s` is advanced at %s before the test that ends the scan at %s; the element that belongs to the next block column is consumed and `%s` '
                                             '(saved at %s) resumes behind it: that element never takes part in its own block' % (
                                                 f.full[:70], f.decl(cur)['n'], f.where(bad[0]), f.where(bad[1]), f.decl(cur)['n'], f.where(saved[0])))
            if k:
                done.add((f.file, f.line))


def main(tier):
    ck = Check('C08', tier, 'C08 (clauses): conjugation in adjoint / transpose, SpGEMM dispatch and factor order, serial / distributed agreement of the spectral radius scaling.')
    T = os.path.join(ir.VERIF, 'tus')
    names = ['rt_builtin', 'ip_unit', 'mpi_rt'] if tier == 'quick' else ['rt_builtin', 'ip_unit', 'vt_float', 'vt_complex', 'vt_block', 'mpi_rt']
    specs = [dict(name=n, src=os.path.join(T, n + '.cpp'), mpi=(n == 'mpi_rt')) for n in names]
    units = ir.run_units(specs, 'C08')
    ck.add_units(units, specs)
    rule_adjoint(ck, units)
    rule_transpose(ck, units)
    rule_dispatch(ck, units)
    rule_order(ck, units)
    rule_scan(ck, units)
    import c17
    cu = ir.run_units([dict(name='controls', src=os.path.join(T, 'controls.cpp'))], 'C08c')
    c17.rule_F(ck, units, cu['controls'])     # no binary search over unsorted rows (diagonal extraction etc.; shared with C17)
    c06.rule_chebyshev_bounds(ck, units, which=('sib',))
    c06.rule_power_norm(ck, units)
    c06.rule_power_unit(ck, units)
    rule_first_flag(ck, units)
    import rmerge
    rmerge.rule_rmerge(ck, units, control=cu['controls'])
    rmerge.rule_factor_order(ck, units)
    rmerge.rule_scratch_fits(ck, units)
    ck.assumptions += ['that the kernels compute the products, sums and transposes their definitions prescribe (values, well-formed CRS structure), merge_rows of the row-merge kernel, the Gershgorin / power-method bounds '
                       'themselves and the block-to-pointwise reduction are NOT decided: they quantify over values',
                       'operator* of the value types is the algebraic product']
    return ck.finish()
