"""Loader and helpers for the JSON facts written by amgcl-sa.

Nothing here decides a property; it gives the rule modules a convenient view:
functions with node tables, parent links, CFG blocks, dominators, a small
forward dataflow engine and expression helpers (roots, printing).
"""
import json
import os
import re
import subprocess
import sys
import time
from collections import defaultdict, deque


# --------------------------------------------------------------------- nodes
def is_node(x):
    return isinstance(x, dict) and 'k' in x and 'i' in x


def children(n):
    """Direct child nodes in emission (≈ evaluation) order."""
    for key, v in n.items():
        if key in ('i', 'k', 'l', 'lf'):
            continue
        if is_node(v):
            yield v
        elif isinstance(v, list):
            for e in v:
                if is_node(e):
                    yield e
                elif isinstance(e, dict):  # decl entries, clauses, handlers
                    for vv in e.values():
                        if is_node(vv):
                            yield vv
                        elif isinstance(vv, list):
                            for x in vv:
                                if is_node(x):
                                    yield x


def walk(n):
    """Pre-order walk of a node tree."""
    if n is None:
        return
    stack = [n]
    while stack:
        x = stack.pop()
        yield x
        ch = list(children(x))
        stack.extend(reversed(ch))


class Func:
    def __init__(self, unit, j):
        self.unit = unit
        self.j = j
        self.id = j['id']
        self.q = j['q']
        self.full = j['full']
        self.file = unit.files[j['file']]
        self.line = j['line']
        self.cls = j.get('cls')
        self.clsfull = j.get('clsfull')
        self.pat = j.get('pat')
        self.params = j['params']
        self.body = j['body']
        self.inits = j.get('inits', [])
        self._nodes = None
        self._parent = None
        self._cfg = None

    # -- lazily built tables
    def _index(self):
        nodes, parent = {}, {}
        roots = [self.body] + [i['e'] for i in self.inits if is_node(i.get('e'))]
        for r in roots:
            stack = [(r, None)]
            while stack:
                x, p = stack.pop()
                nodes[x['i']] = x
                parent[x['i']] = p
                for c in children(x):
                    stack.append((c, x['i']))
        self._nodes, self._parent = nodes, parent

    @property
    def nodes(self):
        if self._nodes is None:
            self._index()
        return self._nodes

    @property
    def parent(self):
        if self._parent is None:
            self._index()
        return self._parent

    def in_lambda(self, n):
        """is node n part of the body of a lambda expression (its returns are not returns of this function)"""
        return any(a['k'] == 'lambda' for a in self.ancestors(n))

    def returns(self, with_value=True):
        """return statements of the function itself (not of lambdas defined in it)"""
        return [n for n in self.nodes.values() if n['k'] == 'ret' and (n.get('e') is not None or not with_value) and not self.in_lambda(n)]

    def ancestors(self, n):
        i = self.parent.get(n['i'])
        while i is not None:
            yield self.nodes[i]
            i = self.parent.get(i)

    def rel(self):
        root = self.unit.root.rstrip('/') + '/'
        return self.file[len(root):] if self.file.startswith(root) else self.file

    def where(self, n=None):
        l = n.get('l') if n else self.line
        f = self.rel()
        if n is not None and 'lf' in n:
            f = self.unit.files[n['lf']]
            root = self.unit.root.rstrip('/') + '/'
            if f.startswith(root):
                f = f[len(root):]
        return '%s:%s' % (f, l)

    def decl(self, d):
        return self.unit.decls[d]

    def param_name(self, i):
        return self.unit.decls[self.params[i]]['n']

    def param_index(self, d):
        try:
            return self.params.index(d)
        except ValueError:
            return None

    @property
    def cfg(self):
        if self._cfg is None and 'cfg' in self.j:
            self._cfg = CFG(self, self.j['cfg'])
        return self._cfg

    def never_returns(self):
        """True if no path of the body reaches the normal exit (the function always throws)"""
        if getattr(self, '_nr', None) is None:
            self._nr = False   # recursion guard
            c = self.cfg
            self._nr = bool(c is not None and c.exit not in c.reachable())
        return self._nr

    def canon(self, d):
        """the variable a reference local / inlined reference parameter stands for (`T &x = y;`, a parameter of an inlined helper bound to
        `y`): follows such bindings to a plain variable; d itself otherwise"""
        m = getattr(self, '_canon', None)
        if m is None:
            m = {}
            for n in self.nodes.values():
                if n['k'] == 'decl':
                    for v in n['v']:
                        ent = self.decl(v['d'])
                        if v.get('init') is not None and (ent.get('ref') or ent.get('inl_param')):
                            t = unwrap(v['init'])
                            if t is not None and t['k'] == 'ref':
                                # an inlined by-value parameter is a copy, not an alias - only reference / pointer-free bindings qualify
                                ty = self.unit.type(ent.get('ct')) if ent.get('ct') is not None else ''
                                if ent.get('ref') or ty.rstrip().endswith('&'):
                                    m[v['d']] = t['d']
            self._canon = m
        seen = 0
        while d in m and seen < 8:
            d = m[d]
            seen += 1
        return d

    def calls(self, name=None):
        for n in walk(self.body):
            if n['k'] == 'call' and (name is None or n.get('f') == name):
                yield n


class CFG:
    def __init__(self, func, j):
        self.func = func
        self.entry = j['entry']
        self.exit = j['exit']
        self.blocks = {b['id']: b for b in j['blocks']}
        self.succ = {b['id']: [s for s in b['succ']] for b in j['blocks']}
        # a block that ends in a throw leaves the function exceptionally: no normal successor
        for b, blk in self.blocks.items():
            els = [e for e in blk['el'] if isinstance(e, int) and e >= 0]
            if els and func.nodes.get(els[-1], {}).get('k') == 'throw':
                self.succ[b] = []
                blk['throws'] = True
        # a call to a function that never returns normally (every path throws) ends the block too
        for b, blk in self.blocks.items():
            for e in blk['el']:
                if isinstance(e, int) and e >= 0:
                    n = func.nodes.get(e)
                    if n is not None and n['k'] == 'call' and 'fd' in n:
                        g = func.unit.by_id.get(n['fd'])
                        if g is not None and g is not func and g.never_returns():
                            self.succ[b] = []
                            blk['throws'] = True
        # clang routes the short-circuit exit of `a && b` / `a || b` that decides a whole do / while / if / for condition to the block that
        # evaluates (and branches on) the whole condition; on that edge the value of the whole condition is known.  Redirect the edge to
        # the successor the terminator would take, so that path-insensitive analyses do not see the infeasible other branch.
        for b, blk in self.blocks.items():
            if blk.get('tk') != 'BinaryOperator' or blk.get('term') is None or blk['term'] < 0:
                continue
            tn = func.nodes.get(blk['term'])
            if tn is None or tn.get('k') != 'bin' or tn.get('op') not in ('&&', '||') or len(self.succ[b]) != 2:
                continue
            short_ix = 1 if tn['op'] == '&&' else 0
            T = self.succ[b][short_ix]
            seen_t = 0
            while T is not None and seen_t < 4:
                tb = self.blocks.get(T)
                if tb is None or tb.get('tk') not in ('DoStmt', 'WhileStmt', 'IfStmt', 'ForStmt') or tb.get('cond') is None or tb['cond'] < 0 or len(self.succ[T]) != 2:
                    break
                root = unwrap(func.nodes.get(tb['cond']))
                spine, ok = root, False
                while spine is not None and spine.get('k') == 'bin' and spine.get('op') == tn['op']:
                    if spine['i'] == tn['i']:
                        ok = True
                        break
                    spine = unwrap(spine['x'])
                if not ok:
                    break
                T = self.succ[T][short_ix]
                self.succ[b][short_ix] = T
                seen_t += 1
                break
        self.pred = defaultdict(list)
        for b, ss in self.succ.items():
            for s in ss:
                if s is not None:
                    self.pred[s].append(b)
        self._dom = None
        self._pdom = None

    def elements(self, b):
        """node objects of a block (skips initialiser markers)"""
        f = self.func
        for e in self.blocks[b]['el']:
            if isinstance(e, int):
                if e >= 0 and e in f.nodes:
                    yield f.nodes[e]
            elif isinstance(e, dict) and 'declof' in e:
                # synthesized single DeclStmt: find the decl entry
                for n in f.nodes.values():
                    if n['k'] == 'decl':
                        for v in n['v']:
                            if v['d'] == e['declof']:
                                yield {'k': 'decl', 'i': -1, 'l': n.get('l'), 'v': [v]}

    def cond(self, b):
        c = self.blocks[b].get('cond')
        if c is None or c < 0:
            return None
        n = self.func.nodes.get(c)
        # clang reports the whole `a && b` for if/for/while terminators; the branch of this
        # block depends on the operand evaluated last, i.e. the right-most one
        while n is not None:
            m = unwrap(n)
            if m is not None and m['k'] == 'bin' and m['op'] in ('&&', '||'):
                n = m['y']
            else:
                break
        return n

    def reachable(self):
        seen = {self.entry}
        dq = deque([self.entry])
        while dq:
            b = dq.popleft()
            for s in self.succ[b]:
                if s is not None and s not in seen:
                    seen.add(s)
                    dq.append(s)
        return seen

    def rpo(self):
        seen, order = set(), []

        def dfs(b):
            stack = [(b, iter(self.succ[b]))]
            seen.add(b)
            while stack:
                node, it = stack[-1]
                adv = False
                for s in it:
                    if s is not None and s not in seen:
                        seen.add(s)
                        stack.append((s, iter(self.succ[s])))
                        adv = True
                        break
                if not adv:
                    order.append(node)
                    stack.pop()
        dfs(self.entry)
        order.reverse()
        return order

    def dominators(self):
        if self._dom is None:
            order = self.rpo()
            allb = set(order)
            dom = {b: set(allb) for b in order}
            dom[self.entry] = {self.entry}
            changed = True
            while changed:
                changed = False
                for b in order:
                    if b == self.entry:
                        continue
                    ps = [p for p in self.pred[b] if p in dom]
                    new = set(allb)
                    for p in ps:
                        new &= dom[p]
                    new = new | {b}
                    if new != dom[b]:
                        dom[b] = new
                        changed = True
            self._dom = dom
        return self._dom

    def forward(self, init, transfer, edge=None, join=None, top=None):
        """Generic forward must/may analysis.

        init: state at entry; transfer(block_id, state)->state;
        edge(block_id, succ_index, succ_id, state)->state (optional);
        join(a, b)->state (default: set intersection = must analysis).
        States must be hashable/comparable (frozenset recommended).
        Returns (IN, OUT) dicts.  Unvisited blocks have no entry.
        """
        if join is None:
            join = lambda a, b: a & b
        IN, OUT = {}, {}
        IN[self.entry] = init
        work = deque([self.entry])
        inq = {self.entry}
        while work:
            b = work.popleft()
            inq.discard(b)
            out = transfer(b, IN[b])
            OUT[b] = out
            for k, s in enumerate(self.succ[b]):
                if s is None:
                    continue
                st = edge(b, k, s, out) if edge else out
                if st is None:
                    continue  # infeasible edge
                if s not in IN:
                    IN[s] = st
                    new = True
                else:
                    j = join(IN[s], st)
                    new = j != IN[s]
                    IN[s] = j
                if new and s not in inq:
                    work.append(s)
                    inq.add(s)
        return IN, OUT


class Unit:
    def __init__(self, path):
        with open(path) as f:
            d = json.load(f)
        self.path = path
        self.name = d['unit']
        self.errors = d['errors']
        self.root = d['root']
        self.files = d['files']
        self.types = d['types']
        self.decls = d['decls']
        self.records = d['records']
        self.enums = d['enums']
        self.funcs = [Func(self, j) for j in d['functions']]
        self.by_q = defaultdict(list)
        self.by_id = {}
        for f in self.funcs:
            self.by_q[f.q].append(f)
            self.by_id[f.id] = f
        self._normalise_lambdas()

    def _normalise_lambdas(self):
        """Direct calls of local lambdas (`auto step = [&](...) {...}; ... step(a);`) are replaced by the lambda body at the call site (the
        fact-level inliner), and the body is removed from the definition when every use of the lambda is such a call: rules then see the
        effects where they happen, exactly as if the code had been written in place.  Library code has (almost) no lambdas today; helper
        lambdas are what refactorings introduce.  Lambdas that escape (passed to an algorithm, stored) are left alone."""
        lam_funcs = {f.id: f for f in self.funcs if f.j.get('lambda')}
        if not lam_funcs:
            return
        self.lambda_funcs = lam_funcs
        import inline
        for k, f in enumerate(list(self.funcs)):
            if f.j.get('lambda') or f.body is None or f.j.get('cfg') is None or not f.rel().startswith('amgcl/'):
                continue
            lams = [n for n in f.nodes.values() if n['k'] == 'lambda' and n.get('fd') in lam_funcs]
            if not lams:
                continue
            fds = {n['fd'] for n in lams}

            def want(cur, call, g, fds=fds):
                return g.id in fds
            g2 = inline.expand(f, want, limit=24)
            if g2 is f:
                continue
            # remove the bodies of lambdas that are only called directly (all their calls are inlined now)
            for n in list(g2.nodes.values()):
                if n['k'] != 'lambda' or n.get('fd') not in fds:
                    continue
                # the variable the lambda initialises
                var = None
                for d in g2.nodes.values():
                    if d['k'] == 'decl':
                        for v in d['v']:
                            if v.get('init') is not None and unwrap(v['init']) is n:
                                var = v['d']
                if var is None:
                    continue
                uses = [r for r in g2.nodes.values() if r['k'] == 'ref' and r.get('d') == var]
                left = [c for c in g2.nodes.values() if c['k'] == 'call' and c.get('fd') == n['fd']]
                if not left and all(any(a.get('k') == 'inl' and a.get('fd') == n['fd'] for a in g2.ancestors(r)) or True for r in uses):
                    n['b'] = {'i': n['b']['i'], 'k': 'block', 'l': n['b'].get('l'), 's': []}
            g3 = Func(self, g2.j)
            g3.inlined = getattr(g2, 'inlined', 0)
            self.funcs[k] = g3
            self.by_id[g3.id] = g3
            self.by_q[g3.q] = [g3 if x.id == g3.id else x for x in self.by_q[g3.q]]
        # the call operators stay reachable through by_id (callee effects of lambdas that were not inlined) but are not functions of the
        # library in their own right: rules iterate over self.funcs
        self.funcs = [f for f in self.funcs if not f.j.get('lambda')]

    def type(self, i):
        return self.types[i] if i is not None and 0 <= i < len(self.types) else '?'

    def relfile(self, idx):
        f = self.files[idx]
        root = self.root.rstrip('/') + '/'
        return f[len(root):] if f.startswith(root) else f


# ------------------------------------------------------------ expression util
def show(n, depth=0):
    """Compact source-like rendering of an expression node (for reports)."""
    if n is None:
        return ''
    if depth > 12:
        return '...'
    k = n['k']
    s = lambda x: show(x, depth + 1)
    if k == 'ref':
        return n['n']
    if k == 'mem':
        b = n.get('b')
        if b is None or b['k'] == 'this':
            return n['n']
        return s(b) + ('->' if n.get('arrow') else '.') + n['n']
    if k == 'this':
        return 'this'
    if k == 'lit':
        return '"%s"' % n['v'] if n['t'] == 'str' else str(n['v'])
    if k == 'idx':
        return '%s[%s]' % (s(n['b']), s(n['x']))
    if k == 'call':
        name = n.get('m') or (n.get('f') or '?').split('::')[-1]
        a = ', '.join(s(x) for x in n.get('a', []))
        if n.get('op') == '()':
            return '%s(%s)' % (s(n['obj']), a)
        if n.get('conv'):
            return s(n['obj'])
        if 'obj' in n and n['obj'] is not None:
            return '%s.%s(%s)' % (s(n['obj']), name, a)
        return '%s(%s)' % (name, a)
    if k == 'bin':
        return '%s %s %s' % (s(n['x']), n['op'], s(n['y']))
    if k == 'un':
        if n.get('post'):
            return s(n['e']) + n['op']
        if n['op'] == '->':
            return s(n['e'])
        return n['op'] + s(n['e'])
    if k == 'cond':
        return '%s ? %s : %s' % (s(n['c']), s(n['x']), s(n['y']))
    if k == 'cast':
        return s(n['e'])
    if k == 'ctor':
        return 'T(%s)' % ', '.join(s(x) for x in n.get('a', []))
    if k == 'new':
        return 'new[%s]' % s(n.get('n')) if 'n' in n else 'new'
    if k == 'delete':
        return 'delete%s %s' % ('[]' if n.get('arr') else '', s(n['e']))
    if k in ('defarg', 'definit'):
        return s(n['e'])
    if k == 'dmem':
        b = n.get('b')
        return (s(b) + '.' if b else '') + n['n']
    if k == 'uref':
        return n['n']
    return '<%s>' % k


def tuple_node(e):
    """the node that builds a 2-tuple result: std::make_tuple(a, b) / std::make_pair(a, b) or a braced / constructor tuple{a, b}; its
    components are node['a'].  None when e is something else."""
    for c in walk(e):
        if c['k'] == 'call' and c.get('f') in ('std::make_tuple', 'std::make_pair') and len(c.get('a', [])) >= 2:
            return c
        if c['k'] in ('ctor', 'initlist') and len(c.get('a', [])) == 2 and (c['k'] == 'initlist' or (c.get('f') or '').startswith(('std::tuple', 'std::pair'))):
            return c
    return None


def unwrap(n):
    """See through casts, default-arg wrappers, unary + and conversions."""
    while n is not None:
        k = n['k']
        if k in ('cast', 'defarg', 'definit'):
            n = n['e']
        elif k == 'inl' and 'e' in n:
            n = n['e']          # an inlined helper call (inline.py) denotes the expression it returns
        elif k == 'call' and n.get('conv'):
            n = n['obj']
        elif k == 'ctor' and len(n.get('a', [])) == 1 and n.get('f', '').split('::')[-1] in ('',):
            n = n['a'][0]
        else:
            break
    return n


def access_path(n):
    """Root + field path of an lvalue-like expression.

    Returns (rootkind, rootid, path tuple) where rootkind in
    {'param','local','this','global','tmp'}; element access ([...]), smart
    pointer dereference (*p, p->) and .get() are transparent; path lists the
    member names from the root.  Returns None for non-lvalues.
    """
    path = []
    while n is not None:
        n = unwrap(n)
        k = n['k']
        if k == 'mem':
            path.append(n['n'])
            n = n.get('b')
        elif k == 'idx':
            n = n['b']
        elif k == 'un' and n['op'] in ('*', '->', '&'):
            n = n['e']
        elif k == 'call' and n.get('m') in ('get', 'data', 'begin', 'end', 'operator->', 'operator*', 'front', 'back', 'at') and n.get('obj') is not None:
            n = n['obj']
        elif k == 'bin' and n['op'] in ('+', '-') :
            # pointer arithmetic: &x[0] + k
            n = n['x']
        elif k == 'ref':
            return ('var', n['d'], tuple(reversed(path)))
        elif k == 'this':
            return ('this', 0, tuple(reversed(path)))
        else:
            return None
    return None


# ------------------------------------------------------------------- running
HERE = os.path.dirname(os.path.abspath(__file__))
VERIF = os.path.dirname(HERE)
REPO = os.environ.get('AMGCL_SA_REPO', '/repo')
WORK = os.environ.get('AMGCL_SA_WORK', os.path.join(VERIF, '.work'))
SA = os.path.join(HERE, 'amgcl-sa')

BASE_FLAGS = ['-std=gnu++17', '-fopenmp', '-UNDEBUG', '-Wno-everything',
              '-I' + REPO, '-I' + os.path.join(VERIF, 'tus'), '-I/usr/include/eigen3']


def mpi_flags():
    try:
        out = subprocess.run(['mpicxx', '--showme:compile'], capture_output=True, text=True, timeout=20).stdout.split()
        return [x for x in out if x.startswith('-I') or x.startswith('-D')]
    except Exception:
        return ['-I/usr/lib/x86_64-linux-gnu/openmpi/include']


class AnalysisBroken(Exception):
    pass


def ensure_tool():
    if not os.path.exists(SA) or os.path.getmtime(SA) < os.path.getmtime(os.path.join(HERE, 'amgcl-sa.cc')):
        r = subprocess.run(['make', '-C', HERE], capture_output=True, text=True)
        if r.returncode != 0:
            raise AnalysisBroken('cannot build amgcl-sa: ' + r.stderr[-2000:])


def dump_cmd(src, out, extra=(), patterns=False, noinst=False, only=None, mpi=False):
    cmd = [SA, '--out=' + out, '--root=' + REPO, '--also=' + VERIF]
    if patterns:
        cmd.append('--patterns')
    if noinst:
        cmd.append('--no-inst')
    if only:
        cmd.append('--only=' + only)
    cmd += [src, '--'] + BASE_FLAGS + list(extra)
    if mpi:
        cmd += mpi_flags()
    return cmd


def run_units(specs, tag):
    """specs: list of dict(src=..., name=..., patterns=bool, mpi=bool, extra=[...]).
    Runs the extractor on all units in parallel, returns {name: Unit}.
    A unit that does not parse is an AnalysisBroken."""
    ensure_tool()
    wd = os.path.join(WORK, tag)
    subprocess.run(['rm', '-rf', wd])
    os.makedirs(wd, exist_ok=True)
    procs = []
    for s in specs:
        out = os.path.join(wd, s['name'] + '.json')
        cmd = dump_cmd(s['src'], out, extra=s.get('extra', ()), patterns=s.get('patterns', False),
                       noinst=s.get('noinst', False), only=s.get('only'), mpi=s.get('mpi', False))
        s['cmd'] = cmd
        p = subprocess.Popen(cmd, stdout=subprocess.PIPE, stderr=subprocess.PIPE, text=True)
        procs.append((s, out, p))
    units = {}
    for s, out, p in procs:
        so, se = p.communicate()
        if p.returncode != 0 or not os.path.exists(out):
            raise AnalysisBroken('unit %s does not parse:\n%s' % (s['src'], (se or so)[-3000:]))
        u = Unit(out)
        if u.errors:
            raise AnalysisBroken('unit %s has %d compile errors:\n%s' % (s['src'], u.errors, se[-3000:]))
        units[s['name']] = u
    return units
