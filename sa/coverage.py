"""G.resized-member-rewritten: a data member that a method only resize(n)s (old contents survive) and then fills column by column.

std::vector::resize(n) keeps the elements that exist; an object that lives across calls (the per-thread QR object of the tentative
prolongation, a solver's workspace) therefore starts every call with the numbers of the previous one.  Where a method rebuilds such a
member slice by slice - an outer loop over i, and inside it several stores into the member that split the slice into the part before i,
the element i and the part after i - the parts have to fit together without a gap, starting at 0: whatever is left out is not zero, it
is the previous factorisation.

Decided on the loop bounds: inner loops contribute [lo, hi) of their induction variable, a store directly in the outer body the single
position i.  The chain starts at 0 and must consume every part.  A member that is assigned / filled / cleared as a whole earlier in the
method is fresh and carries no obligation.
"""
from ir import walk, unwrap, show

LOOPS = ('for', 'while', 'do', 'rfor')


def _txt(e):
    return show(unwrap(e)).replace(' ', '') if e is not None else None


def _ivar(L):
    """(decl id, lower bound text) of the first variable declared in the init clause of a for loop"""
    ini = L.get('init')
    if ini is None:
        return None
    for n in walk(ini):
        if n['k'] == 'decl' and n['v']:
            v = n['v'][0]
            return v['d'], (_txt(v['init']) if v.get('init') is not None else None)
    return None


def _upper(L, d):
    """exclusive upper bound text of an increasing loop `d < HI`, `d != HI`, `d <= HI` (-> HI+1)"""
    c = unwrap(L.get('c'))
    if c is None or c['k'] != 'bin':
        return None
    x = unwrap(c['x'])
    if x is None or x['k'] != 'ref' or x['d'] != d:
        return None
    inc = L.get('inc')
    if inc is None or not any(n['k'] == 'un' and n['op'] == '++' and unwrap(n['e'])['k'] == 'ref' and unwrap(n['e'])['d'] == d for n in walk(inc)):
        return None
    if c['op'] in ('<', '!='):
        return _txt(c['y'])
    if c['op'] == '<=':
        return _txt(c['y']) + '+1'
    return None


def _member_of(e):
    """name of the data member of *this an element store goes to: M[...]"""
    e = unwrap(e)
    if e is None or e['k'] != 'idx':
        return None
    b = unwrap(e['b'])
    if b is not None and b['k'] == 'mem' and (b.get('b') is None or unwrap(b['b'])['k'] == 'this'):
        return b['n']
    return None


def rule_cover(ck, units, control=None, floor=0):
    ck.rule('G.resized-member-rewritten', 'a data member that a method resize(n)s (old contents survive) and rebuilds slice by slice - several stores per outer iteration i that split the slice '
                                          'into the part before i, the element i and the part after i - is rebuilt without a gap from position 0: nothing of the previous call survives',
            floor)
    done = set()
    found_control = [False]
    for u in list(units.values()) + ([control] if control is not None else []):
        for f in u.funcs:
            is_control = f.q.startswith('verif_control::')
            if f.body is None or not f.cls or not (f.rel().startswith('amgcl/') or is_control) or (f.file, f.line) in done or f.j.get('ctor'):
                continue
            resized = {}
            fresh = set()
            for n in f.nodes.values():
                if n['k'] != 'call':
                    continue
                o = unwrap(n['obj']) if n.get('obj') is not None else None
                isme = o is not None and o['k'] == 'mem' and (o.get('b') is None or unwrap(o['b'])['k'] == 'this')
                args = [a for a in n.get('a', []) if a is not None and a.get('k') != 'defarg']
                if isme and n.get('m') == 'resize' and len(args) == 1:
                    resized[o['n']] = n
                if isme and n.get('m') in ('assign', 'clear'):
                    fresh.add(o['n'])
                if (n.get('f') or '').split('<')[0] in ('std::fill', 'std::fill_n') and args:
                    for x in walk(args[0]):
                        if x['k'] == 'call' and x.get('m') == 'begin' and x.get('obj') is not None:
                            oo = unwrap(x['obj'])
                            if oo is not None and oo['k'] == 'mem':
                                fresh.add(oo['n'])
            cands = [m for m in resized if m not in fresh]
            if not cands:
                continue
            k = 0
            for O in [n for n in f.nodes.values() if n['k'] == 'for']:
                if any(a['k'] in LOOPS for a in f.ancestors(O)):
                    continue
                iv = _ivar(O)
                if iv is None:
                    continue
                oi = f.decl(iv[0])['n']
                for M in cands:
                    parts = []          # (lo, hi, node)  /  ('@', None, node) for the element i
                    unknown = False
                    for n in walk(O['b']):
                        if n['k'] == 'bin' and n['op'] == '=' and _member_of(n['x']) == M:
                            inner = [a for a in f.ancestors(n) if a['k'] in LOOPS and a is not O and any(x is a for x in walk(O['b']))]
                            if not inner:
                                parts.append(('@', None, n))
                            elif len(inner) == 1 and inner[0]['k'] == 'for' and _ivar(inner[0]) is not None and _ivar(inner[0])[1] is not None \
                                    and _upper(inner[0], _ivar(inner[0])[0]) is not None:
                                J = inner[0]
                                parts.append((_ivar(J)[1], _upper(J, _ivar(J)[0]), n))
                            else:
                                unknown = True
                    sites = {p[2]['i'] for p in parts}
                    if unknown or len(sites) < 2 or not any(p[0] != '@' for p in parts):
                        continue
                    k += 1
                    todo = list(parts)
                    cur = '0'
                    progress = True
                    while todo and progress:
                        progress = False
                        for p in list(todo):
                            if p[0] == cur:
                                cur = p[1]
                                todo.remove(p)
                                progress = True
                            elif p[0] == '@' and cur == oi:
                                cur = oi + '+1'
                                todo.remove(p)
                                progress = True
                    ok = not todo
                    if is_control:
                        found_control[0] = found_control[0] or not ok
                        k -= 1
                        continue
                    nxt = sorted(todo, key=lambda p: p[2]['i'])[0] if todo else None
                    ck.ob('G.resized-member-rewritten', '%s|%s|%s#%d' % (f.rel(), f.q, M, k), f.where(O), ok, '' if ok else
                          'in %s: member `%s` is only resize()d at %s (it keeps what the previous call left) and rebuilt per `%s` by %d stores; the parts fit together from 0 up to `%s`, '
                          'then the next one (%s at %s) starts at `%s`: the positions in between are not written and carry the numbers of the previous call' % (
                              f.full[:70], M, f.where(resized[M]), oi, len(sites), cur, show(nxt[2]['x'])[:30], f.where(nxt[2]), oi if nxt[0] == '@' else nxt[0]))
            if k:
                done.add((f.file, f.line))
    if control is not None and not found_control[0]:
        ck.brk('G.resized-member-rewritten: the positive control verif_control::columns::rebuild (tus/controls.cpp) was not reported - the rule is blind')
