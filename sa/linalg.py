"""Symbolic linear algebra over the backend primitives (used by C05 and C18).

A vector is a linear combination  {(basis, coefficient factors): integer multiplicity}.
Bases: ('sym', name) an input vector; ('op', M, b) the matrix named M applied to basis b (distributes over combinations);
('app', P, frozen combination) a member object P (preconditioner / solver) applied to a vector (atomic: P need not be
linear for the comparison); ('opaque', id) anything else.
`run` interprets calls in source order (straight-line code; callers pass the statements of one path / one loop body)."""
from ir import walk, unwrap, show
from effects import prim_name, classify_coef, PRIMS


def add(a, b, k=1):
    out = dict(a)
    for key, m in b.items():
        out[key] = out.get(key, 0) + k * m
        if out[key] == 0:
            del out[key]
    return out


def scale(a, coef):
    """coef: None (zero) or (sign, factors)"""
    if coef is None:
        return {}
    sign, fac = coef
    out = {}
    for (b, f0), m in a.items():
        key = (b, tuple(sorted(f0 + fac)))
        out[key] = out.get(key, 0) + sign * m
        if out[key] == 0:
            del out[key]
    return out


def apply_op(name, a):
    return {(('op', name, b), f0): m for (b, f0), m in a.items()}


def freeze(a):
    return tuple(sorted(a.items(), key=repr))


def app(name, a):
    return {(('app', name, freeze(a)), ()): 1}


def sym(name):
    return {(('sym', name), ()): 1}


def lshow(a):
    if not a:
        return '0'

    def bs(b):
        if b[0] == 'sym':
            return str(b[1])
        if b[0] == 'op':
            return '%s %s' % (b[1], bs(b[2]))
        if b[0] == 'app':
            return '%s(%s)' % (b[1], lshow(dict(b[2])))
        return '<%s>' % '/'.join(str(x) for x in b)
    parts = []
    for (b, f0), m in sorted(a.items(), key=repr):
        c = ('' if m == 1 else ('-' if m == -1 else '%d ' % m)) + ' '.join(f0)
        parts.append((c + ' ' if c and c != '-' else c) + bs(b))
    return ' + '.join(parts).replace('+ -', '- ')


def coefkey(f, e):
    neg = False
    e = unwrap(e)
    while e is not None and e['k'] == 'un' and e['op'] == '-':
        neg = not neg
        e = unwrap(e['e'])
    cl = classify_coef(f, e)
    if cl == 'zero':
        return None
    if cl == 'identity':
        return (-1 if neg else 1, ())
    return (-1 if neg else 1, (show(e),))


class Interp:
    def __init__(self, f, an, opname, appname):
        """opname(expr) -> name of the matrix an expression denotes (or None: opaque);
        appname(call) -> name of the member object whose apply / operator() is called (or None)"""
        self.f, self.an, self.opname, self.appname = f, an, opname, appname
        self.env = {}

    def val(self, root):
        if root not in self.env:
            self.env[root] = {(('old', root), ()): 1}
        return self.env[root]

    def run(self, stmts):
        f, an, env, val = self.f, self.an, self.env, self.val
        for n in stmts:
            if n['k'] != 'call':
                continue
            pr = prim_name(n)
            a = n.get('a', [])
            R = lambda y: an.expr_root(f, y)
            opq = {(('opaque', n['i']), ()): 1}
            if pr == 'residual':
                M = self.opname(a[1])
                env[R(a[3])] = add(val(R(a[0])), apply_op(M, val(R(a[2]))), -1) if M else opq
            elif pr == 'axpby':
                env[R(a[3])] = add(scale(val(R(a[3])), coefkey(f, a[2])), scale(val(R(a[1])), coefkey(f, a[0])))
            elif pr == 'axpbypcz':
                env[R(a[5])] = add(add(scale(val(R(a[5])), coefkey(f, a[4])), scale(val(R(a[1])), coefkey(f, a[0]))), scale(val(R(a[3])), coefkey(f, a[2])))
            elif pr == 'spmv':
                M = self.opname(a[1])
                env[R(a[4])] = add(scale(val(R(a[4])), coefkey(f, a[3])), scale(apply_op(M, val(R(a[2]))), coefkey(f, a[0]))) if M else opq
            elif pr == 'copy':
                env[R(a[1])] = dict(val(R(a[0])))
            elif pr == 'clear':
                env[R(a[0])] = {}
            elif pr is not None:
                env[R(a[PRIMS[pr][1]])] = opq
            elif n.get('obj') is not None and len(a) == 2 and (n.get('m') == 'apply' or n.get('op') == '()'):
                P = self.appname(n)
                if P:
                    env[R(a[1])] = app(P, val(R(a[0])))
