"""C16 (one sentence) - skyline LU reports a zero pivot by an exception (DESIGN.md 4, C16).

Every pivot inversion `D[..] = math::inverse(e)` in skyline_lu::factorize is dominated by
precondition(!math::is_zero(e), ..) on the same value, with no modification of e in between.
"""
import os

import ir
from ir import walk, unwrap, show
from effects import locate
from framework import Check


def main(tier):
    ck = Check('C16', tier, 'C16 (clause): skyline LU reports a zero pivot by an exception.')
    T = os.path.join(ir.VERIF, 'tus')
    names = ['composite'] if tier == 'quick' else ['composite', 'rt_builtin', 'vt_complex', 'vt_block', 'mpi_rt']
    specs = [dict(name=n, src=os.path.join(T, n + '.cpp'), mpi=(n == 'mpi_rt')) for n in names]
    units = ir.run_units(specs, 'C16')
    ck.add_units(units, specs)
    ck.rule('pivot-guarded', 'in skyline_lu::factorize every D[..] = math::inverse(e) is dominated by precondition(!math::is_zero(e), ..) with e unmodified in between', 2)
    for u in units.values():
        for f in u.funcs:
            if f.q != 'amgcl::solver::skyline_lu::factorize' or f.cfg is None:
                continue
            loc = locate(f)
            cfg = f.cfg
            events = {}
            for n in f.nodes.values():
                if n['i'] not in loc:
                    continue
                b, pos = loc[n['i']]
                if n['k'] == 'call' and n.get('f') == 'amgcl::precondition':
                    c = unwrap(n['a'][0])
                    if c['k'] == 'un' and c['op'] == '!':
                        z = unwrap(c['e'])
                        if z['k'] == 'call' and z.get('f') == 'amgcl::math::is_zero':
                            events.setdefault(b, []).append((pos, n['i'], 'gen', show(z['a'][0]), n))
                elif n['k'] == 'bin' and n['op'] in ('=', '+=', '-=', '*=', '/='):
                    events.setdefault(b, []).append((pos, n['i'] + 0.9, 'mod', n, None))
            for b in events:
                events[b].sort(key=lambda t: (t[0], t[1]))
            pivots = []

            def names_in(txt_node):
                return {x['n'] for x in walk(txt_node) if x['k'] in ('ref', 'mem')}

            def transfer(b, st, record=None):
                st = set(st)
                for pos, nid, kind, p, n in events.get(b, ()):
                    if kind == 'gen':
                        st.add(p)
                    else:
                        asg = p
                        # is this a pivot inversion?  lhs D[..], rhs math::inverse(e)
                        rhs = unwrap(asg['y'])
                        lhs = unwrap(asg['x'])
                        if asg['op'] == '=' and rhs['k'] == 'call' and rhs.get('f') == 'amgcl::math::inverse' and record is not None:
                            record.append((asg, show(rhs['a'][0]), show(rhs['a'][0]) in st))
                        # kill facts mentioning the modified variable / array
                        tgt = lhs
                        while tgt is not None and tgt['k'] == 'idx':
                            tgt = unwrap(tgt['b'])
                        nm = tgt.get('n') if tgt is not None else None
                        if nm is not None:
                            st = {e for e in st if nm not in _idents(e)}
                return frozenset(st)
            IN, OUT = cfg.forward(frozenset(), transfer, join=lambda a, b_: a & b_)
            rec = []
            for b, st in IN.items():
                transfer(b, st, rec)
            seen = {}
            for asg, e, ok in rec:
                seen.setdefault(asg['i'], (asg, e, True))
                if not ok:
                    seen[asg['i']] = (asg, e, False)
            k = 0
            for i in sorted(seen):
                asg, e, ok = seen[i]
                k += 1
                ck.ob('pivot-guarded', 'amgcl::solver::skyline_lu::factorize|pivot#%d' % k, f.where(asg), ok,
                      '' if ok else 'the pivot `%s` is inverted at %s without a dominating precondition(!math::is_zero(%s))' % (e, f.where(asg), e))
    ck.assumptions += ['exactness of LU / inverse / QR / static-matrix algebra and Cuthill-McKee being a permutation are not decided (numerical / combinatorial)']
    return ck.finish()


def _idents(s):
    import re
    return set(re.findall(r'[A-Za-z_][A-Za-z_0-9]*', s))
