"""C16 (one sentence) - skyline LU reports a zero pivot by an exception (DESIGN.md 4, C16).

Every pivot inversion `D[..] = math::inverse(e)` in skyline_lu::factorize is dominated by
precondition(!math::is_zero(e), ..) on the same value, with no modification of e in between.
"""
import os

import ir
from ir import walk, unwrap, show
from effects import locate
from framework import Check


def rule_static_product(ck, control):
    """static-product-extents: C(N x M) = A(N x K) * B(K x M).  In the instantiation with three distinct extents (tus/controls.cpp: 2 x 3 times
    3 x 4) every index of an element access a(., .), b(., .), c(., .) is a loop variable whose loop runs to the extent of that dimension of
    that matrix - in particular the contraction index runs to K, the number of columns of the left factor, not to N."""
    import re
    ck.rule('static-product-extents', 'static_matrix product: every index of a(i,k), b(k,j), c(i,j) is bounded by the extent of its dimension (rows / columns of that operand); decided on '
                                      'an instantiation with three distinct extents (accesses through operator() or on the flat row-major buffers)', 0)
    for f in control.funcs:
        if f.q != 'amgcl::operator*' or len(f.params) != 2 or f.body is None:
            continue
        dims = []
        for p in f.params:
            m = re.search(r'static_matrix<[^,]+, (\d+), (\d+)>', control.type(f.decl(p).get('ct')))
            dims.append((int(m.group(1)), int(m.group(2))) if m else None)
        if None in dims or len({dims[0][0], dims[0][1], dims[1][1]}) != 3:
            continue
        ext = {f.params[0]: dims[0], f.params[1]: dims[1]}
        bounds = {}
        for n in f.nodes.values():
            if n['k'] == 'for' and n.get('c') is not None:
                c = unwrap(n['c'])
                if c['k'] == 'bin' and c['op'] in ('<', '!=') and unwrap(c['x'])['k'] == 'ref' and unwrap(c['y'])['k'] == 'lit':
                    bounds[unwrap(c['x'])['d']] = int(unwrap(c['y'])['v'])
        for n in sorted((x for x in f.nodes.values() if x['k'] in ('call', 'opcall') and x.get('op') == '()' and len(x.get('a', [])) == 2 and x.get('obj') is not None), key=lambda x: x['i']):
            o = unwrap(n['obj'])
            if o is None or o['k'] != 'ref':
                continue
            e = ext.get(o['d'], (dims[0][0], dims[1][1]) if f.decl(o['d']).get('k') == 'local' else None)
            if e is None:
                continue
            bad = []
            for which, a in enumerate(n['a']):
                a = unwrap(a)
                b = bounds.get(a['d']) if a is not None and a['k'] == 'ref' else None
                if b is None or b != e[which]:
                    bad.append('%s index `%s` of `%s` runs to %s, the %s of `%s` is %d' % (('row', 'column')[which], show(a), show(n), b, ('row count', 'column count')[which], f.decl(o['d'])['n'], e[which]))
            ck.ob('static-product-extents', 'operator*|%s|%s' % (f.decl(o['d'])['n'], show(n).replace(' ', '')), f.where(n), not bad, '; '.join(bad))
        # the same accesses written on the flat row-major buffers: P[r * S + c] with P = X.data(), or Q[c] with Q = P + r * S
        def single_init(d):
            inits = [v['init'] for n in f.nodes.values() if n['k'] == 'decl' for v in n['v'] if v['d'] == d and v.get('init') is not None]
            mods = [n for n in f.nodes.values() if (n['k'] == 'bin' and n['op'] in ('=', '+=', '-=') and unwrap(n['x'])['k'] == 'ref' and unwrap(n['x'])['d'] == d)
                    or (n['k'] == 'un' and n['op'] in ('++', '--') and unwrap(n['e'])['k'] == 'ref' and unwrap(n['e'])['d'] == d)]
            return unwrap(inits[0]) if len(inits) == 1 and not mods else None

        def matrix_of(e):
            e = unwrap(e)
            if e is not None and e['k'] == 'call' and e.get('m') == 'data' and e.get('obj') is not None:
                o = unwrap(e['obj'])
                return o['d'] if o is not None and o['k'] == 'ref' and o['d'] in ext else None
            if e is not None and e['k'] == 'ref' and f.decl(e['d']).get('k') == 'local':
                i0 = single_init(e['d'])
                return matrix_of(i0) if i0 is not None else None
            return None

        def row_stride_col(e):
            # r * S (+ c): ((row var, stride literal), col var or None)
            e = unwrap(e)
            if e is None:
                return None
            if e['k'] == 'bin' and e['op'] == '+':
                for p_, q in ((e['x'], e['y']), (e['y'], e['x'])):
                    rs = row_stride_col(p_)
                    q = unwrap(q)
                    if rs is not None and rs[1] is None and q is not None and q['k'] == 'ref':
                        return rs[0], q['d']
                return None
            if e['k'] == 'bin' and e['op'] == '*':
                for p_, q in ((e['x'], e['y']), (e['y'], e['x'])):
                    p_, q = unwrap(p_), unwrap(q)
                    if p_ is not None and q is not None and p_['k'] == 'ref' and q['k'] == 'lit' and str(q.get('v', '')).isdigit():
                        return (p_['d'], int(q['v'])), None
            return None
        for n in sorted((x for x in f.nodes.values() if x['k'] == 'idx'), key=lambda x: x['i']):
            b = unwrap(n['b'])
            X, rs, cvar = None, None, None
            if b is not None and b['k'] == 'ref':
                X = matrix_of(b)
                if X is not None:
                    r = row_stride_col(n['x'])
                    if r is not None and r[1] is not None:
                        rs, cvar = r
                else:
                    i0 = single_init(b['d']) if f.decl(b['d']).get('k') == 'local' else None
                    if i0 is not None and i0['k'] == 'bin' and i0['op'] == '+':
                        for p_, q in ((i0['x'], i0['y']), (i0['y'], i0['x'])):
                            if matrix_of(p_) is not None:
                                r = row_stride_col(q)
                                c = unwrap(n['x'])
                                if r is not None and r[1] is None and c is not None and c['k'] == 'ref':
                                    X, rs, cvar = matrix_of(p_), r[0], c['d']
            if X is None or rs is None:
                continue
            rows, cols = ext[X]
            bad = []
            if rs[1] != cols:
                bad.append('the row stride %d of `%s` is not the column count %d of `%s`' % (rs[1], show(n), cols, f.decl(X)['n']))
            if bounds.get(rs[0]) != rows:
                bad.append('row index `%s` runs to %s, `%s` has %d rows' % (f.decl(rs[0])['n'], bounds.get(rs[0]), f.decl(X)['n'], rows))
            if bounds.get(cvar) != cols:
                bad.append('column index `%s` runs to %s, `%s` has %d columns' % (f.decl(cvar)['n'], bounds.get(cvar), f.decl(X)['n'], cols))
            ck.ob('static-product-extents', 'operator*|%s|%s' % (f.decl(X)['n'], show(n).replace(' ', '')), f.where(n), not bad, '; '.join(bad))


def main(tier):
    ck = Check('C16', tier, 'C16 (clause): skyline LU reports a zero pivot by an exception.')
    T = os.path.join(ir.VERIF, 'tus')
    names = ['composite'] if tier == 'quick' else ['composite', 'rt_builtin', 'vt_complex', 'vt_block', 'mpi_rt']
    specs = [dict(name=n, src=os.path.join(T, n + '.cpp'), mpi=(n == 'mpi_rt')) for n in names]
    units = ir.run_units(specs, 'C16')
    ck.add_units(units, specs)
    ck.rule('pivot-guarded', 'in skyline_lu::factorize every D[..] = math::inverse(e) is dominated by precondition(!math::is_zero(e), ..) with e unmodified in between', 2)
    for u in units.values():
        for f in u.funcs:
            if f.q != 'amgcl::solver::skyline_lu::factorize' or f.cfg is None:
                continue
            loc = locate(f)
            cfg = f.cfg
            events = {}
            for n in f.nodes.values():
                if n['i'] not in loc:
                    continue
                b, pos = loc[n['i']]
                if n['k'] == 'call' and n.get('f') == 'amgcl::precondition':
                    c = unwrap(n['a'][0])
                    if c['k'] == 'un' and c['op'] == '!':
                        z = unwrap(c['e'])
                        if z['k'] == 'call' and z.get('f') == 'amgcl::math::is_zero':
                            events.setdefault(b, []).append((pos, n['i'], 'gen', show(z['a'][0]), n))
                elif n['k'] == 'bin' and n['op'] in ('=', '+=', '-=', '*=', '/='):
                    events.setdefault(b, []).append((pos, n['i'] + 0.9, 'mod', n, None))
            for b in events:
                events[b].sort(key=lambda t: (t[0], t[1]))
            pivots = []

            def names_in(txt_node):
                return {x['n'] for x in walk(txt_node) if x['k'] in ('ref', 'mem')}

            def transfer(b, st, record=None):
                st = set(st)
                for pos, nid, kind, p, n in events.get(b, ()):
                    if kind == 'gen':
                        st.add(p)
                    else:
                        asg = p
                        # is this a pivot inversion?  lhs D[..], rhs math::inverse(e)
                        rhs = unwrap(asg['y'])
                        lhs = unwrap(asg['x'])
                        if asg['op'] == '=' and rhs['k'] == 'call' and rhs.get('f') == 'amgcl::math::inverse' and record is not None:
                            record.append((asg, show(rhs['a'][0]), show(rhs['a'][0]) in st))
                        # kill facts mentioning the modified variable / array
                        tgt = lhs
                        while tgt is not None and tgt['k'] == 'idx':
                            tgt = unwrap(tgt['b'])
                        nm = tgt.get('n') if tgt is not None else None
                        if nm is not None:
                            st = {e for e in st if nm not in _idents(e)}
                return frozenset(st)
            IN, OUT = cfg.forward(frozenset(), transfer, join=lambda a, b_: a & b_)
            rec = []
            for b, st in IN.items():
                transfer(b, st, rec)
            seen = {}
            for asg, e, ok in rec:
                seen.setdefault(asg['i'], (asg, e, True))
                if not ok:
                    seen[asg['i']] = (asg, e, False)
            k = 0
            for i in sorted(seen):
                asg, e, ok = seen[i]
                k += 1
                ck.ob('pivot-guarded', 'amgcl::solver::skyline_lu::factorize|pivot#%d' % k, f.where(asg), ok,
                      '' if ok else 'the pivot `%s` is inverted at %s without a dominating precondition(!math::is_zero(%s))' % (e, f.where(asg), e))
    rule_profile(ck, units)
    rule_lu_order(ck, units)
    rule_narrowing(ck, units)
    import coverage
    cu_ = ir.run_units([dict(name='controls', src=os.path.join(ir.VERIF, 'tus', 'controls.cpp'))], 'C16c')
    rule_static_product(ck, cu_['controls'])
    coverage.rule_cover(ck, units, control=cu_['controls'])      # a member that is only resize()d is rebuilt without a gap (QR workspace; shared by C09 / C15 / C16)
    ck.assumptions += ['exactness of LU / inverse / QR / static-matrix algebra and Cuthill-McKee being a permutation are not decided (numerical / combinatorial)']
    return ck.finish()


INT_SIZE = {'bool': 1, 'char': 1, 'signed char': 1, 'unsigned char': 1, 'short': 2, 'unsigned short': 2, 'int': 4, 'unsigned int': 4,
            'long': 8, 'unsigned long': 8, 'long long': 8, 'unsigned long long': 8}


def _int_size(u, f, e, depth=0):
    """size in bytes of the integer type of expression e (usual arithmetic conversions), None when unknown / not an integer"""
    e0 = e
    e = unwrap(e)
    if e is None or depth > 6:
        return None
    if e0 is not e and e0.get('k') == 'cast' and e0.get('explicit'):
        return None
    if e['k'] == 'ref':
        t = u.type(f.decl(e['d']).get('ct')).replace('const ', '').replace('&', '').strip()
        return INT_SIZE.get(t)
    if e['k'] in ('idx', 'mem', 'un', 'opcall') and e.get('ty') is not None:
        t = u.type(e['ty']).replace('const ', '').replace('&', '').strip()
        return INT_SIZE.get(t)
    if e['k'] == 'bin' and e['op'] in ('+', '-', '*', '/', '%'):
        a, b = _int_size(u, f, e['x'], depth + 1), _int_size(u, f, e['y'], depth + 1)
        if a is None and b is None:
            return None
        return max(a or 4, b or 4, 4)
    if e['k'] == 'lit':
        return None
    return None


FILES_C16 = ('amgcl/reorder/', 'amgcl/solver/skyline_lu.hpp', 'amgcl/detail/qr.hpp', 'amgcl/detail/inverse.hpp')


def rule_narrowing(ck, units, floor=6):
    """no-narrowing-store: the work arrays of the reordering / direct kernels (local containers of the function) hold indices, levels and
    degrees that range up to the matrix size; a store of an integer expression into a local array whose element type is narrower than
    the type of the expression silently wraps for large inputs (level sets beyond 127 in a char array ...).  Stores of compile-time
    constants and stores through parameters (element type chosen by the caller) are not concerned."""
    ck.rule('no-narrowing-store', 'reordering and direct kernels: no store of a non-constant integer expression into an element of a LOCAL array with a narrower integer element type', floor)
    seen = set()
    for u in units.values():
        for f in u.funcs:
            if f.body is None or not f.rel().startswith(FILES_C16) or (f.file, f.line) in seen:
                continue
            seen.add((f.file, f.line))
            k = 0
            for n in sorted(f.nodes.values(), key=lambda t: t['i']):
                if not (n['k'] in ('bin', 'opcall') and n.get('op') == '=' and n.get('x') is not None and n.get('y') is not None):
                    continue
                x = unwrap(n['x'])
                if x is None or x['k'] not in ('idx', 'opcall') or x.get('ty') is None:
                    continue
                et = u.type(x['ty']).replace('const ', '').replace('&', '').strip()
                if et not in INT_SIZE:
                    continue
                ap = ir.access_path(x)
                if ap is None or ap[0] != 'var' or f.decl(ap[1]).get('k') != 'local' or f.decl(ap[1]).get('ref'):
                    continue
                y = unwrap(n['y'])
                if y is None or y.get('cv') is not None or y['k'] == 'lit':
                    continue
                k += 1
                sz = _int_size(u, f, n['y'])
                ok = sz is None or sz <= INT_SIZE[et]
                ck.ob('no-narrowing-store', '%s|%s#%d' % ('::'.join(f.q.split('::')[-2:]), f.decl(ap[1])['n'], k), f.where(n), ok, '' if ok else
                      '`%s` at %s stores a %d-byte integer into an element of type %s of the local array `%s`: values beyond its range wrap' % (
                          show(n)[:60], f.where(n), sz, et, f.decl(ap[1])['n']))


def rule_lu_order(ck, units):
    ck.rule('lu-factor-order', 'skyline_lu::factorize: in every product of an entry of the factor L with an entry of the factor U the L entry is the left operand '
                               '(A = L U: rows of L times columns of U; the order matters for block values)', 1)
    done = set()
    for u in units.values():
        for f in u.funcs:
            if f.q != 'amgcl::solver::skyline_lu::factorize' or f.cfg is None or f.line in done:
                continue
            done.add(f.line)

            def member_of(e):
                e = unwrap(e)
                if e is not None and e['k'] == 'idx':
                    b = unwrap(e['b'])
                    if b is not None and b['k'] == 'mem' and (b.get('b') is None or unwrap(b['b'])['k'] == 'this'):
                        return b['n']
                return None
            sites = []
            for n in f.nodes.values():
                if n['k'] == 'bin' and n['op'] == '*':
                    a, b = member_of(n['x']), member_of(n['y'])
                    if {a, b} == {'L', 'U'}:
                        sites.append((n, a == 'L'))
            bad = [n for n, ok in sites if not ok]
            ck.ob('lu-factor-order', 'amgcl::solver::skyline_lu::factorize', f.where(bad[0]) if bad else f.where(), bool(sites) and not bad,
                  ('no L * U product found' if not sites else 'at %s the update multiplies `%s`: an entry of U times an entry of L (%d other sites multiply L * U)' % (f.where(bad[0]), show(bad[0]), len(sites) - len(bad))) if (bad or not sites) else '')


def order_cases(f, L, block):
    """orderings o in {'<', '==', '>'} of the two compared index variables under which `block` is reachable from the entry of the
    body of loop L (branches that compare the pair follow the edge consistent with o; every other branch follows both edges)"""
    cfg = f.cfg
    lcond = [b for b, blk in cfg.blocks.items() if blk.get('term') == L['i']]
    if not lcond:
        return None, None
    H = lcond[0]
    entry = cfg.succ[H][0] if cfg.succ[H] else None
    pair = None
    # the compared pair: two integer locals compared with each other inside the loop
    cnt = {}
    for n in walk(L['b']):
        if n['k'] == 'bin' and n['op'] in ('<', '>', '<=', '>=', '==', '!='):
            x, y = unwrap(n['x']), unwrap(n['y'])
            if x is not None and y is not None and x['k'] == 'ref' and y['k'] == 'ref' and x['d'] != y['d']:
                key = tuple(sorted((x['d'], y['d'])))
                cnt[key] = cnt.get(key, 0) + 1
    if not cnt:
        return None, None
    pair = max(cnt, key=cnt.get)
    out = set()
    for o in ('<', '==', '>'):
        seen, work = set(), [entry]
        while work:
            b = work.pop()
            if b is None or b in seen or b == H:
                continue
            seen.add(b)
            c = cfg.cond(b)
            succs = cfg.succ[b]
            truth = None
            if c is not None and len(succs) == 2:
                cu = unwrap(c)
                if cu['k'] == 'bin' and cu['op'] in ('<', '>', '<=', '>=', '==', '!='):
                    x, y = unwrap(cu['x']), unwrap(cu['y'])
                    if x['k'] == 'ref' and y['k'] == 'ref' and tuple(sorted((x['d'], y['d']))) == pair:
                        oo = o if (x['d'], y['d']) == pair else {'<': '>', '>': '<', '==': '=='}[o]
                        truth = {'<': oo == '<', '>': oo == '>', '<=': oo in ('<', '=='), '>=': oo in ('>', '=='), '==': oo == '==', '!=': oo != '=='}[cu['op']]
            for k, s_ in enumerate(succs):
                if truth is True and k == 1:
                    continue
                if truth is False and k == 0:
                    continue
                work.append(s_)
        if block in seen:
            out.add(o)
    return out, pair


def rule_profile(ck, units):
    ck.rule('profile-covers-stores', 'skyline_lu constructor: in every ordering of the permuted row / column index in which the copy pass stores an entry into L or U, the profile pass '
                                     'raises the row length / column height (so the skyline has room for every entry, also for structurally non-symmetric matrices)', 1)
    done = set()
    for u in units.values():
        for f in u.funcs:
            if not (f.cls == 'amgcl::solver::skyline_lu' and f.j.get('ctor') and f.cfg is not None) or f.line in done:
                continue
            import inline
            f = inline.expand(f, inline.same_class_helper(keep=('factorize',)))     # the two passes may live in private members
            loc = locate(f)
            prof, store = {}, {}
            prof_guards, store_guards = [], []
            for n in f.nodes.values():
                if n['k'] == 'bin' and n['op'] == '=' and n['i'] in loc:
                    lhs = unwrap(n['x'])
                    if lhs is None or lhs['k'] != 'idx':
                        continue
                    base = unwrap(lhs['b'])
                    nm = base.get('n') if base is not None and base['k'] in ('mem', 'ref') else None
                    loops = [a for a in f.ancestors(n) if a['k'] in ('for', 'while')]
                    if not loops or nm not in ('ptr', 'L', 'U'):
                        continue
                    cases, pair = order_cases(f, loops[0], loc[n['i']][0])
                    if cases is None:
                        continue
                    (prof if nm == 'ptr' else store).setdefault(nm, set()).update(cases)
                    # value guards (not index comparisons) around the statement: `if (!math::is_zero(v))`
                    import twopass

                    def lits(fm, pol=True):
                        # literals of the top-level conjunction (value atoms only; index comparisons are handled by order_cases)
                        if fm[0] == 'and' and pol:
                            return lits(fm[1], True) | lits(fm[2], True)
                        if fm[0] == 'or' and not pol:
                            return lits(fm[1], False) | lits(fm[2], False)
                        if fm[0] == 'not':
                            return lits(fm[1], not pol)
                        if fm[0] == 'atom':
                            return {('' if pol else '!') + fm[1]}
                        return set()
                    vg = frozenset(lits(twopass.path_condition(f, n, loops[-1], {})))
                    (prof_guards if nm == 'ptr' else store_guards).append((n, vg))
            if not store:
                continue
            done.add(f.line)
            need = set().union(*store.values()) - {'=='}
            have = set().union(*prof.values()) if prof else set()
            missing = sorted(need - have)
            # an entry the profile pass skips (a stored zero) must be skipped by the copy pass as well: the value guards common to all
            # profile statements guard every store
            common = frozenset.intersection(*[g for _, g in prof_guards]) if prof_guards else frozenset()
            unguarded = [(n, common - g) for n, g in store_guards if common - g]
            if unguarded and not missing:
                n0, lacking = unguarded[0]
                ck.ob('profile-covers-stores', 'amgcl::solver::skyline_lu::ctor', f.where(n0), False,
                      'the profile pass raises the row / column height only under %s, the copy pass stores at %s without that guard: an entry the profile ignores is written outside '
                      'the skyline (into another column / row)' % (sorted(lacking), f.where(n0)))
                continue
            ck.ob('profile-covers-stores', 'amgcl::solver::skyline_lu::ctor', f.where(), not missing and bool(prof),
                  '' if (not missing and prof) else 'entries are stored into L / U when the permuted row index is %s the permuted column index, but the profile (ptr) is never raised in that case: '
                                                    'the entry overwrites a slot of another row / column' % ' / '.join(missing or ['?']))


def _idents(s):
    import re
    return set(re.findall(r'[A-Za-z_][A-Za-z_0-9]*', s))
