"""C07 - zero output coefficient overwrites (DESIGN.md 4, C07).

For every implementation of a backend primitive (X_impl<...>::apply and
lin_comb): every read of the output is dominated by the edge !is_zero(coef)
or happens after a kill of the output on that path.  Pure outputs are never
read before written.  Delegating specialisations pass coef and output through.
"""
import os

import ir
from ir import walk, unwrap, show
from effects import PRIMS, prim_name, classify_coef, aliases_of, uses_of, locate
from framework import Check
from accesses import Analyzer

QUICK_UNITS = ['rt_builtin', 'vt_block', 'be_block_crs', 'be_eigen', 'ip_unit', 'mixed']
THOROUGH_UNITS = QUICK_UNITS + ['vt_float', 'vt_complex']


def nonzero_edge(func, cond, coef_decl):
    """returns the successor index (0 = condition true, 1 = false) on which coef != 0 is known, else None"""
    c = unwrap(cond)
    neg = False
    while c is not None and c['k'] == 'un' and c['op'] == '!':
        neg = not neg
        c = unwrap(c['e'])
    if c is None:
        return None
    if c['k'] == 'call' and c.get('f') == 'amgcl::math::is_zero' and c.get('a'):
        a = unwrap(c['a'][0])
        if a['k'] == 'ref' and a['d'] == coef_decl:
            return 0 if neg else 1
    if c['k'] == 'bin' and c['op'] in ('!=', '=='):
        x, y = unwrap(c['x']), unwrap(c['y'])
        for p, q in ((x, y), (y, x)):
            if p['k'] == 'ref' and p['d'] == coef_decl and classify_coef(func, q) == 'zero':
                nz_on_true = c['op'] == '!='
                if neg:
                    nz_on_true = not nz_on_true
                return 0 if nz_on_true else 1
    return None


def analyse(ck, f, prim, rule):
    ci, oi = PRIMS[prim]
    if len(f.params) <= oi:
        return
    out = f.params[oi]
    coef = f.params[ci] if ci is not None else None
    al = aliases_of(f, out)
    uses = uses_of(f, al)
    loc = locate(f)
    cfg = f.cfg
    key = pattern_key(f)
    if cfg is None:
        ck.brk('no CFG for ' + f.full)
        return
    events = {}
    for u in uses:
        where = loc.get(u.node['i'])
        if where is None:
            ck.brk('use of output at %s is outside the CFG of %s' % (f.where(u.node), f.full))
            continue
        b, pos = where
        kind = None
        if u.kind in ('read', 'rw'):
            kind = 'check'
        elif u.kind == 'kill':
            kind = 'gen'
        elif u.kind == 'prim-out':
            if u.coef == 'zero':
                kind = 'gen'
            elif coef is not None and u.coef == ('param', coef):
                kind = 'gen'       # pass-through: the callee carries the same obligation
            else:
                kind = 'check+gen'  # accumulates into the output with a coefficient that is not ours
        elif u.kind == 'prim-in':
            kind = 'check'
        elif u.kind == 'call':
            kind = 'check'
        if kind:
            events.setdefault(b, []).append((pos, kind, u))
    for b in events:
        events[b].sort(key=lambda e: (e[0], 0 if e[1].startswith('check') else 1))
    bad = []

    def transfer(b, st):
        for pos, kind, u in events.get(b, ()):
            if kind.startswith('check') and not st:
                bad.append(u)
            if kind.endswith('gen'):
                st = True
        return st

    def edge(b, k, s, st):
        if coef is not None:
            c = cfg.cond(b)
            if c is not None:
                nz = nonzero_edge(f, c, coef)
                if nz is not None and nz == k:
                    return True
        return st

    # first pass to fixpoint, collect violations in a second pass over final IN states
    IN, OUT = cfg.forward(False, lambda b, st: _silent(events, b, st), edge=edge, join=lambda a, b_: a and b_)
    for b, st in IN.items():
        transfer(b, st)
    reads = sum(1 for evs in events.values() for e in evs if e[1].startswith('check'))
    seen = set()
    dets = []
    for u in bad:
        if u.node['i'] in seen:
            continue
        seen.add(u.node['i'])
        dets.append('%s reads the output `%s` (%s) although its coefficient %s may be zero on this path' % (
            f.where(u.node), show(u.top), u.kind, f.decl(coef)['n'] if coef is not None else '(none: pure output)'))
    ck.ob(rule, key, f.where(), not dets, ('in %s: ' % f.full if dets else '') + '; '.join(dets[:3]), trivial=(reads == 0))


_PAT = {}


def pattern_key(f):
    """file|class::apply#k where k is the ordinal of this specialisation among those of the same
    class in the same file (stable under line shifts)"""
    lines = _PAT.setdefault((f.file, f.q), set())
    lines.add(f.line)
    return '%s|%s@L%d' % (f.rel(), f.q, f.line)  # resolved to ordinals in finalize_keys


def finalize_keys(ck):
    for o in ck.obs:
        if '@L' in o['key']:
            head, line = o['key'].rsplit('@L', 1)
            rel, q = head.split('|', 1)
            cands = None
            for (file, qq), ls in _PAT.items():
                if qq == q and file.endswith(rel):
                    cands = sorted(ls)
            o['key'] = '%s#%d' % (head, cands.index(int(line)) + 1 if cands else 0)


def _silent(events, b, st):
    for pos, kind, u in events.get(b, ()):
        if kind.endswith('gen'):
            st = True
    return st


def slot_table_check(ck, units):
    """the frozen slot table against the declarations of the front functions in interface.hpp"""
    ck.rule('slots', 'frozen slot table (primitive -> coefficient index, output index) agrees with the front functions of backend/interface.hpp: '
                     'the output is the only non-const reference parameter', 7)
    seen = set()
    for u in units.values():
        for f in u.funcs:
            if not f.q.startswith('amgcl::backend::'):
                continue
            name = f.q[len('amgcl::backend::'):]
            if name not in PRIMS or not f.rel().endswith('backend/interface.hpp') or name in seen:
                continue
            ci, oi = PRIMS[name]
            ok = len(f.params) > oi
            det = ''
            if ok:
                for i, d in enumerate(f.params):
                    dd = f.decl(d)
                    mut_ref = dd.get('ref') and not dd.get('const')
                    if i == oi and not mut_ref:
                        ok, det = False, 'parameter %d (%s) is not a mutable reference' % (i, dd['n'])
                    if i != oi and mut_ref:
                        ok, det = False, 'parameter %d (%s) is a second mutable reference' % (i, dd['n'])
            else:
                det = 'has %d parameters' % len(f.params)
            seen.add(name)
            ck.ob('slots', name, f.where(), ok, det)


def conj_rule(ck, units):
    """inner_product is conjugate-linear in the SECOND argument, for every value type and backend (sibling agreement)"""
    from accesses import Analyzer
    ck.rule('conj-second', 'in every inner_product implementation conjugation / adjoint is applied to (elements of) the second argument only; '
                           'element-wise products keep the argument order (x first)', 8)
    CONJ = ('adjoint', 'conj', 'conjugate')
    done = set()
    for u in units.values():
        an = Analyzer([u])
        for f in u.funcs:
            cls = f.cls or ''
            if not (cls in ('amgcl::math::inner_product_impl', 'amgcl::backend::inner_product_impl') and len(f.params) == 2 and f.q.split('::')[-1] in ('get', 'serial', 'parallel')):
                continue
            key = '%s|%s::%s@%d' % (f.rel(), cls, f.q.split('::')[-1], f.line)
            if (key, f.full) in done:
                continue
            done.add((key, f.full))
            dets = []
            nconj = 0
            for c in f.calls():
                nm = c.get('m') or (c.get('f') or '').split('::')[-1]
                if nm in CONJ:
                    nconj += 1
                    tgt = c.get('obj') if c.get('obj') is not None and c.get('m') else (c['a'][0] if c.get('a') else None)
                    r = an.root_of_expr(f, tgt) if tgt is not None else None
                    if r != ('param', 1):
                        dets.append('%s is applied to %s at %s' % (nm, 'the first argument' if r == ('param', 0) else r, f.where(c)))
                elif nm == 'dot' and c.get('obj') is not None and c.get('a'):
                    # Eigen: a.dot(b) conjugates a
                    nconj += 1
                    if an.root_of_expr(f, c['obj']) != ('param', 1) or an.root_of_expr(f, c['a'][0]) != ('param', 0):
                        dets.append('dot() conjugates its object: expected y.dot(x) at %s' % f.where(c))
                elif nm == 'inner_product' and len(c.get('a', [])) == 2:
                    nconj += 1
                    if [an.root_of_expr(f, a) for a in c['a']] != [('param', 0), ('param', 1)]:
                        dets.append('element inner product called with swapped arguments at %s' % f.where(c))
            ck.ob('conj-second', key.rsplit('@', 1)[0] + '#' + str(sorted(x for x in {g.line for g in u.funcs if g.cls == cls and g.q == f.q and g.file == f.file}).index(f.line) + 1),
                  f.where(), not dets, ('in %s: ' % f.full[:100] if dets else '') + '; '.join(dets), trivial=(nconj == 0))


def rule_zero(ck, units, floor=18):
    """the clause of C07 other properties rely on: a zero output coefficient makes a primitive overwrite its output without reading it"""
    ck.rule('no-read-under-zero', 'in X_impl<...>::apply every read of the output is dominated by !is_zero(own coefficient) or follows a kill of the output; '
                                  'pure outputs (residual, copy, clear) are never read', floor)
    done = set()
    for u in units.values():
        for f in u.funcs:
            prim = None
            if f.cls and f.cls.startswith('amgcl::backend::') and f.cls.endswith('_impl') and f.q.endswith('::apply'):
                p_ = f.cls[len('amgcl::backend::'):-len('_impl')]
                if p_ in PRIMS:
                    prim = p_
            elif f.q == 'amgcl::backend::lin_comb':
                prim = 'lin_comb'
            if prim is None or f.full in done:
                continue
            done.add(f.full)
            analyse(ck, f, prim, 'no-read-under-zero')
    finalize_keys(ck)


def rule_extent(ck, units):
    """element-wise loops over the output vector of a primitive run over the whole vector: the bound of a loop whose body writes out[i]
    (i the induction variable itself) is the number of rows of the matrix argument (rows(A) / A.nrows / A.rows()) or the size of a
    vector argument - not a block count or any other quantity"""
    ck.rule('full-extent', 'in the backend primitives every loop that writes the output vector element by element (out[i], i the induction variable) is bounded by the row count of the matrix '
                           'argument or the size of a vector argument: the whole output is scaled / overwritten, whatever the block structure', 10)
    done = set()
    for u in units.values():
        an = Analyzer([u])
        for f in u.funcs:
            if not (f.cls and f.cls.startswith('amgcl::backend::') and f.cls.endswith('_impl') and f.q.endswith('::apply')) or f.cfg is None:
                continue
            p = f.cls[len('amgcl::backend::'):-len('_impl')]
            if p not in PRIMS or (f.file, f.line) in done:
                continue
            oi = PRIMS[p][1]
            if oi >= len(f.params):
                continue
            out_root = ('param', oi)
            k = 0
            for L in [n for n in f.nodes.values() if n['k'] == 'for' and n.get('c') is not None]:
                ivs = set()
                for x in walk(L.get('init') or {'k': 'x', 'i': -1}):
                    if x['k'] == 'decl':
                        ivs |= {v['d'] for v in x['v']}
                writes = []
                for n in walk(L['b']):
                    if n['k'] == 'bin' and n['op'] in ('=', '+=', '-=', '*=', '/='):
                        lhs = unwrap(n['x'])
                        if lhs is not None and lhs['k'] == 'idx' and unwrap(lhs['x'])['k'] == 'ref' and unwrap(lhs['x'])['d'] in ivs and an.root_of_expr(f, lhs['b']) == out_root \
                                and unwrap(lhs['b'])['k'] == 'ref':
                            writes.append(n)
                if not writes:
                    continue
                c = unwrap(L['c'])
                if c['k'] != 'bin' or c['op'] not in ('<', '!=', '<='):
                    continue
                bound = c['y']

                def origin(e, depth=0):
                    e = unwrap(e)
                    if e is None or depth > 4:
                        return None
                    if e['k'] == 'call':
                        nm = e.get('m') or (e.get('f') or '').split('::')[-1]
                        if nm in ('rows', 'size') and (e.get('obj') is not None or e.get('a')):
                            r = an.root_of_expr(f, e.get('obj') if e.get('obj') is not None else e['a'][0])
                            return ('extent', r) if r is not None and r[0] == 'param' else None
                    if e['k'] == 'mem' and e['n'] in ('nrows', 'n', 'rows'):
                        r = an.root_of_expr(f, e['b']) if e.get('b') is not None else None
                        return ('extent', r) if r is not None and r[0] == 'param' else None
                    if e['k'] == 'ref' and f.decl(e['d']).get('k') in ('local',):
                        inits = [v['init'] for n in f.nodes.values() if n['k'] == 'decl' for v in n['v'] if v['d'] == e['d'] and v.get('init') is not None]
                        if len(inits) == 1:
                            return origin(inits[0], depth + 1)
                    return ('other', show(e))
                o = origin(bound)
                k += 1
                key = '%s|%s|loop#%d' % (f.rel(), f.cls, k)
                ok = o is not None and o[0] == 'extent'
                ck.ob('full-extent', key, f.where(L), ok, '' if ok else 'in %s: the loop at %s writes `%s` element by element but is bounded by `%s` (%s), not by the row count of the matrix or the size of a vector argument' % (
                    f.full[:80], f.where(L), show(writes[0]['x']), show(bound), o[1] if o else '?'))
            if k:
                done.add((f.file, f.line))


def main(tier):
    ck = Check('C07', tier, 'C07 (clause): a zero output coefficient makes every backend primitive overwrite its output without reading it.')
    T = os.path.join(ir.VERIF, 'tus')
    names = QUICK_UNITS if tier == 'quick' else THOROUGH_UNITS
    specs = [dict(name=n, src=os.path.join(T, n + '.cpp')) for n in names]
    if tier == 'thorough':
        for t in sorted(os.listdir(os.path.join(ir.REPO, 'tests'))):
            if t.startswith('test_solver_') and t.endswith('.cpp') and t[12:-4] in ('builtin', 'complex', 'block_crs', 'eigen', 'ns_builtin', 'ns_eigen'):
                specs.append(dict(name='tests_' + t[:-4], src=os.path.join(ir.REPO, 'tests', t), extra=['-DBOOST_TEST_DYN_LINK']))
    units = ir.run_units(specs, 'C07')
    ck.add_units(units, specs)
    ck.rule('no-read-under-zero', 'in X_impl<...>::apply every read of the output is dominated by !is_zero(own coefficient) or follows a kill of the output; '
                                  'pure outputs (residual, copy, clear) are never read', 18)
    slot_table_check(ck, units)
    done = set()
    for u in units.values():
        for f in u.funcs:
            prim = None
            if f.cls and f.cls.startswith('amgcl::backend::') and f.cls.endswith('_impl') and f.q.endswith('::apply'):
                p = f.cls[len('amgcl::backend::'):-len('_impl')]
                if p in PRIMS:
                    prim = p
            elif f.q == 'amgcl::backend::lin_comb':
                prim = 'lin_comb'
            if prim is None or f.full in done:
                continue
            done.add(f.full)
            analyse(ck, f, prim, 'no-read-under-zero')
    conj_rule(ck, units)
    rule_extent(ck, units)
    import c13
    c13.rule_witness(ck)        # value-type trait identities (shared with C13)
    c13.rule_view(ck, units)   # scalar vectors viewed as block vectors keep their own precision (shared with C13)
    c13.rule_view_extent(ck, units)
    import c10
    c10.rule_D(ck, units)      # per-thread partial sums of inner_product are initialised for every slot (shared with C10)
    finalize_keys(ck)
    ck.assumptions += ['math::is_zero(b) is true exactly for the additive zero of the coefficient type',
                       'the algebraic formula itself, Kahan summation accuracy and the conjugation convention are not decided']
    return ck.finish()
