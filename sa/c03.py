"""C03 - coarse levels are (rescaled) Galerkin products; rebuild keeps them so (DESIGN.md 4, C03).

A  the matrix returned by coarse_operator(A, P, R) of every coarsening is, as a term over its own
   parameters, product(R, product(A, P)) - scaled by 1 / prm.over_interp for plain aggregation only
B  transfer_operators of aggregation, smoothed_aggregation, ruge_stuben return (P, transpose(*P))
C  level::step_down feeds the P, R it just obtained to coarse_operator and keeps them in bP / bR exactly when
   allow_rebuild; level::rebuild recomputes the coarse matrix from its argument and the stored bP / bR;
   amg::rebuild threads the returned matrix through the levels and is guarded by its preconditions
"""
import os

import ir
from ir import walk, unwrap, show
from accesses import Analyzer
from effects import locate
from framework import Check

COARSENINGS = ['aggregation', 'smoothed_aggregation', 'smoothed_aggr_emin', 'ruge_stuben']
ADJOINT_R = ['aggregation', 'smoothed_aggregation', 'ruge_stuben']
GAL = ('product', ('p', 2), ('product', ('p', 0), ('p', 1)))


class Terms:
    """symbolic value of matrix expressions over the parameters of the analysed function"""

    def __init__(self, unit):
        self.u = unit
        self.an = Analyzer([unit])

    def of_function(self, g, args, depth=0):
        """set of terms a call g(args) may return"""
        if depth > 6 or g is None:
            return {('unknown', g.q if g else '?')}
        out = set()
        rets = g.returns()
        if not rets:
            if g.never_returns():
                return set()   # every path throws (component not supported by this backend): contributes no value
            return {('unknown', g.q)}
        for r in rets:
            out |= self.of_expr(g, r['e'], args, depth)
        return out

    def of_expr(self, f, e, args, depth):
        e = unwrap(e)
        if e is None:
            return {('unknown', '?')}
        k = e['k']
        if k == 'ref':
            pi = f.param_index(e['d'])
            if pi is not None:
                return {args[pi]} if args is not None and pi < len(args) else {('p', pi)}
            # local: single definition + in-place modifications
            defs = []
            for n in f.nodes.values():
                if n['k'] == 'decl':
                    for v in n['v']:
                        if v['d'] == e['d'] and v.get('init') is not None:
                            defs.append(v['init'])
                if n['k'] == 'bin' and n['op'] == '=' and unwrap(n['x'])['k'] == 'ref' and unwrap(n['x'])['d'] == e['d']:
                    defs.append(n['y'])
            if len(defs) != 1:
                return {('unknown', 'local %s has %d definitions' % (e['n'], len(defs)))}
            ts = self.of_expr(f, defs[0], args, depth)
            # in-place modifications through mutable arguments
            for c in f.calls():
                for i, a in enumerate(c.get('a', [])):
                    if i in c.get('mr', []) and self.an.root_of_expr(f, a) == ('var', e['d']):
                        if c.get('f') in ('amgcl::backend::scale', 'amgcl::mpi::scale'):
                            sa = unwrap(c['a'][1])
                            stxt = show(sa)
                            if sa['k'] == 'ref' and f.param_index(sa['d']) is not None and args is not None and f.param_index(sa['d']) < len(args):
                                t_ = args[f.param_index(sa['d'])]
                                stxt = t_[1] if t_[0] in ('scalar', 'unknown') else stxt
                            ts = {('scale', t, stxt) for t in ts}
                        elif c.get('f') in ('amgcl::backend::sort_rows', 'amgcl::mpi::sort_rows'):
                            pass   # reordering within rows does not change the matrix
                        else:
                            ts = {('unknown', 'modified by %s' % c.get('f'))}
            return ts
        if k == 'un' and e['op'] in ('*', '->'):
            return self.of_expr(f, e['e'], args, depth)
        if k in ('cast', 'defarg'):
            return self.of_expr(f, e['e'], args, depth)
        if k == 'ctor' and len(e.get('a', [])) == 1:
            return self.of_expr(f, e['a'][0], args, depth)
        if k == 'call':
            name = e.get('f') or ''
            a = e.get('a', [])
            if name in ('amgcl::backend::product', 'amgcl::mpi::product') and len(a) >= 2:
                out = set()
                for x in self.of_expr(f, a[0], args, depth):
                    for y in self.of_expr(f, a[1], args, depth):
                        out.add(('product', x, y))
                return out
            if name in ('amgcl::backend::transpose', 'amgcl::mpi::transpose') and len(a) == 1:
                return {('transpose', x) for x in self.of_expr(f, a[0], args, depth)}
            g = self.u.by_id.get(e.get('fd'))
            if g is not None and g.rel().startswith('amgcl/') and g.cfg is not None:
                argterms = []
                for y in a:
                    ts = self.of_expr(f, y, args, depth)
                    t1 = next(iter(ts)) if len(ts) == 1 else ('unknown', 'ambiguous argument')
                    if t1[0] == 'unknown':
                        t1 = ('scalar', show(y))
                    argterms.append(t1)
                return self.of_function(g, argterms, depth + 1)
            return {('unknown', name or show(e))}
        if k == 'mem':
            b = unwrap(e.get('b'))
            if b is None or b['k'] == 'this':
                return {('member', e['n'])}
        return {('unknown', show(e))}


def flat(t):
    """matrix products are associative: compare as factor chains"""
    if t[0] == 'product':
        return flat(t[1]) + flat(t[2])
    return [t]


GAL_CHAIN = [('p', 2), ('p', 0), ('p', 1)]


def is_gal(t):
    return t[0] == 'product' and flat(t) == GAL_CHAIN


def tshow(t):
    if t[0] == 'p':
        return 'ARG%d' % t[1]
    if t[0] == 'product':
        return '(%s * %s)' % (tshow(t[1]), tshow(t[2]))
    if t[0] == 'scale':
        return 'scale(%s, %s)' % (tshow(t[1]), t[2])
    if t[0] == 'transpose':
        return 'transpose(%s)' % tshow(t[1])
    if t[0] == 'member':
        return 'this->' + t[1]
    return '<%s>' % (t[1],)


def rule_A(ck, units):
    ck.rule('A.galerkin', 'coarse_operator(A, P, R) returns product(R, product(A, P)) of its own arguments (scaled by 1 / prm.over_interp for plain aggregation only)', 6)
    seen = set()
    for u in units.values():
        T = Terms(u)
        for f in u.funcs:
            if f.q.split('::')[-1] != 'coarse_operator' or len(f.params) != 3 or f.cfg is None or not f.cls:
                continue
            if not f.cls.startswith(('amgcl::coarsening::', 'amgcl::runtime::coarsening', 'amgcl::mpi::coarsening', 'amgcl::runtime::mpi::coarsening')):
                continue
            terms = T.of_function(f, [('p', 0), ('p', 1), ('p', 2)])
            name = f.cls.split('::')[-1]
            dets = []
            for t in terms:
                if is_gal(t):
                    continue
                if t[0] == 'scale' and is_gal(t[1]):
                    plain = f.cls in ('amgcl::coarsening::aggregation', 'amgcl::mpi::coarsening::aggregation') or 'wrapper' in f.cls or 'as_scalar' in f.cls
                    if plain and 'over_interp' in t[2] and '1' in t[2]:
                        continue
                    dets.append('result is rescaled by `%s`' % t[2])
                    continue
                dets.append('result is %s, not R * (A * P)' % tshow(t))
            seen.add(f.cls)
            ck.ob('A.galerkin', f.cls, f.where(), not dets, '; '.join(sorted(set(dets))[:3]))
    missing = [c for c in COARSENINGS if 'amgcl::coarsening::' + c not in seen]
    if missing:
        ck.brk('coarsening classes not instantiated: %s' % missing)


def rule_A_wrapper(ck, units):
    """a coarsening that wraps another one (it obtains its transfer operators from `member.transfer_operators(..)`: coarsening::as_scalar)
    has no coarse-operator formula of its own: whether the Galerkin product is rescaled is the wrapped policy's decision, so
    coarse_operator(A, P, R) is `member.coarse_operator(A, P, R)`."""
    ck.rule('A.wrapper-delegates', 'a coarsening that takes its transfer operators from a wrapped policy (as_scalar) forwards coarse_operator(A, P, R) to that policy with the same '
                                   'arguments: the rescaling of plain aggregation survives the wrapper', 1)
    done = set()
    for u in units.values():
        by = {}
        for f in u.funcs:
            if f.cls and f.cls.startswith('amgcl::coarsening::') and f.body is not None:
                by.setdefault(f.clsfull or f.cls, []).append(f)
        for cls, fs in sorted(by.items()):
            wrapped = set()
            for g in fs:
                if g.q.split('::')[-1] == 'transfer_operators':
                    for c in g.calls():
                        o = unwrap(c['obj']) if c.get('obj') is not None else None
                        if c.get('m') == 'transfer_operators' and o is not None and o['k'] == 'mem' and (o.get('b') is None or unwrap(o['b'])['k'] == 'this'):
                            wrapped.add(o['n'])
            if not wrapped:
                continue
            for g in fs:
                if g.q.split('::')[-1] != 'coarse_operator' or len(g.params) != 3 or (cls.split('<')[0], g.line) in done:
                    continue
                done.add((cls.split('<')[0], g.line))
                ok = False
                for r in g.returns():
                    e = unwrap(r['e'])
                    while e is not None and e['k'] in ('ctor', 'cast') and (e.get('a') or e.get('e')):
                        e = unwrap(e['a'][0] if e.get('a') else e['e'])
                    if e is not None and e['k'] == 'call' and e.get('m') == 'coarse_operator' and e.get('obj') is not None:
                        o = unwrap(e['obj'])
                        args = [unwrap(a) for a in e.get('a', [])]
                        ok = o is not None and o['k'] == 'mem' and o['n'] in wrapped and len(args) == 3 and all(a is not None and a['k'] == 'ref' and a['d'] == g.params[i] for i, a in enumerate(args))
                ck.ob('A.wrapper-delegates', cls.split('<')[0], g.where(), ok, '' if ok else
                      '%s takes its transfer operators from the wrapped policy `%s` but computes the coarse operator itself: for a wrapped plain aggregation the division by over_interp is lost' % (
                          cls.split('<')[0], sorted(wrapped)[0]))


def rule_A_mpi(ck, units):
    ck.rule('A.galerkin-mpi', 'distributed coarse_operator(A, P, R) returns product(R, product(A, P)) (scaled for plain aggregation)', 2)
    for u in units.values():
        for f in u.funcs:
            if f.q.split('::')[-1] != 'coarse_operator' or len(f.params) != 3 or not f.cls or not f.cls.startswith('amgcl::mpi::coarsening'):
                continue
            T = Terms(u)
            # mpi product is amgcl::mpi::product: treat like backend::product
            def conv(f_, e):
                return e
            terms = set()
            for r in f.returns():
                terms |= mpi_term(T, f, r['e'])
            dets = []
            for t in terms:
                if t == GAL:
                    continue
                if t[0] == 'scale' and t[1] == GAL and f.cls.endswith('::aggregation') and 'over_interp' in t[2]:
                    continue
                dets.append('result is %s, not R * (A * P)' % tshow(t))
            ck.ob('A.galerkin-mpi', f.cls, f.where(), not dets and bool(terms), '; '.join(dets[:2]) if dets else ('' if terms else 'no return'))


def mpi_term(T, f, e):
    e = unwrap(e)
    if e is None:
        return {('unknown', '?')}
    if e['k'] == 'call' and (e.get('f') or '').endswith('mpi::product') and len(e.get('a', [])) >= 2:
        out = set()
        for x in mpi_term(T, f, e['a'][0]):
            for y in mpi_term(T, f, e['a'][1]):
                out.add(('product', x, y))
        return out
    if e['k'] == 'un' and e['op'] in ('*', '->'):
        return mpi_term(T, f, e['e'])
    if e['k'] == 'ref':
        pi = f.param_index(e['d'])
        if pi is not None:
            return {('p', pi)}
        defs = []
        for n in f.nodes.values():
            if n['k'] == 'decl':
                for v in n['v']:
                    if v['d'] == e['d'] and v.get('init') is not None:
                        defs.append(v['init'])
        if len(defs) == 1:
            ts = mpi_term(T, f, defs[0])
            for c in f.calls():
                if (c.get('f') or '').endswith('mpi::scale') and T.an.root_of_expr(f, c['a'][0]) == ('var', e['d']):
                    ts = {('scale', t, show(c['a'][1])) for t in ts}
            return ts
    if e['k'] in ('cast', 'defarg') or (e['k'] == 'ctor' and len(e.get('a', [])) == 1):
        return mpi_term(T, f, e['e'] if 'e' in e else e['a'][0])
    return {('unknown', show(e))}


def rule_B(ck, units):
    ck.rule('B.R-is-adjoint', 'transfer_operators of aggregation, smoothed_aggregation and ruge_stuben returns (P, transpose(*P))', 3)
    for u in units.values():
        an = Analyzer([u])
        for f in u.funcs:
            if f.q.split('::')[-1] != 'transfer_operators' or not f.cls or f.cls.split('::')[-1] not in ADJOINT_R or not f.cls.startswith('amgcl::coarsening::'):
                continue
            rets = f.returns()
            dets = []
            for r in rets:
                tup = [t_ for t_ in [ir.tuple_node(r['e'])] if t_ is not None]
                if not tup or len(tup[0].get('a', [])) != 2:
                    dets.append('return at %s is not a (P, R) tuple' % f.where(r))
                    continue
                a0, a1 = tup[0]['a']
                r0 = an.root_of_expr(f, a0)
                a1u = unwrap(a1)
                ok = a1u['k'] == 'call' and a1u.get('f') == 'amgcl::backend::transpose' and an.root_of_expr(f, a1u['a'][0]) == r0 and r0 is not None
                if not ok:
                    dets.append('R returned at %s is `%s`, not transpose(*P)' % (f.where(r), show(a1u)[:60]))
            if not rets:
                dets.append('no return')
            ck.ob('B.R-is-adjoint', f.cls, f.where(), not dets, '; '.join(dets[:2]))


def rule_C(ck, units):
    ck.rule('C.step-down', 'level::step_down calls C.coarse_operator(*A, *P, *R) with the P, R obtained from C.transfer_operators(*A), stores them in this->P/R and, '
                           'exactly under allow_rebuild, in bP / bR', 1)
    ck.rule('C.level-rebuild', 'level::rebuild recomputes A, relax, solve from its argument and returns C.coarse_operator(*A, *bP, *bR) under `bP && bR`', 1)
    ck.rule('C.amg-rebuild', 'amg::rebuild threads the matrix returned by each level into the next one and is guarded by the allow_rebuild and same-shape preconditions', 1)
    for u in units.values():
        an = Analyzer([u])
        for f in u.funcs:
            if f.cls != 'amgcl::amg::level' or f.cfg is None:
                continue
            m = f.q.split('::')[-1]
            if m == 'step_down':
                dets = []
                tr = [c for c in f.calls() if c.get('m') == 'transfer_operators']
                co = [c for c in f.calls() if c.get('m') == 'coarse_operator']
                if len(tr) != 1 or len(co) != 1:
                    dets.append('expected one transfer_operators and one coarse_operator call')
                else:
                    if an.root_of_expr(f, tr[0]['a'][0]) != ('param', 0):
                        dets.append('transfer_operators is not computed from the level matrix A')
                    # std::tie(P, R) = C.transfer_operators(*A)
                    tie = None
                    for n in f.nodes.values():
                        if n['k'] == 'bin' and n['op'] == '=' and any(x is tr[0] for x in walk(n['y'])):
                            t = unwrap(n['x'])
                            if t['k'] == 'call' and t.get('f') == 'std::tie' and len(t['a']) == 2:
                                tie = [an.root_of_expr(f, y) for y in t['a']]
                    if tie is None:
                        dets.append('result of transfer_operators is not tied to (P, R)')
                    else:
                        roots = [an.root_of_expr(f, y) for y in co[0]['a']]
                        if roots != [('param', 0), tie[0], tie[1]]:
                            dets.append('coarse_operator is called with %s, expected (A, P, R) of this level' % (roots,))
                        # reassignments of P / R between tie and coarse_operator
                        for n in f.nodes.values():
                            if n['k'] == 'bin' and n['op'] == '=' and an.root_of_expr(f, n['x']) in tie and unwrap(n['x'])['k'] == 'ref' and not any(x is tr[0] for x in walk(n['y'])):
                                dets.append('P or R is reassigned at %s' % f.where(n))
                        # stores
                        stores = {}
                        for n in f.nodes.values():
                            if n['k'] == 'bin' and n['op'] == '=':
                                lhs = an.root_of_expr(f, n['x'])
                                if lhs is not None and lhs[0] == 'this' and lhs[1] in ('bP', 'bR', 'P', 'R'):
                                    src = [an.root_of_expr(f, x) for x in walk(n['y']) if x['k'] == 'ref']
                                    guard = [show(a['c']) for a in f.ancestors(n) if a['k'] == 'if']
                                    stores[lhs[1]] = (src, guard)
                        for nm, want in (('bP', tie[0]), ('bR', tie[1]), ('P', tie[0]), ('R', tie[1])):
                            if nm not in stores or want not in stores[nm][0]:
                                dets.append('this->%s is not set from the level\'s %s' % (nm, nm[-1]))
                            elif nm in ('bP', 'bR') and stores[nm][1] != ['allow_rebuild']:
                                dets.append('%s is stored under guard %s (expected allow_rebuild)' % (nm, stores[nm][1]))
                    # the returned matrix is the coarse operator
                    rets = f.returns()
                    lastret = [r for r in rets if an.root_of_expr(f, r['e']) == ('param', 0)]
                    asg = [n for n in f.nodes.values() if n['k'] == 'bin' and n['op'] == '=' and an.root_of_expr(f, n['x']) == ('param', 0) and unwrap(n['x'])['k'] == 'ref'
                           and any(x is co[0] for x in walk(n['y']))]
                    if not asg or not lastret:
                        dets.append('the value returned is not the result of coarse_operator')
                ck.ob('C.step-down', 'amgcl::amg::level::step_down', f.where(), not dets, '; '.join(dets[:3]))
            elif m == 'rebuild':
                dets = []
                co = [c for c in f.calls() if c.get('m') == 'coarse_operator']
                if len(co) != 1:
                    dets.append('expected one coarse_operator call')
                else:
                    roots = [an.root_of_expr(f, y) for y in co[0]['a']]
                    if roots != [('param', 0), ('this', 'bP'), ('this', 'bR')]:
                        dets.append('coarse_operator is called with %s, expected (A, bP, bR)' % (roots,))
                    guard = [show(a['c']) for a in f.ancestors(co[0]) if a['k'] == 'if']
                    if guard != ['bP && bR']:
                        dets.append('coarse operator is recomputed under guard %s (expected bP && bR)' % guard)
                # A, relax, solve refreshed from the argument
                for nm, fn in (('A', 'copy_matrix'), ('relax', 'make_shared'), ('solve', 'create_solver')):
                    ok = False
                    for n in f.nodes.values():
                        if n['k'] == 'bin' and n['op'] == '=' and an.root_of_expr(f, n['x']) == ('this', nm):
                            if any(x['k'] == 'ref' and f.param_index(x['d']) == 0 for x in walk(n['y'])):
                                guard = [show(a['c']) for a in f.ancestors(n) if a['k'] == 'if']
                                ok = guard in (['this->' + nm], [nm])
                    if not ok:
                        dets.append('member %s is not refreshed from the new matrix (under `if (%s)`)' % (nm, nm))
                ck.ob('C.level-rebuild', 'amgcl::amg::level::rebuild', f.where(), not dets, '; '.join(dets[:3]))
        for f in u.funcs:
            if f.q == 'amgcl::amg::rebuild' and f.cfg is not None and len(f.params) == 2 and 'shared_ptr' in u.type(f.decl(f.params[0]).get('ct')):
                dets = []
                pre = [show(c['a'][0]) for c in f.calls('amgcl::precondition')]
                if not any('allow_rebuild' in p for p in pre):
                    dets.append('no precondition on prm.allow_rebuild')
                if not any('rows' in p and 'system_matrix' in p for p in pre):
                    dets.append('no same-shape precondition')
                lr = [c for c in f.calls() if c.get('m') == 'rebuild']
                ok = False
                for c in lr:
                    pi = f.parent.get(c['i'])
                    p = f.nodes[pi] if pi is not None else None
                    while p is not None and p['k'] in ('ctor', 'cast'):
                        p = f.nodes.get(f.parent.get(p['i']))
                    if p is not None and p['k'] == 'bin' and p['op'] == '=' and an.root_of_expr(f, p['x']) == ('param', 0) and an.root_of_expr(f, c['a'][0]) == ('param', 0) \
                            and any(a['k'] == 'rfor' for a in f.ancestors(c)):
                        ok = True
                if not ok:
                    dets.append('the matrix returned by level.rebuild is not threaded into the next level (A = level.rebuild(A, ..) in the loop over levels)')
                ck.ob('C.amg-rebuild', 'amgcl::amg::rebuild', f.where(), not dets, '; '.join(dets[:3]))


def rule_D(ck, units):
    ck.rule('D.policy-from-params', 'every coarsening policy object the hierarchy code builds (do_init, rebuild; serial and MPI) is constructed from prm.coarsening, and every smoother '
                                    'from the `relax` member of the hierarchy parameters: setup and rebuild use the same configured policies', 2)
    ck.rule('E.coarse-enough', 'every test of a level size against prm.coarse_enough in the hierarchy construction is `rows > coarse_enough` (keep coarsening) - the loop and the '
                               'decision about the direct coarse solver use the same strict comparison, so a level with exactly coarse_enough rows is solved directly', 1)
    for u in units.values():
        an = Analyzer([u])
        # the policy types: objects on which transfer_operators / coarse_operator are invoked inside the amg classes
        for f in u.funcs:
            if f.cfg is None or not f.cls or not (f.cls in ('amgcl::amg', 'amgcl::mpi::amg') or f.cls.startswith(('amgcl::amg::', 'amgcl::mpi::amg::'))):
                continue
            users = set()
            for c in f.calls():
                if c.get('m') in ('transfer_operators', 'coarse_operator') and c.get('obj') is not None:
                    o = unwrap(c['obj'])
                    if o['k'] == 'ref':
                        users.add(o['d'])
                # C handed to a member that uses it (step_down(A, C, ..), level.rebuild(A, C, ..))
                g = u.by_id.get(c.get('fd')) if 'fd' in c else None
                if g is not None and g.cls and g.cls.startswith(('amgcl::amg', 'amgcl::mpi::amg')) and g.body is not None:
                    for i, a in enumerate(c.get('a', [])):
                        au = unwrap(a)
                        if au is not None and au['k'] == 'ref' and i < len(g.params) and f.decl(au['d']).get('k') == 'local':
                            pd = g.params[i]
                            if any(cc.get('m') in ('transfer_operators', 'coarse_operator') and cc.get('obj') is not None and unwrap(cc['obj'])['k'] == 'ref' and unwrap(cc['obj'])['d'] == pd
                                   for cc in g.calls()):
                                users.add(au['d'])
            for n in f.nodes.values():
                if n['k'] != 'decl':
                    continue
                for v in n['v']:
                    if v['d'] not in users:
                        continue
                    init = v.get('init')
                    args = []
                    if init is not None:
                        iu = init
                        while iu is not None and iu['k'] in ('cast', 'defarg'):
                            iu = iu['e']
                        args = [a for a in (iu.get('a', []) if iu is not None else []) if a is not None and a.get('k') != 'defarg']
                    ok = len(args) == 1 and unwrap(args[0])['k'] == 'mem' and unwrap(args[0])['n'] == 'coarsening' and an.root_of_expr(f, args[0]) == ('this', 'prm')
                    ck.ob('D.policy-from-params', '%s|%s' % (f.q, v['n']), f.where(n), ok,
                          '' if ok else 'the coarsening policy `%s` is constructed from `%s`, not from prm.coarsening: it coarsens (or rebuilds) with other parameters than the configured ones' % (
                              v['n'], ', '.join(show(a) for a in args) or 'nothing (default parameters)'))
            # smoothers: make_shared<relax_type>(A, X, bprm) / relax_type(A, X, bprm)
            for c in f.calls():
                if (c.get('f') or '').startswith('std::make_shared') and len(c.get('a', [])) == 3:
                    tgt = None
                    pi = f.parent.get(c['i'])
                    while pi is not None and f.nodes[pi]['k'] in ('cast', 'ctor', 'defarg'):
                        pi = f.parent.get(pi)
                    p = f.nodes.get(pi) if pi is not None else None
                    if p is not None and p['k'] == 'bin' and p['op'] == '=':
                        tgt = an.root_of_expr(f, p['x'])
                    if tgt != ('this', 'relax'):
                        continue
                    a1 = unwrap(c['a'][1])
                    ok = a1['k'] == 'mem' and a1['n'] == 'relax'
                    ck.ob('D.policy-from-params', '%s|relax' % f.q, f.where(c), ok, '' if ok else 'the smoother is constructed from `%s`, not from the relax member of the parameters' % show(a1))
            # E: comparisons with coarse_enough
            if f.q.split('::')[-1] in ('do_init', 'init', 'amg'):
                tests = []
                for n in f.nodes.values():
                    if n['k'] == 'bin' and n['op'] in ('<', '<=', '>', '>=', '==', '!='):
                        sx, sy = show(n['x']), show(n['y'])
                        if 'coarse_enough' in sx or 'coarse_enough' in sy:
                            op = n['op']
                            if 'coarse_enough' in sx:
                                sx, sy = sy, sx
                                op = {'<': '>', '<=': '>=', '>': '<', '>=': '<=', '==': '==', '!=': '!='}[op]
                            # negation context
                            neg = False
                            cur = n
                            for a in f.ancestors(n):
                                if a['k'] == 'un' and a['op'] == '!':
                                    neg = not neg
                                elif a['k'] not in ('cast',):
                                    break
                            if neg:
                                op = {'<': '>=', '<=': '>', '>': '<=', '>=': '<', '==': '!=', '!=': '=='}[op]
                            tests.append((n, sx, op))
                if tests:
                    bad = [(n, sx, op) for (n, sx, op) in tests if op != '>' or 'rows' not in sx]
                    ck.ob('E.coarse-enough', f.q, f.where(tests[0][0]), not bad,
                          '' if not bad else 'the test at %s is `%s %s coarse_enough`; the hierarchy keeps coarsening exactly while `rows > coarse_enough`, so with a different comparison a level '
                                             'of exactly coarse_enough rows is neither coarsened nor solved directly' % (f.where(bad[0][0]), bad[0][1], bad[0][2]))


def rule_G(ck, units):
    """G.rebuild-unconditional: amg::rebuild(A') recomputes every level - every path from the entry of rebuild(shared_ptr, bprm) to a
    normal return passes through the loop over the levels that calls level::rebuild (no shortcut on pointer identity, sizes, flags: a
    matrix updated in place and handed in again through the same pointer still has new values).  Exceptional exits (precondition) aside."""
    from effects import locate
    ck.rule('G.rebuild-unconditional', 'amg::rebuild / mpi::amg::rebuild: every normally returning path runs the loop over the levels that calls level::rebuild (must-pass-through on the CFG)', 1)
    done = set()
    for u in units.values():
        for f in u.funcs:
            if f.q not in ('amgcl::amg::rebuild', 'amgcl::mpi::amg::rebuild') or f.cfg is None or f.cls in done:
                continue
            calls = [c for c in f.calls() if c.get('m') == 'rebuild' and c.get('obj') is not None and c['i'] in locate(f)
                     and any(a['k'] in ('rfor', 'for', 'while') for a in f.ancestors(c))]
            if not calls:
                continue       # the overload that only forwards
            done.add(f.cls)
            loc = locate(f)
            must = {loc[c['i']][0] for c in calls}
            cfg = f.cfg
            seen, stack = set(), [cfg.entry]
            reach_exit = False
            while stack:
                b = stack.pop()
                if b in seen or b in must:
                    continue
                seen.add(b)
                if b == cfg.exit:
                    reach_exit = True
                    break
                stack.extend(s_ for s_ in cfg.succ[b] if s_ is not None)
            # an empty hierarchy (zero levels) skips the loop body legitimately: the loop HEADER must still be passed
            if reach_exit:
                loops = [a for c in calls for a in f.ancestors(c) if a['k'] in ('rfor', 'for', 'while')]
                hdr = set()
                for L in loops:
                    for key in ('c', 'range', 'inc'):
                        if L.get(key) is not None and isinstance(L[key], dict) and L[key].get('i') in loc:
                            hdr.add(loc[L[key]['i']][0])
                    # blocks whose terminator is the loop statement
                    for b, blk in cfg.blocks.items():
                        if blk.get('term') == L['i']:
                            hdr.add(b)
                seen, stack, reach_exit = set(), [cfg.entry], False
                while stack:
                    b = stack.pop()
                    if b in seen or b in hdr:
                        continue
                    seen.add(b)
                    if b == cfg.exit:
                        reach_exit = True
                        break
                    stack.extend(s_ for s_ in cfg.succ[b] if s_ is not None)
            rets = [n for n in f.returns()]
            ck.ob('G.rebuild-unconditional', f.cls, f.where(), not reach_exit, '' if not reach_exit else
                  'rebuild can return%s without running the loop over the levels: the coarse operators keep the values of the old matrix' % (
                      (' at %s' % f.where(rets[0])) if rets else ''))


def rule_F(ck, units):
    ck.rule('F.coarse-operator-sorted', 'every matrix obtained from coarse_operator inside the hierarchy code (step_down at setup, level::rebuild afterwards) is passed to sort_rows before it '
                                        'is returned to become the next level: setup and rebuild hand the same (row-sorted) matrix to order-sensitive smoothers', 2)
    for u in units.values():
        an = Analyzer([u])
        for f in u.funcs:
            if f.cfg is None or not f.cls or not f.cls.startswith(('amgcl::amg::level', 'amgcl::mpi::amg::level')):
                continue
            for c in f.calls():
                if c.get('m') != 'coarse_operator':
                    continue
                # the variable that receives the result
                pi = f.parent.get(c['i'])
                p = f.nodes.get(pi) if pi is not None else None
                while p is not None and p['k'] in ('cast', 'ctor', 'defarg'):
                    p = f.nodes.get(f.parent.get(p['i']))
                tgt = None
                if p is not None and p['k'] == 'bin' and p['op'] == '=':
                    tgt = an.root_of_expr(f, p['x'])
                elif p is not None and p['k'] == 'decl':
                    for v in p['v']:
                        if v.get('init') is not None and any(x is c for x in walk(v['init'])):
                            tgt = ('var', v['d'])
                if tgt is None:
                    continue
                sorted_after = [s_ for s_ in f.calls() if (s_.get('f') or '').endswith('sort_rows') and s_['i'] > c['i'] and an.root_of_expr(f, s_['a'][0]) == tgt]
                key = '%s|%s' % (f.q, f.where(c).split(':')[0])
                if f.cls.startswith('amgcl::mpi'):
                    continue      # distributed matrices are sorted by their own product
                # the operands of the Galerkin product are sorted too: the row-merge SpGEMM (selected above 16 threads) merges the rows of the
                # right factor and needs them sorted; setup sorts P and R right after transfer_operators
                if f.q.endswith('step_down'):
                    for ai, role in ((1, 'P'), (2, 'R')):
                        r_ = an.root_of_expr(f, c['a'][ai]) if len(c.get('a', [])) > ai else None
                        so = [s_ for s_ in f.calls() if (s_.get('f') or '').endswith('sort_rows') and s_['i'] < c['i'] and an.root_of_expr(f, s_['a'][0]) == r_]
                        ck.ob('F.coarse-operator-sorted', '%s|%s' % (f.q, role), f.where(c), bool(so),
                              '' if so else 'the transfer operator %s handed to coarse_operator at %s was not passed to sort_rows: the row-merge SpGEMM (more than 16 threads) merges unsorted rows' % (role, f.where(c)))
                ck.ob('F.coarse-operator-sorted', '%s' % f.q, f.where(c), bool(sorted_after),
                      '' if sorted_after else 'the coarse operator computed at %s is not passed to sort_rows: the next level is built from unsorted rows (its sibling %s sorts it)' % (
                          f.where(c), 'level::rebuild' if f.q.endswith('step_down') else 'level::step_down'))


def main(tier):
    ck = Check('C03', tier, 'C03 (clauses): every coarse level is the (rescaled) Galerkin product of the level\'s own operators; rebuild re-uses the stored transfer operators through the same formula.')
    T = os.path.join(ir.VERIF, 'tus')
    names = ['rt_builtin'] if tier == 'quick' else ['rt_builtin', 'vt_float', 'vt_complex', 'vt_block', 'be_block_crs', 'be_eigen', 'mpi_rt']
    specs = [dict(name=n, src=os.path.join(T, n + '.cpp'), mpi=(n == 'mpi_rt')) for n in names]
    units = ir.run_units(specs, 'C03')
    ck.add_units(units, specs)
    rule_A(ck, units)
    rule_A_wrapper(ck, units)
    rule_B(ck, units)
    rule_C(ck, units)
    rule_D(ck, units)
    rule_F(ck, units)
    rule_G(ck, units)
    # the product kernels behind R*(A*P): same operands to either SpGEMM kernel, and (entry of left matrix) * (entry of right matrix) (shared with C08)
    import c08
    c08.rule_dispatch(ck, units)
    c08.rule_order(ck, units)
    import rmerge
    rmerge.rule_factor_order(ck, units)
    rmerge.rule_scratch_fits(ck, units)
    rmerge.rule_rmerge(ck, units)    # the row-merge kernel takes every entry of a row of the left matrix, with its own value
    ck.assumptions += ['backend::product / transpose / scale compute the product, adjoint and scaling (C08, not decided here)',
                       'strict decrease of level sizes and bitwise equality of actions after rebuild are not decided']
    return ck.finish()
