"""C14 - run-time configuration equals compile-time configuration (DESIGN.md 4, C14).

A  four lists agree per params struct (fields / imports / check_params / exports)
B  enum <-> string tables are inverse bijections with a throwing default
C  run-time dispatch: one class per enumerator, consistently in every switch
D  must-compile witnesses: params(ptree) and params::get() compile for every struct
"""
import os
import re
import subprocess

import ir
from ir import walk, unwrap, show, children
from framework import Check

# ---------------------------------------------------------------- frozen tables
# Fields that are filled from a pointer payload in the constructor body and are
# therefore not representable as a property-tree *value*; one symbol each.
PAYLOAD_FIELDS = {
    ('amgcl::coarsening::nullspace_params', 'B'): 'payload passed by pointer ("B","rows") and expanded at import',
    ('amgcl::preconditioner::schur_pressure_correction::params', 'pmask'): 'payload passed by pointer / pattern string ("pmask","pmask_size","pmask_pattern")',
    ('amgcl::mpi::schur_pressure_correction::params', 'pmask'): 'payload passed by pointer / pattern string ("pmask","pmask_size","pmask_pattern")',
    ('amgcl::preconditioner::cpr_drs::params', 'weights'): 'payload passed by pointer ("weights","weights_size")',
    ('amgcl::mpi::subdomain_deflation::params', 'def_vec'): 'std::function payload passed by pointer ("def_vec")',
}
# keys that belong to those payloads (import-only, never exported)
PAYLOAD_KEYS = {
    'amgcl::coarsening::nullspace_params': {'B', 'rows'},
    'amgcl::preconditioner::schur_pressure_correction::params': {'pmask', 'pmask_size', 'pmask_pattern'},
    'amgcl::mpi::schur_pressure_correction::params': {'pmask', 'pmask_size', 'pmask_pattern'},
    'amgcl::preconditioner::cpr_drs::params': {'weights', 'weights_size'},
    'amgcl::mpi::subdomain_deflation::params': {'def_vec'},
}
# nullspace_params exports nothing at all (its only value field "cols" is
# meaningless without the pointer payload): documented exception, one symbol.
NO_EXPORT = {'amgcl::coarsening::nullspace_params': 'cols is meaningful only together with the pointer payload B; get() is intentionally empty'}

# dispatch: enumerator -> class name when they differ by design
DISPATCH_ALIAS = {
    ('amgcl::runtime::precond_class::type', 'relaxation'): 'as_preconditioner',
    ('amgcl::runtime::precond_class::type', 'nested'): 'make_solver',
    ('amgcl::runtime::mpi::precond_class::type', 'relaxation'): 'as_preconditioner',
}

FLOORS = dict(quick=dict(A1=150, A2=35, A3=150, B=38, Ccls=155, Ccov=31, D=40), thorough=dict(A1=150, A2=35, A3=150, B=38, Ccls=155, Ccov=31, D=40))


def strip_targs(s):
    out, depth = [], 0
    for ch in s:
        if ch == '<':
            depth += 1
        elif ch == '>':
            depth -= 1
        elif depth == 0:
            out.append(ch)
    return ''.join(out).strip()


def first_str(n):
    for x in walk(n):
        if x['k'] == 'lit' and x.get('t') == 'str':
            return x['v']
    return None


def all_strs(n):
    return [x['v'] for x in walk(n) if x['k'] == 'lit' and x.get('t') == 'str']


def callee_name(c):
    """simple name of the function called, resolved or not"""
    if c.get('m'):
        return c['m']
    if c.get('f'):
        return c['f'].split('::')[-1]
    cal = c.get('callee')
    if cal is not None:
        if cal['k'] in ('dmem', 'uref'):
            return cal['n'].split('::')[-1]
        if cal['k'] == 'mem':
            return cal['n']
    return None


def call_object(c):
    if c.get('obj') is not None:
        return c['obj']
    cal = c.get('callee')
    if cal is not None and cal['k'] in ('dmem', 'mem'):
        return cal.get('b')
    return None


def is_ref_to(n, d):
    n = unwrap(n)
    return n is not None and n['k'] == 'ref' and n['d'] == d


def member_of_this(n):
    """name of the data member an expression denotes (this->x or implicit x), else None"""
    n = unwrap(n)
    if n is None:
        return None
    if n['k'] == 'mem' and (n.get('b') is None or unwrap(n['b'])['k'] == 'this'):
        return n['n']
    if n['k'] == 'dmem' and (n.get('b') is None or unwrap(n['b'])['k'] == 'this'):
        return n['n']
    return None


class ParamsFacts:
    def __init__(self, q):
        self.q = q
        self.where = None
        self.fields = None
        self.bases = []         # q names of base params
        self.imports = {}       # member -> (key, kind)
        self.body_keys = set()  # keys read by hand in the ctor body
        self.check = None       # set of keys in check_params, None if no call
        self.exports = []       # (key, kind, member or None, where)
        self.export_conds = {}  # key -> (condition text, where) for exports that are executed only under a condition
        self.base_init = False
        self.base_get = False
        self.has_ctor = False
        self.has_get = False
        self.sources = set()


def ptree_param(f):
    for i, d in enumerate(f.params):
        dd = f.decl(d)
        t = f.unit.type(dd.get('t')) + ' ' + f.unit.type(dd.get('ct'))
        if 'ptree' in t:
            return d
    return None


def extract_params(units):
    facts = {}
    recs = {}
    for u in units.values():
        for r in u.records:
            q = r['q']
            if not (q.endswith('::params') or q.endswith('nullspace_params')):
                continue
            recs.setdefault(q, []).append((u, r))
    for q, lst in recs.items():
        pf = facts.setdefault(q, ParamsFacts(q))
        for u, r in lst:
            names = [f['n'] for f in r['fields']]
            if pf.fields is None:
                pf.fields = names
                pf.where = '%s:%d' % (u.relfile(r['file']), r['line'])
            elif pf.fields != names:
                pf.fields = sorted(set(pf.fields) | set(names))
            for b in r['bases']:
                bq = strip_targs(u.types[b])
                if bq.startswith('amgcl::') and bq not in pf.bases:
                    pf.bases.append(bq)
            pf.sources.add(u.name)
    for u in units.values():
        for f in u.funcs:
            if f.cls not in facts:
                continue
            pf = facts[f.cls]
            if f.j.get('ctor'):
                pd = ptree_param(f)
                if pd is None:
                    continue
                pf.has_ctor = True
                for ini in f.inits:
                    if not ini.get('written'):
                        continue
                    if 'base' in ini or ini.get('delegating'):
                        if any(is_ref_to(x, pd) for x in walk(ini['e'])):
                            pf.base_init = True
                        continue
                    m = ini['m']
                    got = None
                    for c in walk(ini['e']):
                        if c['k'] == 'call' and callee_name(c) in ('get', 'get_child') and call_object(c) is not None and is_ref_to(call_object(c), pd):
                            key = first_str(c['a'][0]) if c.get('a') else None
                            got = (key, 'child' if callee_name(c) == 'get_child' else 'value')
                            if callee_name(c) == 'get' and len(c.get('a', [])) == 2:
                                dflt = unwrap(c['a'][1])
                                # `params().m` (AMGCL_PARAMS_IMPORT_VALUE): the member of the same name of a default-constructed temporary
                                own = dflt is not None and dflt['k'] in ('mem', 'dmem') and dflt.get('n') == m and dflt.get('b') is not None \
                                    and unwrap(dflt['b']) is not None and unwrap(dflt['b'])['k'] not in ('ref', 'this', 'mem', 'dmem', 'lit')
                                if not own and dflt is not None and dflt['k'] == 'lit':
                                    # the same literal the default constructor initialises the member with, unconditionally, is as good
                                    for g in u.funcs:
                                        if g.cls == f.cls and g.j.get('ctor') and not g.params:
                                            for gi in g.inits:
                                                if gi.get('m') == m and gi.get('e') is not None:
                                                    ge = unwrap(gi['e'])
                                                    while ge is not None and ge['k'] in ('parenlist', 'ctor') and len(ge.get('a', [])) == 1:
                                                        ge = unwrap(ge['a'][0])
                                                    if ge is not None and ge['k'] == 'lit' and ge.get('v') == dflt.get('v') and ge.get('t') == dflt.get('t'):
                                                        own = True
                                if not hasattr(pf, 'import_defaults'):
                                    pf.import_defaults = {}
                                pf.import_defaults[m] = (own, show(c['a'][1])[:60], f.where(c))
                            break
                    if got:
                        pf.imports[m] = got
                for c in walk(f.body):
                    if c['k'] != 'call':
                        continue
                    nm = callee_name(c)
                    if nm in ('get', 'get_child', 'count', 'get_optional', 'find') and call_object(c) is not None and is_ref_to(call_object(c), pd):
                        k = first_str(c['a'][0]) if c.get('a') else None
                        if k is not None:
                            pf.body_keys.add(k)
                    if nm == 'check_params':
                        ks = set()
                        for a in c['a'][1:]:
                            ks |= set(all_strs(a))
                        pf.check = ks if pf.check is None else (pf.check | ks)
            elif f.q.endswith('::get') and len(f.params) == 2:
                pd = ptree_param(f)
                if pd is None:
                    continue
                pf.has_get = True
                seen = set()
                for c in walk(f.body):
                    if c['k'] != 'call':
                        continue
                    nm = callee_name(c)
                    if nm in ('put', 'params_export_child', 'add_child', 'put_child', 'add') and c.get('a'):
                        conds = [show(a_['c'])[:40] for a_ in f.ancestors(c) if a_['k'] in ('if', 'cond') and a_.get('c') is not None]
                        if conds:
                            kk = first_str(c['a'][2]) if nm == 'params_export_child' and len(c['a']) == 4 else first_str(c['a'][0])
                            pf.export_conds[kk] = (conds[0], f.where(c))
                    if nm == 'put' and call_object(c) is not None and is_ref_to(call_object(c), pd) and len(c.get('a', [])) >= 2:
                        key = first_str(c['a'][0])
                        pf.exports.append((key, 'value', member_of_this(c['a'][1]), f.where(c), show(c['a'][1])))
                    elif nm == 'params_export_child' and len(c.get('a', [])) == 4:
                        key = first_str(c['a'][2])
                        pf.exports.append((key, 'child', member_of_this(c['a'][3]), f.where(c), show(c['a'][3])))
                    elif nm == 'get' and len(c.get('a', [])) == 2 and is_ref_to(c['a'][0], pd):
                        # Base::get(p, path)
                        pf.base_get = True
                    elif nm in ('add_child', 'put_child', 'add') and call_object(c) is not None and is_ref_to(call_object(c), pd):
                        key = first_str(c['a'][0])
                        pf.exports.append((key, 'child' if 'child' in nm else 'value', member_of_this(c['a'][1]) if len(c['a']) > 1 else None, f.where(c), ''))
    return facts


def rule_A(ck, facts):
    ck.rule('A1.field-imported', 'every data member of a params struct is initialised in the property-tree constructor from the key of its own name (payload fields excepted by name)', FLOORS[ck.tier]['A1'])
    ck.rule('A2.check-list', 'the check_params list(s) contain exactly the keys the struct (with its bases / derived structs) imports', FLOORS[ck.tier]['A2'])
    ck.rule('A3.export', 'get() writes back every imported value/child member under the same key with the same kind, exporting the member itself, and nothing else', FLOORS[ck.tier]['A3'])
    ck.rule('A4.default-is-own-member', 'the default of every value import p.get("name", <default>) is the member of the same name of a default-constructed params object: a tree '
                                        'without the key configures exactly what the compile-time default constructor does (for every value type - the defaults may depend on it)', 80)
    for q, pf in facts.items():
        for m, (own, txt, where) in sorted(getattr(pf, 'import_defaults', {}).items()):
            ck.ob('A4.default-is-own-member', '%s|%s' % (q, m), where, own, '' if own else
                  'member `%s` is imported with the default `%s` instead of params().%s: when the key is absent the run-time configuration differs from the compile-time default '
                  'wherever the default constructor computes another value (e.g. per value type)' % (m, txt, m))
    derived = {}
    for q, pf in facts.items():
        for b in pf.bases:
            derived.setdefault(b, []).append(q)

    def all_import_keys(q, seen=None):
        seen = seen or set()
        if q in seen or q not in facts:
            return set()
        seen.add(q)
        pf = facts[q]
        ks = {k for k, _ in pf.imports.values()} | pf.body_keys
        for b in pf.bases:
            ks |= all_import_keys(b, seen)
        return ks

    for q, pf in sorted(facts.items()):
        if not pf.has_ctor:
            continue
        w = pf.where
        # de-duplicate export entries (pattern + instantiation units report the same line)
        exps = {}
        for key, kind, mem, where, txt in pf.exports:
            exps.setdefault((key, kind, mem), (where, txt))
        # A1
        for fld in pf.fields or []:
            if (q, fld) in PAYLOAD_FIELDS:
                continue
            imp = pf.imports.get(fld)
            ok = imp is not None and imp[0] == fld
            ck.ob('A1.field-imported', '%s|%s' % (q, fld), w, ok,
                  '' if ok else ('field %s is not imported from the property tree' % fld if imp is None else 'field %s is imported from key "%s"' % (fld, imp[0])))
        # A2
        own = all_import_keys(q)
        below = set()
        for dq in derived.get(q, []):
            below |= {k for k, _ in facts[dq].imports.values()} | facts[dq].body_keys
        if pf.check is None:
            ck.ob('A2.check-list', q, w, False, 'constructor never calls check_params: unknown keys are silently dropped')
        else:
            missing = own - pf.check
            extra = pf.check - own - below
            ok = not missing and not extra
            ck.ob('A2.check-list', q, w, ok, '' if ok else 'imported but not accepted by check_params: %s; accepted but never imported: %s' % (sorted(missing), sorted(extra)))
        # A3
        if not pf.has_get:
            ck.ob('A3.export', q, w, False, 'no get(ptree&, path) member')
            continue
        if q in NO_EXPORT:
            ck.ob('A3.export', q, w, not exps, 'documented empty export now exports something' if exps else '', trivial=True)
            continue
        if pf.bases and any(b in facts for b in pf.bases):
            okb = pf.base_init and pf.base_get
            ck.ob('A3.export', q + '|<base>', w, okb, '' if okb else 'base params are not %s' % ('imported' if not pf.base_init else 'exported'))
        for m, (key, kind) in sorted(pf.imports.items()):
            cand = [(k, kd, mm) for (k, kd, mm) in exps if k == key]
            ok = any(kd == kind and mm == m for (k, kd, mm) in cand)
            det = ''
            if not ok:
                if not cand:
                    det = 'key "%s" is imported (%s) but never exported by get()' % (key, kind)
                else:
                    k, kd, mm = cand[0]
                    where, txt = exps[cand[0]]
                    if kd != kind:
                        det = 'key "%s" imported as %s but exported as %s at %s' % (key, kind, kd, where)
                    else:
                        det = 'key "%s" is exported from `%s`, which is not the data member %s (at %s)' % (key, txt, m, where)
            if ok and key in pf.export_conds and (q, m) not in PAYLOAD_FIELDS:
                ok = False
                det = 'key "%s" is exported only under the condition `%s` (at %s): import followed by export is not the identity when the condition is false' % (key, pf.export_conds[key][0], pf.export_conds[key][1])
            ck.ob('A3.export', '%s|%s' % (q, m), w, ok, det)
        imported_keys = {k for k, _ in pf.imports.values()}
        for (key, kind, mem) in exps:
            if key not in imported_keys:
                ck.ob('A3.export', '%s|+%s' % (q, key), exps[(key, kind, mem)][0], False, 'get() exports key "%s" that the constructor never imports' % key)


# ----------------------------------------------------------------- B: enums
def enum_tables(units):
    """returns {enum q: dict(enumerators=[..], out={enumerator: literal}, inp={literal: enumerator}, in_default_throws=bool, where=...)}"""
    res = {}
    for u in units.values():
        enums = {e['q']: e for e in u.enums}
        for f in u.funcs:
            if f.q.endswith('operator<<') and len(f.params) == 2 and f.cfg:
                t = strip_targs(u.type(f.decl(f.params[1]).get('t')))
                if t in enums or ('amgcl::' + t) in enums:
                    eq = t if t in enums else 'amgcl::' + t
                    r = res.setdefault(eq, dict(enumerators=[x['n'] for x in enums[eq]['e']], where=None))
                    r['out'], r['out_where'] = (out_table_lookup(f) or out_table(f)), f.where()
            if f.q.endswith('operator>>') and len(f.params) == 2 and f.cfg:
                t = strip_targs(u.type(f.decl(f.params[1]).get('t'))).replace('&', '').strip()
                if t in enums or ('amgcl::' + t) in enums:
                    eq = t if t in enums else 'amgcl::' + t
                    r = res.setdefault(eq, dict(enumerators=[x['n'] for x in enums[eq]['e']], where=None))
                    r['inp'], r['in_default'], r['in_where'] = (in_table_lookup(f) or in_table(f)), None, f.where()
    return res


def lookup_table(f, rfor):
    """range-for over a static table of {enumerator, "literal"} records: [(enumerator, literal)] or None"""
    u = f.unit
    rng = unwrap(rfor.get('range'))
    init = None
    if rng is not None and rng['k'] == 'call' and 'fd' in rng and not rng.get('a'):
        g = u.by_id.get(rng['fd'])
        if g is not None and g.body is not None:
            rets = g.returns()
            if len(rets) == 1 and unwrap(rets[0]['e'])['k'] == 'ref':
                d = unwrap(rets[0]['e'])['d']
                for n in g.nodes.values():
                    if n['k'] == 'decl':
                        for v in n['v']:
                            if v['d'] == d and v.get('init') is not None:
                                init = v['init']
    elif rng is not None and rng['k'] == 'ref':
        for n in f.nodes.values():
            if n['k'] == 'decl':
                for v in n['v']:
                    if v['d'] == rng['d'] and v.get('init') is not None:
                        init = v['init']
        if init is None:
            gi = u.decls[rng['d']] if isinstance(rng['d'], int) and rng['d'] < len(u.decls) else None
            init = gi.get('init') if isinstance(gi, dict) else None
    if init is None:
        return None
    entries = []

    def rec(n):
        n = unwrap(n)
        if n is None:
            return
        if n['k'] in ('initlist', 'ctor'):
            kids = [unwrap(a) for a in n.get('a', [])]
            en = [k_ for k_ in kids if k_ is not None and k_['k'] == 'ref' and u.decls[k_['d']].get('k') == 'enumc']
            li = [k_ for k_ in kids if k_ is not None and k_['k'] == 'lit' and k_.get('t') == 'str']
            if len(en) == 1 and len(li) == 1 and len(kids) == 2:
                entries.append((en[0]['n'], li[0]['v']))
                return
            for k_ in kids:
                rec(k_)
    rec(init)
    return entries or None


def member_is_text(f, m):
    t = f.unit.type(f.unit.decls[m['d']].get('t')) if isinstance(m.get('d'), int) else ''
    return 'char' in t or 'string' in t


def out_table_lookup(f):
    """table-driven operator<<: for (t : table) if (t.value == e) return os << t.name;  -> {enumerator: {literal}} or None"""
    for L in [n for n in f.nodes.values() if n['k'] == 'rfor']:
        tab = lookup_table(f, L)
        if not tab:
            continue
        lv = L['var']['d']
        ok = False
        for n in walk(L['b']):
            if n['k'] == 'if':
                c = unwrap(n['c'])
                if c['k'] == 'bin' and c['op'] == '==':
                    sides = [unwrap(c['x']), unwrap(c['y'])]
                    mems = [x for x in sides if x['k'] == 'mem' and unwrap(x['b'])['k'] == 'ref' and unwrap(x['b'])['d'] == lv and not member_is_text(f, x)]
                    prm = [x for x in sides if x['k'] == 'ref' and f.param_index(x['d']) == 1]
                    streamed = [x for x in walk(n['t']) if x['k'] == 'mem' and unwrap(x['b'])['k'] == 'ref' and unwrap(x['b'])['d'] == lv and member_is_text(f, x)]
                    if mems and prm and streamed and any(x['k'] == 'ret' for x in walk(n['t'])):
                        ok = True
        if ok:
            table = {}
            for e, lit in tab:
                table.setdefault(e, set()).add(lit)
            return table
    return None


def in_table_lookup(f):
    """table-driven operator>>: for (t : table) if (val == t.name) { e = t.value; return in; }  throw ...;"""
    for L in [n for n in f.nodes.values() if n['k'] == 'rfor']:
        tab = lookup_table(f, L)
        if not tab:
            continue
        lv = L['var']['d']
        ok = False
        for n in walk(L['b']):
            if n['k'] == 'if':
                c = unwrap(n['c'])
                if c['k'] == 'bin' and c['op'] == '==':
                    names = [x for x in walk(c) if x['k'] == 'mem' and unwrap(x['b'])['k'] == 'ref' and unwrap(x['b'])['d'] == lv and member_is_text(f, x)]
                    assigns = [x for x in walk(n['t']) if x['k'] == 'bin' and x['op'] == '=' and unwrap(x['x'])['k'] == 'ref' and f.param_index(unwrap(x['x'])['d']) == 1
                               and unwrap(x['y'])['k'] == 'mem' and unwrap(unwrap(x['y'])['b'])['k'] == 'ref' and unwrap(unwrap(x['y'])['b'])['d'] == lv and not member_is_text(f, unwrap(x['y']))]
                    leaves = any(x['k'] in ('ret', 'break') for x in walk(n['t']))
                    if names and assigns and leaves:
                        ok = True
        if not ok:
            continue
        table = {}
        for e, lit in tab:
            table.setdefault(lit, set()).add(e)
        # the all-false path: what follows the loop
        inloop = {x['i'] for x in walk(L)}
        after = [n for n in f.nodes.values() if n['i'] not in inloop and n['i'] > L['i']]
        throws = any(n['k'] == 'throw' and not any(a['k'] in ('if', 'for', 'while', 'rfor') for a in f.ancestors(n)) for n in after)
        if any(x['k'] == 'break' for x in walk(L['b'])):
            # found-flag forms are not modelled: fall back to the path enumeration
            return None
        table['<none>'] = {'<throw>' if throws else '<nothing>'}
        return table
    return None


def paths(cfg, limit=4000):
    """all acyclic entry->exit paths as lists of (block, succ_index)"""
    out = []
    stack = [(cfg.entry, [], {cfg.entry})]
    while stack:
        b, p, seen = stack.pop()
        succs = [(k, s) for k, s in enumerate(cfg.succ[b]) if s is not None]
        if b == cfg.exit or not succs:
            out.append(p + [(b, None)])
            if len(out) > limit:
                raise ir.AnalysisBroken('too many paths in ' + cfg.func.full)
            continue
        for k, s in succs:
            if s in seen:
                continue
            stack.append((s, p + [(b, k)], seen | {s}))
    return out


def out_table(f):
    """operator<<(os, e): enumerator -> literal streamed on the path selected by `case enumerator`"""
    cfg = f.cfg
    table = {}
    for p in paths(cfg):
        label, lits, default = None, [], False
        for b, k in p:
            blk = cfg.blocks[b]
            lab = blk.get('label')
            if lab is not None and lab in f.nodes:
                ln = f.nodes[lab]
                if ln['k'] == 'case':
                    v = unwrap(ln['v'])
                    if v['k'] == 'ref':
                        label = v['n']
                elif ln['k'] == 'default':
                    default = True
            for e in cfg.elements(b):
                for x in walk(e):
                    if x['k'] == 'lit' and x.get('t') == 'str':
                        lits.append(x['v'])
        if label is not None:
            table.setdefault(label, set()).update(lits[-1:] if lits else [])
        elif default:
            table.setdefault('<default>', set()).update(lits[-1:] if lits else [])
    return table


def in_table(f):
    """operator>>(in, e&): literal -> enumerator assigned on the path where val == literal is the only true comparison;
    the all-false path must throw"""
    cfg = f.cfg
    table = {}
    for p in paths(cfg):
        true_lits, assigned, throws = [], [], False
        for b, k in p:
            c = cfg.cond(b)
            if c is not None and k is not None and c['k'] == 'bin' and c['op'] == '==':
                lit = first_str(c)
                if lit is not None and k == 0:
                    true_lits.append(lit)
            for e in cfg.elements(b):
                for x in walk(e):
                    if x['k'] == 'bin' and x['op'] == '=':
                        r = unwrap(x['y'])
                        if r['k'] == 'ref' and f.decl(r['d']).get('k') == 'enumc':
                            assigned.append(r['n'])
                    if x['k'] == 'throw':
                        throws = True
        key = true_lits[0] if len(true_lits) == 1 else ('<none>' if not true_lits else '<multi>')
        table.setdefault(key, set()).add('<throw>' if throws and not assigned else (assigned[-1] if assigned else '<nothing>'))
    return table


def rule_B(ck, tables):
    ck.rule('B.enum-table', 'operator<< maps every enumerator to a distinct literal; operator>> maps exactly those literals back; any other string throws', FLOORS[ck.tier]['B'])
    for eq, t in sorted(tables.items()):
        if 'out' not in t or 'inp' not in t:
            continue
        w = t.get('in_where') or t.get('out_where')
        out, inp = t['out'], t['inp']
        for e in t['enumerators']:
            lits = out.get(e, set())
            ok = len(lits) == 1
            det = ''
            if not ok:
                det = 'operator<< has no unique literal for enumerator %s: %s' % (e, sorted(lits))
            else:
                lit = next(iter(lits))
                back = inp.get(lit, set())
                if back != {e}:
                    ok = False
                    det = 'operator<< writes %s as "%s" but operator>> maps "%s" to %s' % (e, lit, lit, sorted(back) or 'nothing')
                others = [e2 for e2 in t['enumerators'] if e2 != e and out.get(e2) == lits]
                if others:
                    ok = False
                    det = 'enumerators %s and %s are written as the same literal "%s"' % (e, others[0], lit)
            ck.ob('B.enum-table', '%s|%s' % (eq, e), w, ok, det)
        none = inp.get('<none>', set())
        ok = none == {'<throw>'}
        ck.ob('B.enum-table', '%s|<invalid>' % eq, w, ok, '' if ok else 'operator>> does not throw on an unknown string (it does: %s)' % sorted(none))
        known = {next(iter(out[e])) for e in t['enumerators'] if len(out.get(e, ())) == 1}
        for lit in inp:
            if lit.startswith('<'):
                continue
            if lit not in known:
                ck.ob('B.enum-table', '%s|"%s"' % (eq, lit), w, False, 'operator>> accepts "%s", which operator<< never produces' % lit)


# -------------------------------------------------------------- C: dispatch
def switch_cases(sw):
    """[(labels, [stmts])] of a switch body; labels: enumerator names or '<default>'"""
    groups = []
    body = sw['b']
    stmts = body['s'] if body['k'] == 'block' else [body]
    cur = None
    for s in stmts:
        labels = []
        x = s
        while x is not None and x['k'] in ('case', 'default'):
            if x['k'] == 'case':
                v = unwrap(x['v'])
                labels.append(v['n'] if v['k'] == 'ref' else show(v))
            else:
                labels.append('<default>')
            x = x['s']
        if labels:
            cur = (labels, [x] if x is not None else [])
            groups.append(cur)
        elif cur is not None:
            cur[1].append(s)
    return groups


TOK = re.compile(r'amgcl::[A-Za-z_0-9:]+')


def class_tokens(f, stmts):
    u = f.unit
    toks = set()
    for s in stmts:
        for x in walk(s):
            ts = []
            if x['k'] in ('new', 'cast', 'delete', 'ctor') and 't' in x:
                ts.append(u.type(x['t']))
                if 'ct' in x:
                    ts.append(u.type(x['ct']))
            if x['k'] == 'call' and 'fd' in x:
                g = u.by_id.get(x['fd'])
                if g is not None:
                    # explicit template arguments of helper templates: take the function's own <...>
                    full = g.full
                    own = full[len(g.clsfull):] if g.clsfull and full.startswith(g.clsfull) else full
                    ts.append(own)
                    if g.clsfull and g.cls != f.cls:
                        ts.append(g.clsfull)
            if x['k'] == 'call' and x.get('callee') is not None and x['callee'].get('targs'):
                ts.append(x['callee']['targs'])
            for t in ts:
                for m in TOK.findall(t):
                    toks.add(m.rstrip(':'))
    return toks


def forwarded_members(f, stmts, depth=0):
    """names of the member functions invoked on the wrapped object (an expression rooted at a static_cast of
    `handle`) in these statements, following helper members of the same wrapper one level deep"""
    u = f.unit
    out = set()
    for s in stmts:
        for x in walk(s):
            if x['k'] != 'call':
                continue
            obj = x.get('obj')
            if obj is not None and any(y['k'] == 'cast' and y.get('ck') == 'static' for y in walk(obj)):
                out.add(x.get('m') or x.get('op') or '?')
            elif any(y['k'] == 'cast' and y.get('ck') == 'static' for a in x.get('a', []) for y in walk(a)) and x.get('f'):
                # free function applied to the wrapped object: backend::bytes(*obj), os << *obj
                out.add(x['f'].split('::')[-1])
            elif 'fd' in x and depth < 1:
                g = u.by_id.get(x['fd'])
                if g is not None and g.cls == f.cls and g is not f:
                    out |= forwarded_members(g, [g.body], depth + 1)
    return frozenset(out)


def rule_C(ck, units):
    ck.rule('C.dispatch-cover', 'every switch over a run-time tag handles every enumerator, or has a default that throws (value-returning dispatchers need a throwing default; destructors must cover every enumerator)', FLOORS[ck.tier]['Ccov'])
    ck.rule('C.dispatch-class', 'case e names the class of that name (or its documented alias) - the same one in every member of the wrapper', FLOORS[ck.tier]['Ccls'])
    ck.rule('C.dispatch-forward', 'sibling agreement: in one switch every case forwards to the same member of the wrapped object, and that member bears the name of the wrapper member', 60)
    ck.rule('C.dispatch-prm', 'the wrapped object is constructed from the same property tree with only the tag key erased', 7)
    inst = {(f.file, f.line) for u in units.values() for f in u.funcs if f.cls and not f.j.get('dep')}
    first_args = {}
    for u in units.values():
        enums = {e['q']: e for e in u.enums}
        for f in u.funcs:
            if not f.cls or '::runtime::' not in (f.cls + '::'):
                continue
            if f.j.get('dep') and (f.file, f.line) in inst:
                continue  # an instantiation of the same member is analysed instead
            for sw in walk(f.body):
                if sw['k'] != 'switch':
                    continue
                c = unwrap(sw['c'])
                tag = None
                if c['k'] == 'mem':
                    tag = c['n']
                    tt = strip_targs(u.type(u.decls[c['d']].get('ct') if u.decls[c['d']].get('ct') is not None else u.decls[c['d']].get('t')))
                    tt = tt.replace('const ', '').strip()
                else:
                    continue
                eq = tt if tt in enums else ('amgcl::' + tt if 'amgcl::' + tt in enums else None)
                if eq is None:
                    cands = [q for q in enums if q.endswith('::' + tt) or q == tt]
                    # resolve relative to the class namespace
                    ns = f.cls.rsplit('::', 1)[0]
                    best = [q for q in cands if q.startswith(ns)]
                    eq = (best or cands or [None])[0]
                if eq is None:
                    continue
                groups = switch_cases(sw)
                # first operand handed to the wrapped object in each case (which matrix: A, *A.local_backend(), ...), for the cross-member rule
                if f.params and not f.j.get('ctor') and not f.j.get('dtor'):
                    p0 = f.params[0]
                    for labs_, stmts_ in groups:
                        for s_ in stmts_:
                            hit = None
                            for c_ in walk(s_):
                                if c_['k'] == 'call' and c_.get('a') and any(x['k'] == 'ref' and x['d'] == p0 for x in walk(c_['a'][0])):
                                    hit = c_
                                    break
                            if hit is not None:
                                role = (f.decl(p0)['n'], len(f.params))
                                for lab_ in labs_:
                                    first_args.setdefault((f.cls, f.decl(p0)['n']), {}).setdefault(lab_, {})[f.q.split('::')[-1]] = (show(hit['a'][0]), f.where(hit))
                                break
                labels = [l for g in groups for l in g[0]]
                names = [x['n'] for x in enums[eq]['e']]
                missing = [n for n in names if n not in labels]
                has_default_throw = any('<default>' in g[0] and any(x['k'] == 'throw' for s in g[1] for x in walk(s)) for g in groups)
                mname = f.q.split('::')[-1]
                key = '%s|%s' % (f.cls, mname if not f.j.get('ctor') else '<ctor>')
                if f.j.get('dtor'):
                    key = '%s|<dtor>' % f.cls
                has_default = any('<default>' in g[0] for g in groups)
                nonvoid = u.type(f.j.get('ret')) != 'void'
                ok = (not missing) or (has_default and not f.j.get('dtor'))
                det = '' if ok else 'enumerators without a case and no default: %s' % missing
                if ok and nonvoid and not has_default_throw and not f.j.get('dtor') and not f.j.get('ctor'):
                    # a value-returning dispatcher must not fall off the switch
                    ok = False
                    det = 'value-returning dispatcher without a throwing default'
                ck.ob('C.dispatch-cover', key, f.where(sw), ok, det)
                for labs, stmts in groups:
                    for lab in labs:
                        if lab == '<default>':
                            continue
                        toks = class_tokens(f, stmts)
                        want = DISPATCH_ALIAS.get((eq, lab), lab)
                        hit = [t for t in toks if t.split('::')[-1] == want]
                        simple = {t.split('::')[-1] for t in toks}
                        # other enumerators' classes must not be named in this case
                        foreign = [n for n in names if n != lab and DISPATCH_ALIAS.get((eq, n), n) in simple and DISPATCH_ALIAS.get((eq, n), n) != want]
                        # wrappers legitimately mention helper classes (as_scalar, runtime wrappers, make_solver inside nested)
                        foreign = [n for n in foreign if not (want in ('make_solver',) or n in ('relaxation',))]
                        ok = bool(hit) and not foreign
                        det = ''
                        if not hit:
                            det = 'case %s does not name class %s (names: %s)' % (lab, want, sorted(simple)[:8])
                        elif foreign:
                            det = 'case %s names the class of enumerator %s' % (lab, foreign[0])
                        ck.ob('C.dispatch-class', '%s|%s' % (key, lab), f.where(stmts[0]) if stmts else f.where(sw), ok, det, trivial=not stmts)
                if not f.j.get('ctor') and not f.j.get('dtor'):
                    # sibling agreement: every case forwards to the same member(s) of the wrapped object
                    per_case = {}
                    for labs, stmts in groups:
                        if '<default>' in labs:
                            continue
                        per_case[labs[0]] = forwarded_members(f, stmts)
                    sets = list(per_case.values())
                    if sets:
                        # majority set is the reference
                        ref = max(sets, key=lambda x: sum(1 for y in sets if y == x))
                        for lab, ms in per_case.items():
                            ok = ms == ref
                            ck.ob('C.dispatch-forward', '%s|%s' % (key, lab), f.where(sw), ok,
                                  '' if ok else 'case %s forwards to %s of the wrapped object while its siblings forward to %s' % (lab, sorted(ms) or 'nothing', sorted(ref)),
                                  trivial=not ref)
                        mname2 = f.q.split('::')[-1]
                        if mname2 not in ('bytes', 'operator<<') and ref and mname2 not in ref and not (mname2 == 'operator()' and 'operator()' in ref):
                            helper_ok = any(mname2 in r for r in ref)
                            ck.ob('C.dispatch-forward', '%s|<name>' % key, f.where(sw), helper_ok, '' if helper_ok else 'wrapper member %s forwards to %s' % (mname2, sorted(ref)))
                if f.j.get('ctor'):
                    # prm param: the ptree parameter; erase(tag key) present; new/call passes prm
                    pd = ptree_param(f)
                    erased = [first_str(c2) for c2 in walk(f.body) if c2['k'] == 'call' and callee_name(c2) == 'erase' and call_object(c2) is not None and is_ref_to(call_object(c2), pd)]
                    passes = True
                    bad = ''
                    for labs, stmts in groups:
                        if '<default>' in labs:
                            continue
                        uses = any(is_ref_to(x, pd) for s in stmts for x in walk(s))
                        if not uses:
                            passes = False
                            bad = labs[0]
                    ok = len(erased) == 1 and passes
                    ck.ob('C.dispatch-prm', f.cls, f.where(), ok, '' if ok else ('keys erased: %s' % erased if len(erased) != 1 else 'case %s does not pass the property tree to the wrapped constructor' % bad))
    finish_dispatch_args(ck, first_args)


def finish_dispatch_args(ck, first_args):
    ck.rule('C.dispatch-operand', 'sibling agreement across the members of a run-time wrapper: for one enumerator, every forwarding member (apply_pre, apply_post, apply, ...) hands the wrapped '
                                  'object the same first operand (e.g. the distributed matrix A vs its local part *A.local_backend())', 10)
    for cls, labs in sorted(first_args.items()):
        for lab, ms in sorted(labs.items()):
            if len(ms) < 2 or lab == '<default>':
                continue
            texts = {}
            for m, (t, w) in ms.items():
                texts.setdefault(t, []).append((m, w))
            ok = len(texts) == 1
            det = ''
            if not ok:
                major = max(texts, key=lambda t: len(texts[t]))
                odd = [(m, w, t) for t, lst in texts.items() if t != major for m, w in lst]
                det = 'for %s, %s passes `%s` (at %s) while %s pass `%s`' % (lab, odd[0][0], odd[0][2], odd[0][1], ', '.join(sorted(m for m, _ in texts[major])), major)
            ck.ob('C.dispatch-operand', '%s|%s|%s' % (cls[0], cls[1], lab), (sorted(ms.values())[0][1]), ok, det)


# ----------------------------------------------------- E: unknown-key reporting
def rule_E(ck, units):
    ck.rule('E.unknown-reported', 'in every check_params overload each entry of the tree reaches AMGCL_PARAM_UNKNOWN under no condition other than the name being absent from the accepted sets; detail::empty_params(ptree) reports every entry', 3)
    done = set()
    # components without parameters: detail::empty_params(ptree) reports EVERY entry (nothing is accepted)
    edone = False
    for u in units.values():
        for f in u.funcs:
            if f.q != 'amgcl::detail::empty_params::empty_params' or len(f.params) != 1 or f.body is None or edone:
                continue
            if 'ptree' not in u.type(f.decl(f.params[0]).get('ct')):
                continue
            edone = True
            loops = [n for n in f.nodes.values() if n['k'] == 'rfor' and is_ref_to(n['range'], f.params[0])]
            det = ''
            if len(loops) != 1:
                det = 'the constructor from a property tree does not loop over its entries: unknown keys given to a parameter-less component are dropped silently'
            else:
                lv = loops[0]['var']['d']
                acts = [n for n in walk(loops[0]['b']) if n['k'] in ('bin', 'call', 'opcall', 'throw') and any(x['k'] == 'ref' and x['d'] == lv for x in walk(n))]
                cond = [a for n in acts for a in f.ancestors(n) if a['k'] in ('if', 'cond', 'switch') and a['i'] > loops[0]['i']]
                if not acts:
                    det = 'the loop over the tree has no action that reports the entry'
                elif cond:
                    det = 'the entry is reported only under a condition (%s)' % show(cond[0].get('c'))[:60]
            ck.ob('E.unknown-reported', 'amgcl::detail::empty_params(ptree)', f.where(), not det, det)
    if not edone:
        ck.brk('E.unknown-reported: detail::empty_params(const ptree&) not found')
    for u in units.values():
        for f in u.funcs:
            if f.q != 'amgcl::check_params' or f.line in done:
                continue
            done.add(f.line)
            key = 'amgcl::check_params/%d' % len(f.params)
            # the unknown-parameter action: the statement that mentions the tree entry's key (v.first) outside a condition,
            # inside the loop over the tree parameter
            pd = f.params[0]
            loops = [n for n in f.nodes.values() if n['k'] == 'rfor' and is_ref_to(n['range'], pd)]
            if not loops:
                # delegation to another overload: the tree and every accepted-name set must be passed on unchanged
                dele = [c for c in f.calls() if c.get('f') == 'amgcl::check_params' and c.get('fd') != f.id and c.get('a') and is_ref_to(c['a'][0], pd)]
                if len(dele) == 1:
                    passed = {unwrap(a)['d'] for a in dele[0]['a'] if unwrap(a) is not None and unwrap(a)['k'] == 'ref'}
                    missing = [f.decl(d)['n'] for d in f.params[1:] if d not in passed]
                    ck.ob('E.unknown-reported', key, f.where(dele[0]), not missing,
                          '' if not missing else 'delegates to another overload without the accepted-name set(s) %s' % missing, trivial=True)
                    continue
            if len(loops) != 1:
                ck.ob('E.unknown-reported', key, f.where(), False, 'expected exactly one loop over the property tree, found %d' % len(loops))
                continue
            loop = loops[0]
            lv = loop['var']['d']
            # enclosing if-conditions of every statement in the loop body that uses v.first as an operand of an action
            conds = []
            action = None

            def visit(n, stack):
                nonlocal action
                if n['k'] == 'if':
                    visit_expr_uses(n['c'])
                    if n.get('t') is not None:
                        visit(n['t'], stack + [(n['c'], True)])
                    if n.get('e') is not None:
                        visit(n['e'], stack + [(n['c'], False)])
                    return
                if n['k'] in ('block',):
                    for c in n['s']:
                        visit(c, stack)
                    return
                # a non-control statement: is it an action on the entry?
                if any(x['k'] == 'ref' and x['d'] == lv for x in walk(n)):
                    action = (n, list(stack))

            def visit_expr_uses(e):
                pass
            visit(loop['b'], [])
            if action is None:
                ck.ob('E.unknown-reported', key, f.where(loop), False, 'the loop over the tree has no action that reports the entry')
                continue
            n, stack = action
            bad = []
            names = [f.params[i] for i in range(1, len(f.params))]
            seen_sets = set()
            for c, pol in stack:
                # allowed: conjunction of !S.count(v.first) (or S.find(v.first) == S.end()) over the accepted-name sets
                for leaf in conj_leaves(c):
                    l = unwrap(leaf)
                    neg = False
                    while l['k'] == 'un' and l['op'] == '!':
                        neg = not neg
                        l = unwrap(l['e'])
                    okleaf = False
                    if l['k'] == 'call' and l.get('m') in ('count', 'contains') and l.get('obj') is not None and unwrap(l['obj'])['k'] == 'ref' and unwrap(l['obj'])['d'] in names:
                        if any(x['k'] == 'ref' and x['d'] == lv for x in walk(l['a'][0])) and neg and pol:
                            okleaf = True
                            seen_sets.add(unwrap(l['obj'])['d'])
                    if not okleaf:
                        bad.append(show(leaf))
            missing = [f.decl(d)['n'] for d in names if d not in seen_sets]
            ok = not bad and not missing
            ck.ob('E.unknown-reported', key, f.where(n), ok, '' if ok else (
                'the unknown-key report is additionally guarded by `%s`: some unknown keys are silently dropped' % bad[0] if bad else 'accepted-name set(s) %s are not consulted' % missing))


def conj_leaves(c):
    c = unwrap(c)
    if c is not None and c['k'] == 'bin' and c['op'] == '&&':
        return conj_leaves(c['x']) + conj_leaves(c['y'])
    return [c]


# ------------------------------------------------------------- D: witnesses
def rule_D(ck, witness_units):
    ck.rule('D.must-compile', 'params(ptree) and params::get() instantiate without a diagnostic located in /repo, for every params struct', 1)
    for src, mpi in witness_units:
        cmd = ['clang++', '-fsyntax-only', '-ferror-limit=0'] + ir.BASE_FLAGS + (ir.mpi_flags() if mpi else []) + [src]
        r = subprocess.run(cmd, capture_output=True, text=True)
        errs = r.stderr
        # witnesses listed in the unit
        text = open(src).read()
        wit = re.findall(r'witness<\s*(.*?)\s*>\(\);', text)
        failing = {}
        cur_err = None
        for line in errs.splitlines():
            m = re.match(r'(.*?):(\d+):(\d+): error: (.*)', line)
            if m:
                cur_err = (m.group(1), m.group(2), m.group(4))
                continue
            m = re.search(r"in instantiation of function template specialization 'witness<(.*)>' requested here", line)
            if m and cur_err:
                failing.setdefault(m.group(1), []).append(cur_err)
                cur_err = None
        if r.returncode != 0 and not failing:
            raise ir.AnalysisBroken('witness unit %s fails outside the witnesses:\n%s' % (src, errs[-2000:]))
        n = 0
        for w in wit:
            # match failing specialisations by the struct named
            wq = re.sub(r'\s+', '', w)
            hits = []
            for spec, es in failing.items():
                sq = strip_targs(spec)
                # compare the outer class name
                if strip_targs(wq).split('::')[-2:] == sq.split('::')[-2:]:
                    hits = es
            key = strip_targs(w) if '<' in w else w
            n += 1
            ck.ob('D.must-compile', re.sub(r'\s+', '', key), os.path.relpath(src, ir.VERIF), not hits,
                  '' if not hits else '; '.join('%s:%s: %s' % (os.path.relpath(e[0], ir.REPO) if e[0].startswith(ir.REPO) else e[0], e[1], e[2][:160]) for e in hits[:3]))
        ck.floors['D.must-compile'] = FLOORS[ck.tier]['D']


def rule_F(ck, T, global_rule=True):
    """F.mpi-relaxation-operand: the compile-time distributed relaxation amgcl::mpi::relaxation::X<Backend> says from which operand the serial
    relaxation X is built: Base(*A.local(), ...) (the local diagonal block) or Base(A, ...) (the distributed matrix: chebyshev needs the
    global spectral radius).  The run-time wrapper runtime::mpi::relaxation::wrapper constructs amgcl::relaxation::X through
    call_constructor<X>(operand, ...); for every X the operand kind is the one of the compile-time class."""
    ck.rule('F.mpi-relaxation-operand', 'runtime::mpi::relaxation::wrapper builds every serial relaxation X from the same operand (distributed matrix / local block) as the '
                                        'compile-time class mpi::relaxation::X does (cross-class sibling agreement on the instantiated constructors)', 7)
    src = os.path.join(T, 'mpi_relax.cpp')
    if not os.path.exists(src):
        ck.brk('tus/mpi_relax.cpp is missing')
        return
    u = ir.run_units([dict(name='mpi_relax', src=src, mpi=True)], 'C14r')['mpi_relax']
    ct = {}
    for f in u.funcs:
        if f.cls and f.cls.startswith('amgcl::mpi::relaxation::') and f.j.get('ctor') and f.body is not None and f.params:
            for ini in f.j.get('inits', []):
                if 'base' not in ini or ini.get('e') is None:
                    continue
                e = unwrap(ini['e'])
                args = e.get('a', []) if e is not None else []
                if not args:
                    continue
                a0 = unwrap(args[0])
                kind = None
                if a0 is not None and a0['k'] == 'ref' and a0['d'] == f.params[0]:
                    kind = 'distributed'
                elif a0 is not None and 'local()' in show(a0) and any(x['k'] == 'ref' and x['d'] == f.params[0] for x in walk(a0)):
                    kind = 'local'
                ct[f.cls.split('::')[-1]] = (kind, f.where())
    rt = {}
    # every instantiation call_constructor<amgcl::relaxation::X, Matrix> made inside the wrapper class (directly in the constructor or through
    # member helpers): the Matrix argument type says which operand the serial relaxation is built from
    for f in u.funcs:
        if f.cls == 'amgcl::runtime::mpi::relaxation::wrapper' and f.body is not None:
            for n in f.nodes.values():
                if n['k'] == 'call' and 'call_constructor' in (n.get('f') or '') and n.get('a'):
                    g = u.by_id.get(n.get('fd'))
                    m = re.search(r'call_constructor<amgcl::relaxation::(\w+), (.*)>', g.full if g is not None else '')
                    if not m:
                        continue
                    kind = 'distributed' if 'distributed_matrix' in m.group(2) else 'local'
                    a0 = unwrap(n['a'][0])
                    if kind == 'local' and not (a0 is not None and 'local()' in show(a0)):
                        kind = None          # a local matrix that is not the local block of the distributed matrix
                    prev = rt.get(m.group(1))
                    rt[m.group(1)] = (kind if prev is None or prev[0] == kind else None, f.where(n))
    # a relaxation whose constructor estimates a property of the WHOLE operator (the spectral radius: Chebyshev) has to see the distributed
    # matrix - the overload of backend::spectral_radius for distributed matrices includes the remote couplings and reduces over the
    # communicator; from the local diagonal block every rank would get its own interval
    import inline
    if global_rule:
        ck.rule('F.global-estimate-distributed', 'a distributed relaxation whose serial constructor estimates the spectral radius of its operand (chebyshev) is built from the distributed '
                                                 'matrix, in the compile-time class and in the run-time wrapper: every rank uses the same interval, that of the global operator', 1)
        needs_global = set()
        for f in u.funcs:
            if f.cls and f.cls.startswith('amgcl::relaxation::') and f.j.get('ctor') and f.body is not None:
                g = inline.expand(f, inline.same_class_helper())
                if any(True for _ in g.calls('amgcl::backend::spectral_radius')):
                    needs_global.add(f.cls.split('<')[0].split('::')[-1])
        for name in sorted(needs_global):
            for side, table in (('compile-time class mpi::relaxation::%s' % name, ct), ('run-time wrapper runtime::mpi::relaxation::wrapper', rt)):
                if name not in table:
                    continue
                kind, where = table[name]
                ck.ob('F.global-estimate-distributed', '%s|%s' % (name, side.split(' ')[0]), where, kind == 'distributed', '' if kind == 'distributed' else
                      'relaxation::%s estimates the spectral radius of the matrix it is constructed from; the %s builds it from the %s operand at %s: the estimate ignores the remote '
                      'couplings and is not reduced over the communicator, every rank smooths with its own interval' % (name, side, kind, where))
    for name, (k_rt, where) in sorted(rt.items()):
        if name not in ct:
            ck.ob('F.mpi-relaxation-operand', 'runtime::mpi::relaxation::wrapper|' + name, where, False, 'no compile-time class amgcl::mpi::relaxation::%s instantiated to compare with' % name)
            continue
        k_ct, w_ct = ct[name]
        ok = k_rt is not None and k_rt == k_ct
        ck.ob('F.mpi-relaxation-operand', 'runtime::mpi::relaxation::wrapper|' + name, where, ok, '' if ok else
              'the run-time wrapper builds relaxation::%s from the %s operand at %s, the compile-time class mpi::relaxation::%s (%s) builds it from the %s one: '
              'the run-time configuration is not the compile-time one' % (name, k_rt, where, name, w_ct, k_ct))


def main(tier):
    ck = Check('C14', tier, 'C14: run-time configuration equals compile-time configuration.')
    T = os.path.join(ir.VERIF, 'tus')
    specs = [dict(name='all_headers', src=os.path.join(T, 'all_headers.cpp'), patterns=True),
             dict(name='rt_builtin', src=os.path.join(T, 'rt_builtin.cpp'))]
    if os.path.exists(os.path.join(T, 'all_headers_mpi.cpp')):
        specs.append(dict(name='all_headers_mpi', src=os.path.join(T, 'all_headers_mpi.cpp'), patterns=True, mpi=True))
        specs.append(dict(name='mpi_rt', src=os.path.join(T, 'mpi_rt.cpp'), mpi=True))
    units = ir.run_units(specs, 'C14')
    ck.add_units(units, specs)
    facts = extract_params(units)
    rule_A(ck, facts)
    rule_B(ck, enum_tables(units))
    rule_C(ck, units)
    rule_E(ck, units)
    wit = [(os.path.join(T, 'params_witness.cpp'), False)]
    if os.path.exists(os.path.join(T, 'params_witness_mpi.cpp')):
        wit.append((os.path.join(T, 'params_witness_mpi.cpp'), True))
    rule_D(ck, wit)
    if os.path.exists(os.path.join(T, 'all_headers_mpi.cpp')):
        rule_F(ck, T, global_rule=False)
    ck.assumptions += ['Boost.PropertyTree get/put/get_child/add_child semantics',
                       'bitwise equality of results is not decided; it follows from identical classes and parameters only for deterministic components']
    return ck.finish()
