"""Vector-effect model E1 (DESIGN.md section 3): who is written by the backend
primitives, how coefficients are classified, how a variable is used.
"""
from ir import walk, unwrap, show, children, access_path

# primitive -> (index of the output's own coefficient or None, index of output)
PRIMS = {
    'spmv':     (3, 4),
    'residual': (None, 3),
    'axpby':    (2, 3),
    'axpbypcz': (4, 5),
    'vmul':     (3, 4),
    'copy':     (None, 1),
    'clear':    (None, 0),
    'lin_comb': (3, 4),
}
# inputs read by each primitive (argument indices), for dataflow
PRIM_READS = {
    'spmv': (0, 1, 2), 'residual': (0, 1, 2), 'axpby': (0, 1), 'axpbypcz': (0, 1, 2, 3),
    'vmul': (0, 1, 2), 'copy': (0,), 'clear': (), 'lin_comb': (1, 2),
}


def prim_name(call):
    """name of the backend primitive a call node invokes, else None.
    Accepts the front functions amgcl::backend::X and X_impl<...>::apply."""
    f = call.get('f')
    if not f:
        return None
    if f.startswith('amgcl::backend::'):
        rest = f[len('amgcl::backend::'):]
        if rest in PRIMS:
            return rest
        if rest.endswith('_impl::apply') and rest[:-len('_impl::apply')] in PRIMS:
            return rest[:-len('_impl::apply')]
    return None


def classify_coef(func, n, depth=0):
    """'zero' | 'identity' | ('param', declid) | ('other', text)"""
    n = unwrap(n)
    if n is None:
        return ('other', '?')
    k = n['k']
    if k == 'lit' and n['t'] in ('int', 'float'):
        try:
            v = float(n['v'])
        except ValueError:
            return ('other', n['v'])
        if v == 0:
            return 'zero'
        if v == 1:
            return 'identity'
        return ('other', n['v'])
    if k == 'call' and n.get('f') == 'amgcl::math::zero' and not n.get('a'):
        return 'zero'
    if k == 'call' and n.get('f') == 'amgcl::math::identity' and not n.get('a'):
        return 'identity'
    if k == 'un' and n['op'] in ('+',):
        return classify_coef(func, n['e'], depth + 1)
    if k == 'ctor' and len(n.get('a', [])) == 1:
        return classify_coef(func, n['a'][0], depth + 1)
    if k == 'ref':
        d = func.decl(n['d'])
        if d.get('k') == 'param':
            return ('param', n['d'])
        if d.get('k') in ('staticlocal', 'local') and depth < 4:
            # static const scalar_type one = math::identity<..>();  (never reassigned)
            init = local_init(func, n['d'])
            if init is not None and d.get('const') and not assigned_anywhere(func, n['d']):
                return classify_coef(func, init, depth + 1)
        return ('other', n['n'])
    return ('other', show(n))


def local_init(func, d):
    for n in func.nodes.values():
        if n['k'] == 'decl':
            for v in n['v']:
                if v['d'] == d:
                    return v.get('init')
    return None


def assigned_anywhere(func, d):
    for n in func.nodes.values():
        if n['k'] == 'bin' and n['op'] in ('=', '+=', '-=', '*=', '/=') :
            x = unwrap(n['x'])
            if x is not None and x['k'] == 'ref' and x['d'] == d:
                return True
        if n['k'] == 'un' and n['op'] in ('++', '--'):
            e = unwrap(n['e'])
            if e is not None and e['k'] == 'ref' and e['d'] == d:
                return True
    return False


TRANSPARENT_METHODS = {'data', 'begin', 'end', 'array', 'get', 'operator->', 'operator*', 'front', 'back', 'at', 'matrix'}
NEUTRAL_METHODS = {'size', 'rows', 'cols', 'empty', 'nonZeros'}
ALIAS_FUNCS = {'amgcl::backend::reinterpret_as_rhs', 'amgcl::make_iterator_range', 'amgcl::backend::reinterpret_as_rhs_impl::get',
               'std::forward', 'std::move', 'std::addressof'}


def aliases_of(func, root_decl):
    """local variables that alias (view) the object of root_decl: references / iterator
    ranges / pointers initialised from it."""
    al = {root_decl}
    changed = True
    while changed:
        changed = False
        for n in func.nodes.values():
            if n['k'] != 'decl':
                continue
            for v in n['v']:
                if v['d'] in al or v.get('init') is None:
                    continue
                if expr_views(func, v['init'], al):
                    dd = func.decl(v['d'])
                    t = func.unit.type(dd.get('ct'))
                    # by-value copies of whole vectors are not aliases; references, pointers and ranges are
                    if dd.get('ref') or dd.get('ptr') or 'iterator_range' in t or '*' in t or 'Map<' in t:
                        al.add(v['d'])
                        changed = True
    return al


def expr_views(func, e, al):
    e = unwrap(e)
    if e is None:
        return False
    k = e['k']
    if k == 'ref':
        return e['d'] in al
    if k in ('idx',):
        return False  # element value, not a view
    if k == 'un' and e['op'] == '&':
        x = unwrap(e['e'])
        if x is not None and x['k'] == 'idx':
            return expr_views(func, x['b'], al)
        return expr_views(func, x, al)
    if k == 'un' and e['op'] == '*':
        return expr_views(func, e['e'], al)
    if k == 'call':
        if e.get('f') in ALIAS_FUNCS or (e.get('f') or '').endswith('reinterpret_as_rhs'):
            return any(expr_views(func, a, al) for a in e.get('a', []))
        if e.get('m') in TRANSPARENT_METHODS and e.get('obj') is not None:
            return expr_views(func, e['obj'], al)
    if k == 'bin' and e['op'] in ('+', '-'):
        return expr_views(func, e['x'], al)
    if k == 'ctor' and len(e.get('a', [])) >= 1:
        return any(expr_views(func, a, al) for a in e['a'])
    return False


class Use:
    """one occurrence of a tracked object inside a function"""
    __slots__ = ('kind', 'node', 'top', 'call', 'argi', 'prim', 'coef')

    def __init__(self, kind, node, top, call=None, argi=None, prim=None, coef=None):
        self.kind = kind      # 'write' | 'read' | 'rw' | 'kill' | 'neutral' | 'prim-out' | 'prim-in' | 'call' | 'alias'
        self.node = node      # the ref node
        self.top = top        # outermost transparent wrapper
        self.call = call      # enclosing call node for call-ish kinds
        self.argi = argi
        self.prim = prim
        self.coef = coef


def uses_of(func, al):
    """classify every occurrence of the variables in `al` (an alias set) in func."""
    out = []
    for n in func.nodes.values():
        if n['k'] != 'ref' or n['d'] not in al:
            continue
        top = n
        elem = False
        while True:
            pi = func.parent.get(top['i'])
            if pi is None:
                break
            p = func.nodes[pi]
            pk = p['k']
            if pk == 'idx' and p['b'] is not None and _same(p['b'], top):
                top, elem = p, True
            elif pk == 'un' and p['op'] in ('&', '*', '->') and _same(p['e'], top):
                top = p
            elif pk in ('cast', 'defarg') and _same(p['e'], top):
                top = p
            elif pk == 'mem' and p.get('b') is not None and _same(p['b'], top):
                # y.member: data member of the vector (rare) - treat as transparent
                top = p
            elif pk == 'call' and p.get('obj') is not None and _same(p['obj'], top) and (p.get('m') in TRANSPARENT_METHODS or p.get('conv')):
                top = p
            elif pk == 'call' and (p.get('f') in ALIAS_FUNCS or (p.get('f') or '').endswith('reinterpret_as_rhs')) and any(_same(a, top) for a in p.get('a', [])):
                top = p
            elif pk == 'bin' and p['op'] in ('+', '-') and _same(p['x'], top) and _is_pointerish(func, top):
                top = p
            elif pk == 'ctor' and len(p.get('a', [])) == 1 and _same(p['a'][0], top):
                top = p
            else:
                break
        pi = func.parent.get(top['i'])
        p = func.nodes[pi] if pi is not None else None
        if p is None:
            out.append(Use('neutral', n, top))
            continue
        pk = p['k']
        if pk == 'bin' and p['op'] == '=' and _same(p['x'], top):
            out.append(Use('write', n, top))
        elif pk == 'bin' and p['op'] in ('+=', '-=', '*=', '/=', '%=', '|=', '&=', '^=') and _same(p['x'], top):
            out.append(Use('rw', n, top))
        elif pk == 'un' and p['op'] in ('++', '--'):
            out.append(Use('rw', n, top))
        elif pk == 'call':
            if p.get('obj') is not None and _same(p['obj'], top):
                m = p.get('m')
                if m in NEUTRAL_METHODS:
                    out.append(Use('neutral', n, top, call=p))
                elif m in ('setZero', 'clear', 'setConstant', 'fill'):
                    out.append(Use('kill', n, top, call=p))
                elif m in ('resize',):
                    out.append(Use('neutral', n, top, call=p))
                else:
                    out.append(Use('call', n, top, call=p, argi=-1))
                continue
            argi = None
            for i, a in enumerate(p.get('a', [])):
                if _same(a, top):
                    argi = i
            pr = prim_name(p)
            if pr is not None and argi is not None:
                ci, oi = PRIMS[pr]
                if argi == oi:
                    coef = classify_coef(func, p['a'][ci]) if ci is not None else 'zero'
                    out.append(Use('prim-out', n, top, call=p, argi=argi, prim=pr, coef=coef))
                else:
                    out.append(Use('prim-in', n, top, call=p, argi=argi, prim=pr))
            elif p.get('f') in ('amgcl::backend::rows', 'amgcl::backend::cols', 'amgcl::backend::bytes', 'amgcl::backend::nonzeros') :
                out.append(Use('neutral', n, top, call=p))
            else:
                out.append(Use('call', n, top, call=p, argi=argi))
        elif pk == 'decl':
            out.append(Use('alias' if any(v['d'] in al for v in p['v']) else 'read', n, top))
        elif pk in ('block', 'for', 'while', 'if', 'omp', 'do') :
            out.append(Use('neutral', n, top))  # expression statement without effect
        else:
            out.append(Use('read', n, top))
    return out


def _same(a, b):
    """a (possibly wrapped) is node b"""
    a = a
    while a is not None and a is not b:
        if a['k'] in ('cast', 'defarg', 'definit'):
            a = a['e']
        elif a['k'] == 'call' and a.get('conv'):
            a = a['obj']
        else:
            return False
    return a is b


def _is_pointerish(func, n):
    n = unwrap(n)
    return n is not None and (n['k'] == 'un' and n['op'] == '&' or (n['k'] == 'ref' and func.decl(n['d']).get('ptr')) or (n['k'] == 'call' and n.get('m') in ('data', 'begin')))


def locate(func):
    """node id -> (block id, position of the enclosing CFG element in that block).
    Every node is attributed to its nearest ancestor-or-self that is a CFG element or a
    terminator condition (conditions get position = number of elements)."""
    if getattr(func, '_locate', None) is not None:
        return func._locate
    cfg = func.cfg
    m = {}
    func._locate = m
    if cfg is None:
        return m
    elem = {}
    declnode = {}
    for n in func.nodes.values():
        if n['k'] == 'decl':
            for v in n['v']:
                declnode[v['d']] = n
    for b, blk in cfg.blocks.items():
        pos = 0
        for e in blk['el']:
            if isinstance(e, int) and e >= 0:
                elem.setdefault(e, (b, pos))
            elif isinstance(e, dict) and 'declof' in e:
                # clang splits `T a = .., b = ..;` into one synthesized statement per variable:
                # attribute each initialiser (and the whole statement, first come) to its element
                dn = declnode.get(e['declof'])
                if dn is not None:
                    elem.setdefault(dn['i'], (b, pos))
                    for v in dn['v']:
                        if v['d'] == e['declof'] and v.get('init') is not None and 'i' in v['init']:
                            elem.setdefault(v['init']['i'], (b, pos))
            pos += 1
        c = blk.get('cond')
        if c is not None and c >= 0:
            elem.setdefault(c, (b, pos))
    for i in func.nodes:
        j = i
        while j is not None and j not in elem:
            j = func.parent.get(j)
        if j is not None:
            m[i] = elem[j]
    return m


def path_between(func, a, b, avoid=()):
    """is there a CFG path on which node a is evaluated and node b is evaluated later, without any node of `avoid` evaluated in between?
    (a, b, avoid: nodes located in the CFG)"""
    loc = locate(func)
    if a['i'] not in loc or b['i'] not in loc:
        return False
    (ba, pa), (bb, pb) = loc[a['i']], loc[b['i']]
    av = {}
    for n in avoid:
        if n['i'] in loc:
            bn, pn = loc[n['i']]
            av.setdefault(bn, []).append((pn, n['i']))

    def scan(blk, start):
        """walking block blk from position key `start` (exclusive): 'hit' if b comes before any avoided node, 'stop' if an avoided node
        comes first, 'through' if neither occurs"""
        cands = [(k, 'stop') for k in av.get(blk, []) if k > start]
        if blk == bb and (pb, b['i']) > start:
            cands.append(((pb, b['i']), 'hit'))
        if not cands:
            return 'through'
        return min(cands)[1]
    r = scan(ba, (pa, a['i']))
    if r == 'hit':
        return True
    if r == 'stop':
        return False
    cfg = func.cfg
    seen, stack = set(), [s for s in cfg.succ[ba] if s is not None]
    while stack:
        x = stack.pop()
        if x in seen:
            continue
        seen.add(x)
        r = scan(x, (-1, -1))
        if r == 'hit':
            return True
        if r == 'stop':
            continue
        stack.extend(s for s in cfg.succ[x] if s is not None)
    return False
