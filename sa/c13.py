"""C13 - block, complex and mixed-precision formulations solve the same system (DESIGN.md 4, C13): structural clauses.

The property is about equality of operators and solutions across value types and is not decided as a whole.  Decided:

block-iterator-siblings   adapter::block_matrix: the constructor and operator++ of the row iterator select the next block
                          column and gather the block with the same code (shared with C17) - necessary for "the block adapter
                          represents the same operator", in particular for structurally incomplete blocks
accumulator-precision     in every matrix-vector kernel instantiated with a matrix of lower precision than the vectors (single
                          precision preconditioner matrix, double precision solver vectors) no partial sum is kept in a
                          variable narrower than the output vector's scalar: the residual the double-precision solver tests
                          is computed in double precision
"""
import os
import re

import ir
from ir import walk, unwrap, show
from framework import Check
import c17
import c11

RANK = {'float': 1, 'double': 2, 'long double': 3}
KERNELS = ('amgcl::backend::spmv_impl::apply', 'amgcl::backend::residual_impl::apply')


def scalar_of(t):
    t = t.replace('const ', '').replace('&', '').strip()
    for s in ('long double', 'double', 'float'):
        if re.search(r'\b%s\b' % s, t):
            return s
    return None


def rule_acc(ck, units):
    ck.rule('accumulator-precision', 'spmv / residual kernels instantiated with a lower-precision matrix and higher-precision vectors accumulate in the precision of the output vector '
                                     '(no floating-point local narrower than the output scalar is the target of += / -=)', 2)
    done = set()
    for u in units.values():
        for f in u.funcs:
            if f.q not in KERNELS or f.cfg is None:
                continue
            # output vector: the last mutable parameter
            outp = None
            for d in f.params:
                dd = f.decl(d)
                if dd.get('ref') and not dd.get('const'):
                    outp = d
            if outp is None:
                continue
            so = scalar_of(u.type(f.decl(outp).get('ct')))
            mats = [scalar_of(u.type(f.decl(d).get('ct'))) for d in f.params if 'crs<' in u.type(f.decl(d).get('ct'))]
            if so is None or not mats or mats[0] is None or RANK[mats[0]] >= RANK[so]:
                continue      # not a mixed-precision instantiation
            key = '%s<%s matrix, %s output>' % (f.q, mats[0], so)
            if key in done:
                continue
            done.add(key)
            bad = []
            for n in f.nodes.values():
                if n['k'] == 'bin' and n['op'] in ('+=', '-='):
                    x = unwrap(n['x'])
                    if x is not None and x['k'] == 'ref' and f.decl(x['d']).get('k') == 'local':
                        sx = scalar_of(u.type(f.decl(x['d']).get('ct')))
                        if sx is not None and RANK[sx] < RANK[so]:
                            bad.append((n, x['n'], sx))
            ck.ob('accumulator-precision', key, f.where(bad[0][0]) if bad else f.where(), not bad,
                  '' if not bad else 'in %s: the partial sum `%s` at %s has type %s although the output vector holds %s: the product is rounded to the precision of the matrix' % (
                      f.full[:90], bad[0][1], f.where(bad[0][0]), bad[0][2], so))


def rule_view(ck, units):
    ck.rule('view-keeps-scalar', 'backend::reinterpret_as_rhs<MatrixValue>(vector): the block view of a scalar vector has the scalar type of the VECTOR (not of the matrix) - '
                                 'a double vector viewed for a single-precision block matrix stays double', 2)
    done = set()
    for u in units.values():
        for f in u.funcs:
            if f.q != 'amgcl::backend::reinterpret_as_rhs_impl::get' or f.j.get('cret') is None:
                continue
            rt = u.type(f.j['cret'])
            pt = u.type(f.decl(f.params[0]).get('ct')) if f.params else ''
            sr, sp = scalar_of(rt), scalar_of(pt)
            _, targs = c11.split_targs(f.clsfull or '')
            sm = scalar_of(targs[0]) if targs else None
            if sr is None or sp is None or sm is None or sm == sp:
                continue      # only views across precisions tell the two candidates apart
            key = 'reinterpret_as_rhs<%s matrix>(%s vector)' % (sm, sp)
            if key in done:
                continue
            done.add(key)
            ck.ob('view-keeps-scalar', key, f.where(), sr == sp, '' if sr == sp else 'in %s: a vector of %s is viewed as blocks of %s: the storage is reinterpreted in the precision of the matrix' % (f.full[:100], sp, sr))


def rule_view_extent(ck, units):
    """view-extent: reinterpret_as_rhs_impl::get returns [ptr, ptr + n): the view must cover exactly the bytes of the source vector,
    n * sizeof(*ptr) == x.size() * sizeof(element of x).  With n = x.size() * sizeof(S) / sizeof(D) this needs S = element type of the
    vector and D = pointee type of ptr (canonical types, per instantiation; the mixed-precision views tell the candidates apart)."""
    ck.rule('view-extent', 'backend::reinterpret_as_rhs: the element count of the returned view is size * sizeof(source element) / sizeof(pointee of the returned pointer) - '
                           'the view covers the whole vector, no more, no less (canonical types per instantiation)', 2)
    done = set()
    for u in units.values():
        for f in u.funcs:
            if f.q != 'amgcl::backend::reinterpret_as_rhs_impl::get' or f.body is None or not f.params:
                continue
            ptr_t = None
            for n in f.nodes.values():
                if n['k'] == 'decl':
                    for v in n['v']:
                        t = u.type(f.decl(v['d']).get('ct'))
                        if t.endswith('*'):
                            ptr_t = t[:-1].replace('const ', '').strip()
            pt = u.type(f.decl(f.params[0]).get('ct'))
            divs = [n for n in f.nodes.values() if n['k'] == 'bin' and n['op'] == '/' and unwrap(n['y'])['k'] == 'sizeof']
            if ptr_t is None or len(divs) != 1:
                continue
            key = 'reinterpret_as_rhs_impl::get|%s -> %s' % (pt.replace('const ', '').replace('&', '').strip(), ptr_t)
            if key in done:
                continue
            done.add(key)
            d = divs[0]
            den = unwrap(d['y'])
            den_t = u.type(den.get('ct')).replace('const ', '').strip() if den.get('ct') is not None else None
            nums = [x for x in walk(d['x']) if x['k'] == 'sizeof']
            num_t = u.type(nums[0].get('ct')).replace('const ', '').strip() if len(nums) == 1 and nums[0].get('ct') is not None else None
            elem = None
            m = re.search(r'(?:std::vector|amgcl::backend::numa_vector|amgcl::iterator_range)<(.*?)(?:, std::allocator<.*>)?>\s*&*$', pt.replace('const ', '').strip())
            if m:
                elem = m.group(1).strip().rstrip('*').strip()
            det = ''
            if den_t != ptr_t:
                det = 'the element count divides by sizeof(%s) but the view is a range of %s: it covers %s%s' % (
                    den_t, ptr_t, 'a different number of bytes than the whole vector', '')
            elif elem is not None and num_t is not None and num_t != elem:
                det = 'the byte size of the source is computed with sizeof(%s) but its elements are %s' % (num_t, elem)
            ck.ob('view-extent', key, f.where(d), not det, det)


def rule_complex_adapter(ck, units):
    """complex-adapter-2x2: adapter::complex_matrix presents a + ib as the real 2x2 block [[a, -b], [b, a]] (so that (a + ib)(x + iy) is
    reproduced on interleaved real vectors).  row_iterator::value() is evaluated for the four combinations of its two boolean state members
    (row_real, col_real) - a path-sensitive symbolic evaluation of the function body (if / else, ?:, ==, !=, !, &&, ||, locals) - and must
    give  (T,T) -> Re, (T,F) -> -Im, (F,T) -> +Im, (F,F) -> Re  of the base value."""
    ck.rule('complex-adapter-2x2', 'adapter::complex_adapter::row_iterator::value() evaluated for all four (row_real, col_real) states is [[Re, -Im], [Im, Re]] of the base value '
                                   '(the real-equivalent of multiplication by a + ib; the transposed sign pattern is the conjugate matrix)', 1)
    want = {(True, True): 're', (True, False): '-im', (False, True): 'im', (False, False): 're'}
    done = False
    for u in units.values():
        for f in u.funcs:
            if not (f.cls or '').endswith('complex_adapter::row_iterator') or f.q.split('::')[-1] != 'value' or f.body is None or done:
                continue
            done = True

            def ev_bool(e, env):
                e = unwrap(e)
                if e is None:
                    return None
                if e['k'] == 'mem' and e.get('n') in env:
                    return env[e['n']]
                if e['k'] == 'ref' and e.get('n') in env:
                    return env[e['n']]
                if e['k'] == 'lit' and e.get('t') == 'bool':
                    return e['v'] == 'true'
                if e['k'] == 'un' and e['op'] == '!':
                    v = ev_bool(e['e'], env)
                    return None if v is None else not v
                if e['k'] == 'bin' and e['op'] in ('==', '!=', '&&', '||'):
                    a, b = ev_bool(e['x'], env), ev_bool(e['y'], env)
                    if a is None or b is None:
                        return None
                    return {'==': a == b, '!=': a != b, '&&': a and b, '||': a or b}[e['op']]
                return None

            def ev_val(e, env):
                e = unwrap(e)
                if e is None:
                    return None
                if e['k'] == 'cond':
                    c = ev_bool(e['c'], env)
                    return None if c is None else ev_val(e['x'] if c else e['y'], env)
                if e['k'] == 'un' and e['op'] == '-':
                    v = ev_val(e['e'], env)
                    return None if v is None else (v[1:] if v.startswith('-') else '-' + v)
                if e['k'] == 'call' and (e.get('f') or '').split('::')[-1] in ('real', 'imag') and e.get('a'):
                    return 're' if e['f'].endswith('real') else 'im'
                if e['k'] == 'call' and e.get('m') in ('real', 'imag'):
                    return 're' if e['m'] == 'real' else 'im'
                if e['k'] == 'ref' and ('val', e['d']) in env:
                    return env[('val', e['d'])]
                return None

            def run(st, env):
                """returns the returned term, or None (fall through), or 'UNKNOWN'"""
                if st is None:
                    return None
                k = st['k']
                if k == 'block':
                    for s_ in st.get('s', []):
                        r = run(s_, env)
                        if r is not None:
                            return r
                    return None
                if k == 'if':
                    c = ev_bool(st['c'], env)
                    if c is None:
                        return 'UNKNOWN'
                    return run(st.get('t') if c else st.get('e'), env)
                if k == 'ret':
                    return ev_val(st.get('e'), env) or 'UNKNOWN'
                if k == 'decl':
                    for v in st['v']:
                        if v.get('init') is not None:
                            b = ev_bool(v['init'], env)
                            if b is not None:
                                env[v['n']] = b
                            t = ev_val(v['init'], env)
                            if t is not None:
                                env[('val', v['d'])] = t
                    return None
                if k in ('expr', 'null'):
                    return None
                return None if k not in ('for', 'while', 'do', 'switch', 'goto') else 'UNKNOWN'
            got = {}
            for rr in (True, False):
                for cr in (True, False):
                    got[(rr, cr)] = run(f.body, {'row_real': rr, 'col_real': cr})
            bad = ['(row_real=%s, col_real=%s) -> %s, expected %s' % (k[0], k[1], got[k], want[k]) for k in sorted(want, reverse=True) if got[k] != want[k]]
            ck.ob('complex-adapter-2x2', 'amgcl::adapter::complex_adapter::row_iterator::value', f.where(), not bad, '' if not bad else
                  'value() gives ' + '; '.join(bad) + (': the adapter represents conj(A), not A' if all(got[k] in ('re', 'im', '-im') for k in got) else ''))


def rule_flat_extent(ck, units, floor=6):
    """flat-extent: static_matrix<T, N, M> stores its N*M entries in one flat array; element-wise operations (+=, -=, scaling, norm,
    is_zero, zero, constant, the vector inner product) walk it with a single index.  In every instantiation the bound of such a loop is the
    number of entries N*M of the matrix it indexes with that single index (a bound of N visits the first row only)."""
    ck.rule('flat-extent', 'value_type/static_matrix.hpp: a loop that addresses a static_matrix<T, N, M> with a single flat index (buf[i], x(i)) runs over all N*M entries '
                           '(compile-time bound per instantiation)', floor)
    seen = set()
    for u in units.values():
        for f in u.funcs:
            if f.body is None or not f.rel().startswith('amgcl/value_type/static_matrix.hpp'):
                continue
            for L in f.nodes.values():
                if L['k'] != 'for' or L.get('c') is None:
                    continue
                c = unwrap(L['c'])
                if c is None or c['k'] != 'bin' or c['op'] != '<' or unwrap(c['x'])['k'] != 'ref':
                    continue
                iv = unwrap(c['x'])['d']
                bnd = unwrap(c['y'])
                bval = None
                if bnd is not None and bnd.get('cv') is not None:
                    bval = int(bnd['cv'])
                elif bnd is not None and bnd['k'] == 'lit' and bnd.get('t') == 'int':
                    bval = int(bnd['v'])
                types = set()
                for n in walk(L['b']):
                    obj = None
                    if n['k'] == 'idx' and unwrap(n['x'])['k'] == 'ref' and unwrap(n['x'])['d'] == iv:
                        b = unwrap(n['b'])
                        if b is not None and b['k'] == 'mem' and b.get('n') == 'buf':
                            obj = unwrap(b.get('b')) if b.get('b') is not None else {'k': 'this'}
                    elif n['k'] == 'call' and (n.get('f') or '').endswith('static_matrix::operator()') and len(n.get('a', [])) == 1 \
                            and unwrap(n['a'][0])['k'] == 'ref' and unwrap(n['a'][0])['d'] == iv:
                        obj = unwrap(n['obj']) if n.get('obj') is not None else {'k': 'this'}
                    if obj is None:
                        continue
                    if obj['k'] == 'ref':
                        types.add(u.type(f.decl(obj['d']).get('ct')))
                    elif obj['k'] == 'this':
                        types.add(f.clsfull or '')
                for t in types:
                    m = re.search(r'static_matrix<[^<>]*?,\s*(\d+),\s*(\d+)>', t)
                    if not m:
                        continue
                    ext = int(m.group(1)) * int(m.group(2))
                    key = '%s|%s|line-of-loop-in-%s' % ('::'.join(f.q.split('::')[-2:]), m.group(0).replace(' ', ''), f.q.split('::')[-1])
                    if (key, L.get('l')) in seen:
                        continue
                    seen.add((key, L.get('l')))
                    ok = bval is not None and bval == ext
                    ck.ob('flat-extent', key + '@%s' % L.get('l'), f.where(L), ok, '' if ok else
                          'the loop at %s addresses %s with a single flat index but runs to %s, the matrix has %d entries: only a part of the block is visited' % (
                              f.where(L), m.group(0), bval if bval is not None else show(bnd), ext))


def rule_witness(ck):
    """compile-fail witnesses: tus/type_witness.cpp holds one static_assert per identity of the value-type traits / backend mixing rules;
    the unit is compiled (syntax only) against the current /repo, a failing assertion is a violation of that witness"""
    import subprocess
    ck.rule('type-witness', 'type-level identities the block / complex / mixed-precision formulations rely on hold for the current headers: common_scalar_backend picks the higher precision, '
                            'scalar_of / rhs_of / replace_scalar / static_rows / is_static_matrix / inner_product result types, a block is exactly its N*M elements (compile-time witnesses)', 15)
    src = os.path.join(ir.VERIF, 'tus', 'type_witness.cpp')
    ids = re.findall(r'W\("(W\d+)",', open(src).read())
    cmd = ['clang++', '-fsyntax-only', '-ferror-limit=0'] + ir.BASE_FLAGS + [src]
    r = subprocess.run(cmd, capture_output=True, text=True)
    failed = {}
    other = []
    for line in r.stderr.splitlines():
        m = re.search(r'type_witness\.cpp:(\d+):\d+: error: static_assert failed.*"WITNESS (W\d+): (.*)"', line)
        if m:
            failed[m.group(2)] = (m.group(1), m.group(3))
        elif ' error: ' in line:
            other.append(line.strip())
    if other:
        ck.brk('type_witness.cpp does not compile apart from its assertions: %s' % other[0][:300])
    for w in ids:
        ok = w not in failed
        ck.ob('type-witness', w, 'tus/type_witness.cpp:%s' % (failed[w][0] if not ok else '0'), ok, '' if ok else 'does not hold for the current headers: %s' % failed[w][1])
    ck.extra['witness_cmd'] = ' '.join(cmd)


def main(tier):
    ck = Check('C13', tier, 'C13 (clauses): block adapter iterator consistency; accumulation precision of mixed-precision matrix-vector kernels.')
    T = os.path.join(ir.VERIF, 'tus')
    names = ['mixed', 'composite'] if tier == 'quick' else ['mixed', 'composite', 'vt_block']
    specs = [dict(name=n, src=os.path.join(T, n + '.cpp')) for n in names]
    units = ir.run_units(specs, 'C13')
    ck.add_units(units, specs)
    ipspec = [dict(name='ip_unit', src=os.path.join(T, 'ip_unit.cpp'))]
    ipu = ir.run_units(ipspec, 'C13i')
    ck.add_units(ipu, ipspec)
    c17.rule_D(ck, units)
    c17.rule_E(ck, units, floor=1)   # the block adapter only ever sees row-sorted matrices (shared with C17)
    c17.rule_E_adapter(ck, units)
    c17.rule_I(ck, units, floor=2)      # every gathered block starts from a reset value (shared with C17)
    import c07
    c07.conj_rule(ck, ipu)               # Eigen / static_matrix / complex blocks follow the same inner-product convention (shared with C07)
    rule_acc(ck, units)
    rule_view(ck, units)
    rule_view_extent(ck, units)
    rule_complex_adapter(ck, units)
    rule_flat_extent(ck, units)
    rule_witness(ck)
    ck.assumptions += ['that block, complex-adapter, hybrid-backend and scalar formulations have the same entries / solutions, and that the mixed-precision solver reaches 1e-8, is numerical and NOT decided']
    return ck.finish()
