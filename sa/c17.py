"""C17 - adapters preserve the operator; input row order does not matter (DESIGN.md 4, C17).

A  every entry point that copies a generic user matrix into a build_matrix sorts that private copy
   before order-sensitive code sees it (order-insensitive classes excepted by name)
B  entry points that take std::shared_ptr<build_matrix> never mutate the caller's matrix
C  zero_copy* allocate nothing and copy nothing; borrowed arrays are never freed (delete[] only in
   crs::free_data under own_data; own_data = false only next to pointer borrowing)
"""
import os

import ir
from ir import walk, unwrap, show, is_node
from absint import AbsInt
from accesses import Analyzer
from effects import locate
from framework import Check

ORDER_INSENSITIVE = {
    'amgcl::preconditioner::dummy': 'the copy is used only for backend::copy_matrix / spmv, which do not depend on the order of entries within a row',
    'amgcl::preconditioner::schur_pressure_correction': 'block extraction is order preserving and every consumer is marker / search based; the sub-solvers get their '
                                                         'blocks through their own generic-matrix constructors, which re-enter this rule',
}
# classes whose constructors / update members receive matrices from the user
USER_ENTRY_CLASSES = ('amgcl::amg', 'amgcl::relaxation::as_preconditioner', 'amgcl::preconditioner::', 'amgcl::make_solver', 'amgcl::make_block_solver',
                      'amgcl::deflated_solver', 'amgcl::runtime::preconditioner')
BORROWERS = {
    'amgcl::adapter::zero_copy': 'borrows the user arrays',
    'amgcl::adapter::zero_copy_direct': 'borrows the user arrays',
    'amgcl::preconditioner::schur_pressure_correction::init': 'Kup_hat borrows ptr/col of Kup and owns only its values (freed explicitly below)',
    'amgcl::mpi::coarsening::smoothed_aggregation::transfer_operators': 'filtered matrices share ptr/col/val views of the local blocks',
    'amgcl::backend::crs::crs': 'move constructor transfers the flag',
    'amgcl::backend::crs::operator=': 'move assignment swaps the flag',
}


def is_crs_shared_ptr(t):
    return 'shared_ptr<amgcl::backend::crs<' in t


def first_use_is_sort(an, f, root, start_order=None):
    """on every path: is the first (non-neutral) access to `root` the argument of backend::sort_rows?"""
    acc = [a for a in an.accesses(f) if a.root == root and not (a.kind == 'kill' and a.bare)]
    loc = locate(f)
    events = {}
    for a in acc:
        w = loc.get(a.node['i'])
        if w is None:
            continue
        events.setdefault(w[0], []).append((w[1], a.order, a))
    bad = []

    def is_sort(a):
        p = a.node
        for anc in f.ancestors(a.node):
            if anc['k'] == 'call':
                return anc.get('f') == 'amgcl::backend::sort_rows'
        return False

    def apply(a, facts, env):
        if is_sort(a):
            return facts | {'S'}
        return facts
    ai = AbsInt(f, events, apply)
    ai.run()

    def visit(b, nid, a, facts, env):
        if 'S' not in facts and not is_sort(a) and a.kind != 'neutral' and not a.bare:
            bad.append(a)
        if 'S' not in facts and not is_sort(a) and a.bare and a.kind in ('read',):
            # the pointer itself is handed on (stored / passed) before sorting
            bad.append(a)
    ai.visit(visit)
    return bad


def rule_A(ck, units):
    ck.rule('A.sort-on-entry', 'a build_matrix copied from a generic user matrix is passed to sort_rows before any other use (or handed to a callee whose first use of it is sort_rows)', 8)
    for u in units.values():
        an = Analyzer([u])
        for f in u.funcs:
            if not f.cls or f.cfg is None or not f.cls.startswith(USER_ENTRY_CLASSES):
                continue
            for c in f.calls('std::make_shared'):
                if 'rt' not in c or not is_crs_shared_ptr(u.type(c['rt'])) or len(c.get('a', [])) != 1:
                    continue
                r = an.root_of_expr(f, c['a'][0])
                if r is None or r[0] != 'param':
                    continue
                pd = f.decl(f.params[r[1]])
                pt = u.type(pd.get('ct'))
                if 'shared_ptr' in pt:
                    continue
                if pt.replace('const ', '').strip().startswith('amgcl::backend::crs<') and not f.j.get('ctor') and f.q.split('::')[-1] not in ('rebuild', 'partial_update'):
                    continue   # internal copy of an internal matrix, not a user entry point
                m = 'ctor' if f.j.get('ctor') else f.q.split('::')[-1]
                key = '%s|%s' % (f.cls, m)
                if f.cls in ORDER_INSENSITIVE:
                    ck.ob('A.sort-on-entry', key, f.where(c), True, 'order-insensitive by design: ' + ORDER_INSENSITIVE[f.cls], trivial=True)
                    continue
                # where does the new matrix go?
                top = c
                while True:
                    pi = f.parent.get(top['i'])
                    p = f.nodes[pi] if pi is not None else None
                    if p is not None and p['k'] in ('ctor', 'cast', 'defarg') and (p['k'] != 'ctor' or len(p.get('a', [])) == 1):
                        top = p
                    else:
                        break
                det = ''
                ok = False
                if p is not None and p['k'] == 'decl':
                    v = [v for v in p['v'] if v.get('init') is not None and any(x is c for x in walk(v['init']))]
                    if v:
                        bad = first_use_is_sort(an, f, ('var', v[0]['d']))
                        ok = not bad
                        if bad:
                            det = 'the copy `%s` of the user matrix is used (%s at %s) before it is passed to sort_rows' % (v[0]['n'], bad[0].why, f.where(bad[0].node))
                elif p is not None and p['k'] == 'call' and 'fd' in p:
                    g = u.by_id.get(p['fd'])
                    argi = [i for i, a in enumerate(p.get('a', [])) if any(x is c for x in walk(a))]
                    if g is not None and g.cfg is not None and argi:
                        bad = first_use_is_sort(an, g, ('param', argi[0]))
                        ok = not bad
                        if bad:
                            det = 'the copy of the user matrix is handed to %s, which uses it (%s at %s) without sorting its rows' % (g.q, bad[0].why, g.where(bad[0].node))
                    else:
                        det = 'the copy of the user matrix is handed unsorted to %s' % (p.get('f') or show(p))
                else:
                    det = 'the copy of the user matrix is used unsorted in `%s`' % show(p)[:80] if p is not None else 'unsorted'
                ck.ob('A.sort-on-entry', key, f.where(c), ok, det)


def fresh_from_class_callers(u, f, i):
    """is parameter i of member function f, at every call site inside its own class, bound to a local that was created there by make_shared
    (or default-constructed and filled)?  Then the pointee is the class\'s own fresh object, not a matrix of the library user."""
    sites = []
    for g in u.funcs:
        if g.cls != f.cls or g is f or g.body is None:
            continue
        for c in g.calls():
            if c.get('fd') == f.id and len(c.get('a', [])) > i:
                sites.append((g, c))
    if not sites:
        return False
    for g, c in sites:
        a = unwrap(c['a'][i])
        if a is None or a['k'] != 'ref' or g.decl(a['d']).get('k') != 'local':
            return False
        inits = [v.get('init') for n in g.nodes.values() if n['k'] == 'decl' for v in n['v'] if v['d'] == a['d']]
        ok = False
        for ini in inits:
            iu = unwrap(ini) if ini is not None else None
            if iu is None:
                ok = True      # std::shared_ptr<M> X; assigned a fresh matrix by the helper
            elif iu['k'] == 'call' and (iu.get('f') or '').startswith('std::make_shared') and not [x for x in iu.get('a', []) if x is not None and x.get('k') != 'defarg']:
                ok = True
        if not ok:
            return False
    return True


def rule_B(ck, units):
    ck.rule('B.caller-matrix-untouched', 'a function that receives std::shared_ptr<build_matrix> does not modify the matrix it points to while the pointer still refers to the caller\'s object', 10)
    for u in units.values():
        an = Analyzer([u])
        for f in u.funcs:
            if not f.cls or f.cfg is None or not f.cls.startswith(('amgcl::amg', 'amgcl::make_solver', 'amgcl::relaxation::as_preconditioner', 'amgcl::preconditioner::',
                                                                   'amgcl::deflated_solver', 'amgcl::make_block_solver', 'amgcl::runtime::preconditioner')):
                continue
            for i, d in enumerate(f.params):
                pt = u.type(f.decl(d).get('ct'))
                if not is_crs_shared_ptr(pt):
                    continue
                if fresh_from_class_callers(u, f, i):
                    continue      # a helper of the class that fills matrices its caller has just created: not a caller-owned input
                root = ('param', i)
                acc = [a for a in an.accesses(f) if a.root == root]
                loc = locate(f)
                events = {}
                for a in acc:
                    w = loc.get(a.node['i'])
                    if w is not None:
                        events.setdefault(w[0], []).append((w[1], a.order, a))
                bad = []

                def apply(a, facts, env):
                    if a.bare and a.kind in ('kill',):
                        return facts | {'REASSIGNED'}
                    return facts
                ai = AbsInt(f, events, apply)
                ai.run()

                def visit(b, nid, a, facts, env):
                    if not a.bare and a.kind in ('kill', 'elem', 'rw', 'one') and 'REASSIGNED' not in facts:
                        bad.append(a)
                ai.visit(visit)
                m = 'ctor' if f.j.get('ctor') else f.q.split('::')[-1]
                ck.ob('B.caller-matrix-untouched', '%s|%s|%s' % (f.cls, m, f.decl(d)['n']), f.where(bad[0].node) if bad else f.where(), not bad,
                      '' if not bad else 'the matrix behind shared_ptr parameter `%s` is modified (%s) at %s while it is still the caller\'s object' % (f.decl(d)['n'], bad[0].why, f.where(bad[0].node)),
                      trivial=not acc)


def rule_C(ck, units):
    ck.rule('C.zero-copy', 'zero_copy / zero_copy_direct allocate no array, copy no element, store the user pointers and clear own_data', 2)
    ck.rule('C.free-only-owned', 'delete[] of crs::ptr/col/val occurs only in crs::free_data under the edge own_data; own_data = false is assigned only where pointers are borrowed (named sites)', 2)
    seenz = set()
    for u in units.values():
        for f in u.funcs:
            if f.q in ('amgcl::adapter::zero_copy', 'amgcl::adapter::zero_copy_direct') and len(f.params) == 5:
                if (f.q, f.line) in seenz:
                    continue
                seenz.add((f.q, f.line))
                news = [n for n in f.nodes.values() if n['k'] == 'new']
                loops = [n for n in f.nodes.values() if n['k'] in ('for', 'while', 'do', 'rfor')]
                own = [n for n in f.nodes.values() if n['k'] == 'bin' and n['op'] == '=' and unwrap(n['x'])['k'] == 'mem' and unwrap(n['x'])['n'] == 'own_data'
                       and unwrap(n['y'])['k'] == 'lit' and unwrap(n['y'])['v'] == 'false']
                stores = {}
                for n in f.nodes.values():
                    if n['k'] == 'bin' and n['op'] == '=' and unwrap(n['x'])['k'] == 'mem' and unwrap(n['x'])['n'] in ('ptr', 'col', 'val'):
                        src = [x['d'] for x in walk(n['y']) if x['k'] == 'ref']
                        stores[unwrap(n['x'])['n']] = [f.param_index(d) for d in src]
                okst = all(stores.get(nm) == [idx] for nm, idx in (('ptr', 2), ('col', 3), ('val', 4)))
                calls_alloc = [c for c in f.calls() if (c.get('m') in ('set_size', 'set_nonzeros'))]
                ok = not news and not loops and len(own) == 1 and okst and not calls_alloc
                det = ''
                if news or calls_alloc:
                    det = 'allocates an array'
                elif loops:
                    det = 'contains a copy loop'
                elif len(own) != 1:
                    det = 'own_data is not cleared'
                elif not okst:
                    det = 'ptr/col/val are not the user pointers (stores: %s)' % stores
                ck.ob('C.zero-copy', f.q, f.where(), ok, det)
    # delete[] sites / own_data = false sites over all analysed functions
    del_sites, own_sites = [], []
    for u in units.values():
        for f in u.funcs:
            for n in f.nodes.values():
                if n['k'] == 'delete' and n.get('arr'):
                    e = unwrap(n['e'])
                    if e['k'] == 'mem' and e['n'] in ('ptr', 'col', 'val') and u.decls[e['d']].get('cls', '').endswith('backend::crs'):
                        del_sites.append((f, n))
                if n['k'] == 'bin' and n['op'] == '=' and unwrap(n['x'])['k'] == 'mem' and unwrap(n['x'])['n'] == 'own_data':
                    y = unwrap(n['y'])
                    if y['k'] == 'lit' and y['v'] == 'false':
                        own_sites.append((f, n))
    seen = set()
    for f, n in del_sites:
        k = (f.q, f.where(n))
        if k in seen:
            continue
        seen.add(k)
        ok = f.q == 'amgcl::backend::crs::free_data'
        det = ''
        if ok:
            # dominated by the true edge of `own_data`
            guard = False
            for anc in f.ancestors(n):
                if anc['k'] == 'if':
                    c = unwrap(anc['c'])
                    if c['k'] == 'mem' and c['n'] == 'own_data' and any(x is n for x in walk(anc['t'])):
                        guard = True
            ok = guard
            det = '' if ok else 'delete[] is not guarded by `if (own_data)`'
        else:
            owner_free = f.q in ('amgcl::preconditioner::schur_pressure_correction::init',)
            ok = owner_free
            det = '' if ok else 'delete[] of a crs array outside crs::free_data (%s)' % f.q
        ck.ob('C.free-only-owned', 'delete|%s|%s' % (f.q, unwrap(n['e'])['n']), f.where(n), ok, det)
    seen = set()
    for f, n in own_sites:
        k = (f.q, f.where(n))
        if k in seen:
            continue
        seen.add(k)
        # the flag may be cleared exactly where the object borrows arrays: in the same function at least one of its ptr / col / val members
        # is set from existing storage (not from `new`) - the object then does not own (all of) what it points to
        an_ = Analyzer([f.unit])
        obj = an_.root_of_expr(f, unwrap(n['x'])['b']) if unwrap(n['x']).get('b') is not None else ('this',)
        borrowed = []
        for m in f.nodes.values():
            if m['k'] == 'bin' and m['op'] == '=' and unwrap(m['x'])['k'] == 'mem' and unwrap(m['x'])['n'] in ('ptr', 'col', 'val'):
                tgt = an_.root_of_expr(f, unwrap(m['x'])['b']) if unwrap(m['x']).get('b') is not None else ('this',)
                rhs = unwrap(m['y'])
                if tgt == obj and rhs is not None and rhs['k'] not in ('new', 'lit'):
                    borrowed.append(m)
        ok = bool(borrowed) or f.q in BORROWERS
        cls = '::'.join(f.q.split('::')[:-1]) if f.cls else f.q
        ck.ob('C.free-only-owned', 'own_data=false|%s' % (f.cls or f.q), f.where(n), ok,
              '' if ok else 'own_data is cleared in %s although the object does not take over existing arrays there (no ptr / col / val member is set from borrowed storage): its arrays are never freed' % f.q)


def rule_C2(ck, units, control):
    """own_data = true hands the three arrays to delete[] (free_data, destructor).  The flag may be raised only for arrays the object has
    allocated itself: on every path to the assignment, ptr, col and val of that object were set from `new[]` (directly or through set_size /
    set_nonzeros) or to null in the same function (a constructor that clears the pointers in its body, raises the flag and allocates
    afterwards owns nothing it did not allocate).  Today nothing in the library raises the flag outside constructors' initialiser lists (which
    start from null pointers); the rule is kept alive by a positive control."""
    ck.rule('C.own-only-allocated', 'own_data = true is assigned only after ptr, col and val of the same object were allocated (new[] / set_size / set_nonzeros) or nulled on every path to the '
                                    'assignment in that function: borrowed (zero-copy) arrays never become the library\'s to free', 0)
    found_control = False
    seen = set()
    for u in list(units.values()) + [control]:
        an_ = Analyzer([u])
        for f in u.funcs:
            if f.cfg is None or not (f.rel().startswith('amgcl/') or f.q.startswith('verif_control::')):
                continue
            sites = [n for n in f.nodes.values() if n['k'] == 'bin' and n['op'] == '=' and unwrap(n['x'])['k'] == 'mem' and unwrap(n['x'])['n'] == 'own_data'
                     and unwrap(n['y']) is not None and unwrap(n['y'])['k'] == 'lit' and unwrap(n['y'])['v'] == 'true']
            if not sites or (f.q, f.line) in seen:
                continue
            seen.add((f.q, f.line))

            def root(e):
                return an_.root_of_expr(f, e['b']) if e.get('b') is not None else ('this',)

            def step(n, facts, want):
                """facts: set of (object root, member) allocated so far"""
                for x in walk(n):
                    if x['k'] == 'bin' and x['op'] == '=' and unwrap(x['x'])['k'] == 'mem' and unwrap(x['x'])['n'] in ('ptr', 'col', 'val'):
                        r, y = root(unwrap(x['x'])), unwrap(x['y'])
                        while y is not None and y['k'] == 'bin' and y['op'] == '=':      # ptr = col = val = 0
                            y = unwrap(y['y'])
                        if y is not None and (y['k'] == 'new' or (y['k'] == 'lit' and str(y.get('v')) in ('0', 'nullptr', 'NULL'))):
                            facts = facts | {(r, unwrap(x['x'])['n'])}
                        else:
                            facts = frozenset(k for k in facts if k != (r, unwrap(x['x'])['n']))
                    if x['k'] == 'call' and x.get('m') in ('set_size', 'set_nonzeros'):
                        r = an_.root_of_expr(f, x['obj']) if x.get('obj') is not None else ('this',)
                        facts = facts | ({(r, 'ptr')} if x['m'] == 'set_size' else {(r, 'col'), (r, 'val')})
                    if x['k'] == 'call' and x.get('m') == 'free_data':
                        r = an_.root_of_expr(f, x['obj']) if x.get('obj') is not None else ('this',)
                        facts = frozenset(k for k in facts if k[0] != r)
                    if x is want:
                        return facts, True
                return facts, False

            cfg = f.cfg

            def transfer(b, st):
                for e in cfg.elements(b):
                    st, _ = step(e, st, None)
                return st
            IN, OUT = cfg.forward(frozenset(), transfer)
            for site in sites:
                res = None
                for b in IN:
                    st = IN[b]
                    for e in cfg.elements(b):
                        st, hit = step(e, st, site)
                        if hit:
                            res = st
                            break
                    if res is not None:
                        break
                r = root(unwrap(site['x']))
                missing = [m for m in ('ptr', 'col', 'val') if res is None or (r, m) not in res]
                if f.q.startswith('verif_control::'):
                    found_control = found_control or bool(missing)
                    continue
                ck.ob('C.own-only-allocated', '%s|%s' % (f.q, f.where(site)), f.where(site), not missing,
                      '' if not missing else 'own_data is set at %s although %s of that matrix %s not allocated in %s on every path to it: arrays the matrix may have borrowed '
                                             '(zero-copy) or already released are handed to delete[] by the next free_data() / destructor' % (
                                                 f.where(site), ', '.join(missing), 'was' if len(missing) == 1 else 'were', f.q.split('::')[-1]))
    if not found_control:
        ck.brk('C.own-only-allocated: the positive control verif_control::adopt (tus/controls.cpp) was not reported - the rule is blind')


def _member_elem_writes(f):
    """assignments  M(i, j) = ..  /  M[i] = ..  to a data member M of *this"""
    out = []
    for n in f.nodes.values():
        if n['k'] == 'bin' and n['op'] == '=':
            lhs = unwrap(n['x'])
            base = None
            if lhs is not None and lhs['k'] == 'call' and lhs.get('op') == '()' and lhs.get('obj') is not None:
                base = unwrap(lhs['obj'])
            elif lhs is not None and lhs['k'] == 'idx':
                base = unwrap(lhs['b'])
            if base is not None and base['k'] == 'mem' and (base.get('b') is None or unwrap(base['b'])['k'] == 'this'):
                out.append((n, base['n']))
    return out


def rule_D(ck, units):
    """sibling agreement: an adapter iterator that gathers its current value from several underlying rows does so in its constructor
    (first value) and in operator++ (every later value): both must select the next column and gather the entries with the same code.
    The class is found by its shape (constructor and operator++ both fill a data member element by element), not by its name."""
    import json
    import c02
    ck.rule('D.block-iterator-siblings', 'in an adapter row iterator that gathers a block from several scalar rows, the constructor and operator++ use the same next-column selection and the same block gathering', 1)
    done = set()
    for u in units.values():
        by = {}
        for f in u.funcs:
            if f.cls and f.cls.startswith('amgcl::adapter::') and (f.j.get('ctor') or f.q.endswith('operator++')) and f.body is not None:
                import inline
                f = inline.expand(f, inline.same_class_helper())       # the selection / gathering may live in a shared private member
                if _member_elem_writes(f):
                    by.setdefault(f.clsfull, {})['ctor' if f.j.get('ctor') else 'inc'] = f
        for clsfull, d in by.items():
            if 'ctor' not in d or 'inc' not in d:
                continue
            cls = d['ctor'].cls
            if cls in done:
                continue
            done.add(cls)
            frs = {}
            for nm, f in d.items():
                ws = [n for n, m in _member_elem_writes(f)]
                # the gathering loops: outermost loops that contain the element writes
                gat = []
                for w in ws:
                    loops = [a for a in f.ancestors(w) if a['k'] in ('for', 'while')]
                    if loops and loops[-1] not in gat:
                        gat.append(loops[-1])
                gids = {x['i'] for g in gat for x in walk(g)}
                # the selection of the next column: if-statements outside the gathering loops whose condition tests an element of a member array
                sel = [n for n in f.nodes.values() if n['k'] == 'if' and n['i'] not in gids
                       and any(x['k'] == 'idx' and unwrap(x['b']) is not None and unwrap(x['b'])['k'] == 'mem' for x in walk(n['c']))]
                frs[nm] = (json.dumps([c02.norm_tree(f, x, {}) for x in sel], sort_keys=True), json.dumps([c02.norm_tree(f, x, {}) for x in gat], sort_keys=True), len(sel), len(gat))
            a, b = frs['ctor'], frs['inc']
            dets = []
            if a[0] != b[0] or a[2] == 0:
                dets.append('the selection of the next block column differs between the constructor and operator++')
            if a[1] != b[1] or a[3] == 0:
                dets.append('the gathering of the block values differs between the constructor and operator++')
            ck.ob('D.block-iterator-siblings', cls, d['inc'].where(), not dets, '; '.join(dets))


BLOCK_ADAPTER_CALLERS_SORTED = {
    'amgcl::relaxation::as_block::type': 'constructed by amg / as_preconditioner with their private copy of the matrix, which C17-A requires to be sorted before any other use',
}


def rule_E(ck, units, floor=3):
    """adapter::block_matrix merges the b scalar rows of a block row by advancing one cursor per row up to the current block
    column: it needs row-sorted input.  Every place that applies it must hand it a sorted matrix."""
    ck.rule('E.block-adapter-sorted', 'adapter::block_matrix (a merge over the scalar rows of a block row) is applied only to row-sorted matrices: its argument is sorted by sort_rows earlier in the '
                                      'same function, or is an internal shared CRS matrix of the hierarchy; a generic user matrix must not reach it unsorted', floor)
    done = set()
    for u in units.values():
        an = Analyzer([u])
        for f in u.funcs:
            if f.body is None:
                continue
            calls = [c for c in walk(f.body) if c['k'] == 'call' and (c.get('f') or '') == 'amgcl::adapter::block_matrix' and c.get('a')]
            calls += [c for i in f.inits if is_node(i.get('e')) for c in walk(i['e']) if c['k'] == 'call' and (c.get('f') or '') == 'amgcl::adapter::block_matrix' and c.get('a')]
            if not calls or (f.file, f.line) in done or f.rel().startswith('/'):
                continue      # (units of /verif that merely instantiate the adapter are not call sites of the library)
            done.add((f.file, f.line))
            for k, c in enumerate(calls):
                arg = c['a'][0]
                r = an.root_of_expr(f, arg)
                key = '%s|%s#%d' % (f.rel(), f.q, k + 1)
                sorts = [s_ for s_ in f.calls() if (s_.get('f') or '').endswith('sort_rows') and s_.get('a') and an.root_of_expr(f, s_['a'][0]) == r and s_['i'] < c['i']]
                if sorts:
                    ck.ob('E.block-adapter-sorted', key, f.where(c), True)
                    continue
                # internal matrix handed over by shared pointer to the concrete CRS type
                au = unwrap(arg)
                ptr_param = None
                if au is not None and au['k'] == 'un' and au['op'] == '*' and unwrap(au['e'])['k'] == 'ref' and f.param_index(unwrap(au['e'])['d']) is not None:
                    ptr_param = unwrap(au['e'])['d']
                if ptr_param is not None and is_crs_shared_ptr(u.type(f.decl(ptr_param).get('ct'))):
                    ck.ob('E.block-adapter-sorted', key, f.where(c), True, 'internal shared CRS matrix (sorted where it was created)', trivial=True)
                    continue
                cls = f.cls or f.q
                if cls in BLOCK_ADAPTER_CALLERS_SORTED:
                    ck.ob('E.block-adapter-sorted', key, f.where(c), True, BLOCK_ADAPTER_CALLERS_SORTED[cls], trivial=True)
                    continue
                ck.ob('E.block-adapter-sorted', key, f.where(c), False,
                      'in %s: adapter::block_matrix is applied at %s to `%s`, a matrix that was not sorted in this function: with row entries in arbitrary order the block rows are merged wrongly '
                      '(entries land in the wrong block column or are dropped)' % (f.full[:90], f.where(c), show(arg)[:40]))


BSEARCH = ('std::lower_bound', 'std::upper_bound', 'std::binary_search', 'std::equal_range')


def rule_F(ck, units, control):
    """a binary search over the column indices of a row is only correct on sorted rows; matrices that come from the user, from SpGEMM with
    sort = false or from block extraction are not sorted unless sort_rows was applied"""
    ck.rule('F.binary-search-sorted', 'std::lower_bound / upper_bound / binary_search / equal_range over the column indices of a CRS row occurs only on a matrix that was passed to sort_rows '
                                      'earlier in the same function (today the library has no such search: the rule is kept alive by a positive control)', 0)
    found_control = False
    for u in list(units.values()) + [control]:
        an = Analyzer([u])
        for f in u.funcs:
            if f.body is None:
                continue
            for c in f.calls():
                if (c.get('f') or '').split('<')[0] not in BSEARCH or not c.get('a'):
                    continue
                first = unwrap(c['a'][0])
                over_col = any(x['k'] == 'mem' and x['n'] == 'col' for x in walk(first))
                if not over_col:
                    # through a local pointer / iterator initialised from X.col
                    for x in walk(first):
                        if x['k'] == 'ref' and f.decl(x['d']).get('k') == 'local':
                            for n in f.nodes.values():
                                if n['k'] == 'decl':
                                    for v in n['v']:
                                        if v['d'] == x['d'] and v.get('init') is not None and any(y['k'] == 'mem' and y['n'] == 'col' for y in walk(v['init'])):
                                            over_col = True
                if not over_col:
                    continue
                mats = [x for x in walk(first) if x['k'] == 'mem' and x['n'] == 'col']
                root = an.root_of_expr(f, mats[0]['b']) if mats and mats[0].get('b') is not None else None
                sorts = [s_ for s_ in f.calls() if (s_.get('f') or '').endswith('sort_rows') and s_['i'] < c['i'] and s_.get('a') and an.root_of_expr(f, s_['a'][0]) == root and root is not None]
                if f.q.startswith('verif_control::'):
                    found_control = found_control or not sorts
                    continue
                if not f.rel().startswith('amgcl/'):
                    continue
                ck.ob('F.binary-search-sorted', '%s|%s' % (f.rel(), f.q), f.where(c), bool(sorts),
                      '' if sorts else 'in %s: %s at %s searches the column indices of a row of `%s`, which was not sorted in this function: on rows in arbitrary order the entry is not found' % (
                          f.full[:80], c['f'].split('<')[0], f.where(c), show(mats[0]['b'])[:30] if mats else '?'))
    if not found_control:
        ck.brk('F.binary-search-sorted: the positive control verif_control::has_entry (tus/controls.cpp) was not recognised - the rule is blind')


# free functions of the builtin backend that are applied to matrices nobody sorted (sub-blocks extracted by the Schur preconditioner,
# shared user matrices of as_preconditioner / zero-copy adapters): they must not rely on the order of the entries in a row
ORDER_FREE_BACKEND_FUNCTIONS = ('diagonal',)


def rule_J(ck, units, floor=2):
    """J.row-scan-order-free: the adapters see the user's matrix as it is - rows in arbitrary order.  A scan over the entries of a row
    (`for (auto a = row_begin(A, i); a; ++a)`) may end early only on an equality (the entry looked for was found), never on an ordering
    comparison of the column with the row index or a bound (`a && a.col() <= i`, `if (a.col() > i) break;`): that is correct on sorted
    rows only."""
    ck.rule('J.row-scan-order-free', 'adapters (amgcl/adapter/**) and backend::diagonal: a scan over a row of the user matrix runs while the iterator is valid and is left early only on an equality test of the '
                                     'column, never on an ordering comparison (rows of a user matrix are not sorted)', floor)
    seen = set()
    for u in units.values():
        for f in u.funcs:
            in_scope = f.rel().startswith('amgcl/adapter/') or (f.rel() == 'amgcl/backend/builtin.hpp' and not f.cls and f.q.split('::')[-1] in ORDER_FREE_BACKEND_FUNCTIONS)
            if f.body is None or not in_scope or (f.file, f.line) in seen:
                continue
            loops = []
            for n in f.nodes.values():
                if n['k'] != 'for' or n.get('init') is None:
                    continue
                its = [v for d in walk(n['init']) if d['k'] == 'decl' for v in d['v'] if v.get('init') is not None
                       and unwrap(v['init'])['k'] == 'call' and ((unwrap(v['init']).get('f') or '').endswith('row_begin') or unwrap(v['init']).get('m') == 'row_begin')]
                if its:
                    loops.append((n, its[0]))
            if not loops:
                continue
            seen.add((f.file, f.line))
            k = 0
            for L, it in loops:
                k += 1

                def col_order_cmp(e):
                    for x in walk(e):
                        if x['k'] == 'bin' and x['op'] in ('<', '>', '<=', '>=') and any(y['k'] == 'call' and y.get('m') == 'col' for y in walk(x)):
                            return x
                    return None
                det = ''
                c = L.get('c')
                bad = col_order_cmp(c) if c is not None else None
                if bad is not None:
                    det = 'the row scan at %s runs only while `%s`: entries stored after the first one that fails the test are never seen' % (f.where(L), show(bad))
                else:
                    # locals holding the column: c = a.col()
                    colvars = {v['d'] for d in walk(L['b']) if d['k'] == 'decl' for v in d['v'] if v.get('init') is not None and any(y['k'] == 'call' and y.get('m') == 'col' for y in walk(v['init']))}
                    for b in walk(L['b']):
                        if b['k'] != 'break':
                            continue
                        inner = [a for a in f.ancestors(b) if a['k'] in ('for', 'while', 'do', 'rfor', 'switch')]
                        if not inner or inner[0] is not L:
                            continue
                        for a in f.ancestors(b):
                            if a is L:
                                break
                            if a['k'] == 'if':
                                for x in walk(a['c']):
                                    if x['k'] == 'bin' and x['op'] in ('<', '>', '<=', '>=') and (any(y['k'] == 'call' and y.get('m') == 'col' for y in walk(x)) or any(y['k'] == 'ref' and y['d'] in colvars for y in walk(x))):
                                        det = 'the row scan at %s is left by `break` when `%s`: that ends the scan correctly only on sorted rows' % (f.where(L), show(x))
                ck.ob('J.row-scan-order-free', '%s|%s#%d' % (f.rel(), '::'.join(f.q.split('::')[-2:]), k), f.where(L), not det, det)


def rule_G(ck, control):
    """moving a CRS matrix (or swapping numa_vectors) hands over every data member - in particular own_data together with the three arrays:
    otherwise borrowed (zero-copy) arrays end up in an object that believes it owns them, and delete[] is called on user memory"""
    ck.rule('G.move-transfers-all', 'the move constructor / move assignment of backend::crs and numa_vector::swap take every data member of the class from the other object '
                                    '(ptr, col, val and own_data travel together)', 3)
    u = control
    recs = {r['q']: r for r in u.records}
    done = set()
    for f in u.funcs:
        if f.body is None or not f.cls or f.cls not in ('amgcl::backend::crs', 'amgcl::backend::numa_vector') or not f.params:
            continue
        name = f.q.split('::')[-1]
        pt = u.type(f.decl(f.params[0]).get('t')) or ''
        is_move = ('&&' in pt) and (f.j.get('ctor') or name == 'operator=')
        is_swap = name == 'swap' and len(f.params) == 1
        if not (is_move or is_swap):
            continue
        key = '%s::%s' % (f.cls, 'move-ctor' if f.j.get('ctor') else name)
        if key in done:
            continue
        done.add(key)
        rec = recs.get(f.cls) or next((r for q, r in recs.items() if q.startswith(f.cls)), None)
        fields = [x['n'] for x in (rec or {}).get('fields', []) if not x.get('static')]
        other = f.params[0]
        mentioned = set()
        roots = [f.body] + [i['e'] for i in f.inits if ir.is_node(i.get('e'))]
        for r in roots:
            for n in walk(r):
                if n['k'] == 'mem' and n.get('b') is not None and unwrap(n['b'])['k'] == 'ref' and unwrap(n['b'])['d'] == other:
                    mentioned.add(n['n'])
        missing = [x for x in fields if x not in mentioned]
        ck.ob('G.move-transfers-all', key, f.where(), bool(fields) and not missing,
              '' if (fields and not missing) else ('record layout not found' if not fields else '%s does not take the member(s) %s from the other object: the arrays change hands without %s' % (
                  key, missing, 'their ownership flag' if 'own_data' in missing else 'them')))


DIMS = ('rows', 'cols', 'nonzeros')
SQUARE_BY_CONCEPT = {('amgcl::adapter::matrix_builder', 'cols'): 'the RowBuilder concept provides rows() and nonzeros() only: a builder describes a square matrix, cols() is its row count by definition'}


def rule_H(ck, units):
    """adapters describe the same operator: the member / trait that reports a dimension forwards to the same dimension of what it wraps"""
    ck.rule('H.dimension-forwarding', 'in every matrix adapter (amgcl::adapter::*, the rows_impl / cols_impl / nonzeros_impl traits) a function that reports rows / cols / nonzeros and asks '
                                      'the wrapped matrix for a dimension asks for the dimension of the same name', 6)
    done = set()
    for u in units.values():
        for f in u.funcs:
            if f.body is None or not f.rel().startswith('amgcl/'):
                continue
            name = f.q.split('::')[-1]
            own = None
            if name in DIMS and f.cls and f.cls.startswith('amgcl::adapter::'):
                own = name
            elif name == 'get' and f.cls and f.cls.startswith('amgcl::backend::') and f.cls.split('::')[-1] in tuple(d + '_impl' for d in DIMS):
                own = f.cls.split('::')[-1][:-5]
            if own is None:
                continue
            asked = []
            for c in f.calls():
                nm = None
                if (c.get('f') or '') in tuple('amgcl::backend::' + d for d in DIMS):
                    nm = c['f'].split('::')[-1]
                elif c.get('m') in DIMS and c.get('obj') is not None:
                    nm = c['m']
                if nm is not None:
                    asked.append((c, nm))
            for x in walk(f.body):
                if x['k'] == 'mem' and x['n'] in ('nrows', 'ncols', 'nnz') and x.get('b') is not None and unwrap(x['b'])['k'] != 'this':
                    asked.append((x, {'nrows': 'rows', 'ncols': 'cols', 'nnz': 'nonzeros'}[x['n']]))
            if not asked:
                continue
            key = '%s|%s' % (f.cls, own)
            if key in done:
                continue
            done.add(key)
            bad = [(c, nm) for c, nm in asked if nm != own]
            # nonzeros may be estimated from rows * something; only an exact mismatch of rows <-> cols is decided
            bad = [(c, nm) for c, nm in bad if {nm, own} == {'rows', 'cols'} and not any(n2 == own for _, n2 in asked)]
            if (f.cls, own) in SQUARE_BY_CONCEPT:
                ck.ob('H.dimension-forwarding', key, f.where(), True, SQUARE_BY_CONCEPT[(f.cls, own)], trivial=True)
                continue
            ck.ob('H.dimension-forwarding', key, f.where(bad[0][0]) if bad else f.where(), not bad,
                  '' if not bad else '%s::%s() reports the number of %s of the wrapped matrix (at %s)' % (f.cls, own if name != 'get' else 'get', bad[0][1], f.where(bad[0][0])))


def rule_I(ck, units, floor=2):
    """an adapter iterator that assembles its current value entry by entry (a block gathered from several scalar rows) starts every assembly
    from a freshly assigned value: each member that is written element-wise in a member function is assigned as a whole earlier on every
    path of that function - otherwise entries of the previous block survive in positions the new block does not store"""
    ck.rule('I.gathered-value-reset', 'in the matrix adapters, a data member that a member function fills element by element (cur_val(i, j) = ..) is assigned as a whole (reset) before, on every path '
                                      'to the first element write of that function', floor)
    done = set()
    for u in units.values():
        for f in u.funcs:
            if f.cfg is None or not f.cls or not f.cls.startswith('amgcl::adapter::') or not f.rel().startswith('amgcl/'):
                continue
            import inline
            f = inline.expand(f, inline.same_class_helper())
            loc = locate(f)
            elems, kills = {}, {}
            for n in f.nodes.values():
                if n['k'] == 'bin' and n['op'] == '=' and n['i'] in loc:
                    lhs = unwrap(n['x'])
                    base = None
                    if lhs is not None and lhs['k'] == 'call' and lhs.get('op') == '()' and lhs.get('obj') is not None:
                        base = unwrap(lhs['obj'])
                    elif lhs is not None and lhs['k'] == 'idx':
                        base = unwrap(lhs['b'])
                    if base is not None and base['k'] == 'mem' and (base.get('b') is None or unwrap(base['b'])['k'] == 'this'):
                        t = u.type(u.decls[base['d']].get('t')) if isinstance(base.get('d'), int) else ''
                        if 'static_matrix' in t or 'Matrix<' in t or 'val_type' in t or 'BlockType' in t:
                            elems.setdefault(base['n'], []).append(n)
                    if lhs is not None and lhs['k'] == 'mem' and (lhs.get('b') is None or unwrap(lhs['b'])['k'] == 'this'):
                        kills.setdefault(lhs['n'], []).append(n)
            for m, ws in elems.items():
                key = '%s|%s|%s' % (f.cls, 'ctor' if f.j.get('ctor') else f.q.split('::')[-1], m)
                if key in done:
                    continue
                done.add(key)
                kb = {loc[k_['i']] for k_ in kills.get(m, [])}
                target = min(ws, key=lambda n: n['i'])
                tb, tpos = loc[target['i']]
                # must-analysis: is a whole assignment of m executed on every path from entry to the first element write?
                cfg = f.cfg

                def transfer(b, st):
                    if any(bb == b for bb, _ in kb):
                        return frozenset({'K'})
                    return st
                IN, OUT = cfg.forward(frozenset(), transfer, join=lambda a, b_: a & b_)
                ok = 'K' in IN.get(tb, frozenset()) or any(bb == tb and pp < tpos for bb, pp in kb)
                ck.ob('I.gathered-value-reset', key, f.where(target), ok,
                      '' if ok else 'in %s: the member `%s` is filled element by element from %s on without being assigned as a whole first: entries of the previously gathered value remain where the new one stores nothing' % (
                          f.full[:80], m, f.where(target)))


def rule_E_adapter(ck, units):
    """the adapter itself: its row iterator gathers a block by advancing each scalar row's cursor while col < end of the current block
    column - correct only for sorted rows - and the adapter neither sorts nor checks its input"""
    done = False
    for u in units.values():
        for f in u.funcs:
            if done or not (f.cls == 'amgcl::adapter::block_matrix_adapter::row_iterator' and f.j.get('ctor') and f.body is not None):
                continue
            gathers = [n for n in walk(f.body) if n['k'] == 'for' and n.get('init') is None and n.get('c') is not None
                       and any(x['k'] == 'bin' and x['op'] == '<' and any(y['k'] == 'call' and y.get('m') == 'col' for y in walk(x['x'])) for x in walk(n['c']))]
            guards = [c for g in u.funcs if g.cls and g.cls.startswith('amgcl::adapter::block_matrix_adapter') and g.body is not None for c in g.calls()
                      if (c.get('f') or '').endswith(('sort_rows', 'is_sorted')) or ((c.get('f') or '') == 'amgcl::precondition' and 'sort' in show(c).lower())]
            if not gathers:
                continue
            done = True
            ok = bool(guards)
            ck.ob('E.block-adapter-sorted', 'amgcl/adapter/block_matrix.hpp|amgcl::adapter::block_matrix_adapter::row_iterator|input-order', f.where(gathers[0]), ok,
                  '' if ok else 'adapter::block_matrix applied directly to a matrix whose row entries are not sorted by column does not describe the same operator: the row iterator gathers a block by '
                                'advancing one cursor per scalar row while col < end of the block column (at %s), and the adapter neither sorts nor checks its input' % f.where(gathers[0]))


def main(tier):
    ck = Check('C17', tier, 'C17 (clauses): private copies of user matrices are sorted on entry, caller-owned matrices are never modified, borrowed arrays are never copied or freed.')
    T = os.path.join(ir.VERIF, 'tus')
    names = ['rt_builtin', 'composite'] if tier == 'quick' else ['rt_builtin', 'composite', 'vt_float', 'vt_complex', 'vt_block', 'be_block_crs', 'be_eigen', 'mpi_rt']
    specs = [dict(name=n, src=os.path.join(T, n + '.cpp'), mpi=(n == 'mpi_rt')) for n in names]
    units = ir.run_units(specs, 'C17')
    ck.add_units(units, specs)
    rule_A(ck, units)
    rule_B(ck, units)
    rule_C(ck, units)
    rule_D(ck, units)
    rule_E(ck, units, floor=2)
    rule_E_adapter(ck, units)
    cu = ir.run_units([dict(name='controls', src=os.path.join(T, 'controls.cpp'))], 'C17c')
    rule_F(ck, units, cu['controls'])
    rule_G(ck, cu['controls'])
    rule_C2(ck, units, cu['controls'])
    rule_H(ck, units)
    rule_I(ck, units)
    rule_J(ck, units)
    ck.assumptions += ['that adapters expose the same entries (rows/cols/nonzeros, spmv agreement) and the algebra of reorder / scaled_problem are not decided']
    return ck.finish()
