"""C01 - reported convergence is truthful (DESIGN.md 4, C01): budget and report clauses.

A  iteration budget: every modification of the returned counter k is guarded by
   k < prm.maxiter since the previous modification and the step is 1 (<= L for
   BiCGStab(L)); hence k <= maxiter (+ L - 1) at every return.
B  report: the second tuple element is R / N with N = norm(rhs); R is the
   variable the convergence test compares with eps; R is fresh w.r.t. the last
   update of the solution accumulator; for the restarted methods R is the norm
   of a freshly recomputed true residual.
"""
import os

import ir
import inline
from ir import walk, unwrap, show, access_path
from effects import PRIMS, prim_name, classify_coef, uses_of, aliases_of, locate
from framework import Check

SOLVERS = ['cg', 'bicgstab', 'bicgstabl', 'gmres', 'fgmres', 'lgmres', 'idrs', 'richardson']
# solution accumulators per solver (E1 slot table, DESIGN C01-B); default: parameter x
ACCUMULATORS = {
    'bicgstabl': [('this', ('X',))],                    # x += X only after label done
    'idrs': [('param', 3), ('this', ('x_s',))],         # smoothed iterate when prm.smoothing
}
RECOMPUTING = {'gmres', 'fgmres', 'lgmres', 'richardson'}  # residual is recomputed from x before every test


def solver_functions(units):
    for u in units.values():
        for f in u.funcs:
            if f.cls and f.cls.startswith('amgcl::solver::') and f.q.endswith('::operator()') and len(f.params) == 4 and f.cfg:
                name = f.cls.split('::')[-1]
                if name in SOLVERS:
                    # private helpers of the solver class (extracted methods) are analysed as part of operator()
                    yield name, inline.expand(f, inline.same_class_helper(keep=('norm', 'operator()')))


def modifications(f, d):
    """nodes that modify local variable d: ++/--, compound assignment, plain assignment"""
    out = []
    for n in f.nodes.values():
        if n['k'] == 'un' and n['op'] in ('++', '--'):
            e = unwrap(n['e'])
            if e['k'] == 'ref' and e['d'] == d:
                out.append((n, 'lit1' if n['op'] == '++' else 'neg'))
        elif n['k'] == 'bin' and n['op'] in ('+=', '-=', '*=', '/=', '='):
            x = unwrap(n['x'])
            if x is not None and x['k'] == 'ref' and x['d'] == d:
                out.append((n, n))
    return out


def less_than_edge(cond):
    """for a comparison condition returns [(succ_index, var_decl, bound_text, var_is_preinc)] facts 'var < bound'"""
    c = unwrap(cond)
    res = []
    if c is None or c['k'] != 'bin' or c['op'] not in ('<', '>', '<=', '>='):
        return res
    x, y = unwrap(c['x']), unwrap(c['y'])

    def var(n):
        if n['k'] == 'ref':
            return n['d']
        if n['k'] == 'un' and n['op'] == '++' and not n.get('post'):
            e = unwrap(n['e'])
            if e['k'] == 'ref':
                return e['d']
        return None
    op = c['op']
    # x < y : true edge gives x<y ; x >= y : false edge gives x<y ; y > x ; y <= x
    if op == '<' and var(x) is not None:
        res.append((0, var(x), show(y)))
    if op == '>=' and var(x) is not None:
        res.append((1, var(x), show(y)))
    if op == '>' and var(y) is not None:
        res.append((0, var(y), show(x)))
    if op == '<=' and var(y) is not None:
        res.append((1, var(y), show(x)))
    return res


def rule_A(ck, name, f):
    key = 'amgcl::solver::' + name
    rets = f.returns()
    ks = set()
    for r in rets:
        tup = ir.tuple_node(r['e'])
        if tup is None:
            ck.ob('A.budget', key, f.where(r), False, 'return is not std::make_tuple(iterations, residual)')
            return None
        a0 = unwrap(tup['a'][0])
        if a0['k'] == 'ref':
            ks.add(a0['d'])
        elif a0['k'] == 'lit' and a0['v'] == '0':
            pass
        else:
            ck.ob('A.budget', key, f.where(r), False, 'iteration count returned is `%s`, not a counter variable' % show(a0))
            return None
    if len(ks) != 1:
        ck.ob('A.budget', key, f.where(), False, 'cannot identify a unique iteration counter: %s' % [f.decl(d)['n'] for d in ks])
        return None
    k = next(iter(ks))
    kname = f.decl(k)['n']
    loc = locate(f)
    cfg = f.cfg
    mods = modifications(f, k)
    # modifications of every variable (for killing v < bound facts)
    allmods = {}
    for n in f.nodes.values():
        tgt = None
        if n['k'] == 'un' and n['op'] in ('++', '--'):
            tgt = unwrap(n['e'])
        elif n['k'] == 'bin' and n['op'] in ('+=', '-=', '*=', '/=', '='):
            tgt = unwrap(n['x'])
        if tgt is not None and tgt['k'] == 'ref' and n['i'] in loc:
            allmods.setdefault(loc[n['i']][0], []).append((loc[n['i']][1], n['i'], tgt['d'], n))
    decls = {}
    for n in f.nodes.values():
        if n['k'] == 'decl' and n['i'] in loc:
            for v in n['v']:
                allmods.setdefault(loc[n['i']][0], []).append((loc[n['i']][1], n['i'], v['d'], n))
    for b in allmods:
        allmods[b].sort(key=lambda t: (t[0], t[1]))
    findings = []
    facts_at = {}
    # boolean flags: locals every definition of which is a literal true / false.  The analysis is path-sensitive in
    # their values (a state is a set of (flag valuation, facts) pairs; facts are intersected per valuation), so
    # `flag = true; break; ... if (flag) break;` does not leak the facts of the flagged path into the other one.
    flags = {}
    for b_, lst in allmods.items():
        for pos, nid, d, n in lst:
            val = None
            if n['k'] == 'decl':
                for v in n['v']:
                    if v['d'] == d and v.get('init') is not None:
                        val = unwrap(v['init'])
            elif n['k'] == 'bin' and n['op'] == '=':
                val = unwrap(n['y'])
            isbool = val is not None and val['k'] == 'lit' and val.get('t') == 'bool'
            if isbool and flags.get(d, True) is not False:
                flags[d] = True
            else:
                flags[d] = False
    flags = {d for d, okf in flags.items() if okf}

    def flag_value(n, d):
        if n['k'] == 'decl':
            for v in n['v']:
                if v['d'] == d and v.get('init') is not None:
                    return unwrap(v['init'])['v'] == 'true'
        return unwrap(n['y'])['v'] == 'true'

    def transfer(b, states, record=False):
        out = {}
        for val, st in states:
            val = dict(val)
            st = set(st)
            for pos, nid, d, n in allmods.get(b, ()):
                if record and d == k and n['k'] != 'decl':
                    facts_at[nid] = (facts_at[nid] & frozenset(st)) if nid in facts_at else frozenset(st)
                st = {(v, bd) for (v, bd) in st if v != d}
                if d in flags:
                    val[d] = flag_value(n, d)
            kv = tuple(sorted(val.items()))
            out[kv] = (out[kv] & frozenset(st)) if kv in out else frozenset(st)
        return frozenset(out.items())

    def edge(b, kk, s, states):
        c = cfg.cond(b)
        if c is None:
            return states
        cu = unwrap(c)
        neg = False
        while cu is not None and cu['k'] == 'un' and cu['op'] == '!':
            neg = not neg
            cu = unwrap(cu['e'])
        out = []
        for val, st in states:
            if cu is not None and cu['k'] == 'ref' and cu['d'] in flags:
                known = dict(val).get(cu['d'])
                if known is not None:
                    taken_true = (known != neg)
                    if (kk == 0) != taken_true:
                        continue      # infeasible for this valuation
            add = [(v, bd) for (si, v, bd) in less_than_edge(c) if si == kk]
            out.append((val, frozenset(set(st) | set(add))) if add else (val, st))
        if not out:
            return None
        return frozenset(out)

    def join(a, b_):
        m = dict(a)
        for val, st in b_:
            m[val] = (m[val] & st) if val in m else st
        return frozenset(m.items())

    IN, OUT = cfg.forward(frozenset([((), frozenset())]), transfer, edge=edge, join=join)
    for b, st in IN.items():
        transfer(b, st, record=True)
    ok_all = True
    for n, step in mods:
        st = facts_at.get(n['i'])
        if st is None:
            continue  # unreachable
        guard = [bd for (v, bd) in st if v == k and bd.endswith('maxiter')]
        det = ''
        if not guard:
            det = 'counter `%s` is modified at %s without `%s < prm.maxiter` established since its previous modification' % (kname, f.where(n), kname)
        # step
        if step == 'lit1':
            pass
        elif step == 'neg':
            det = det or 'counter is decremented at %s' % f.where(n)
        else:
            e = unwrap(step['y'])
            op = step['op']
            if op != '+=':
                det = det or 'counter is modified by `%s` at %s' % (show(step), f.where(n))
            else:
                lits = classify_coef(f, e)
                if lits == 'identity':
                    pass
                elif name == 'bicgstabl' and show(e) in ('L', 'prm.L'):
                    pass
                elif name == 'bicgstabl' and e['k'] == 'bin' and e['op'] == '+' and classify_coef(f, e['y']) == 'identity' and unwrap(e['x'])['k'] == 'ref' and \
                        any(v == unwrap(e['x'])['d'] and bd in ('L', 'prm.L') for (v, bd) in st):
                    pass
                else:
                    det = det or 'counter advances by `%s` at %s, which is not bounded by 1%s' % (show(e), f.where(n), ' (or L)' if name == 'bicgstabl' else '')
        if det:
            ok_all = False
            findings.append(det)
    ck.ob('A.budget', key, f.where(), ok_all and bool(mods), '; '.join(findings[:3]) if findings else ('' if mods else 'counter is never modified'))
    return k


def counter_decl(f):
    """the local returned as first tuple element at every non-literal return, else None"""
    ks = set()
    for r in f.returns():
        tup = ir.tuple_node(r['e'])
        if tup is None:
            return None
        a0 = unwrap(tup['a'][0])
        if a0['k'] == 'ref':
            ks.add(a0['d'])
        elif not (a0['k'] == 'lit' and a0['v'] == '0'):
            return None
    return next(iter(ks)) if len(ks) == 1 else None

# loops whose iterations are counted in bulk by the enclosing loop (reason per entry)
BULK_COUNTED = {
    # bicgstabl: the BiCG part runs j = 0..L-1 and the enclosing iteration adds L (`iter += L`), the early exit inside it adds j+1
    'bicgstabl': 'L',
}


def rule_counted(ck, name, f, k):
    """A2: every CFG cycle through an application of the system matrix (backend::spmv(., A, ...), preconditioner::spmv(side, P, A, ...);
    for a method without one: backend::residual(rhs, A, x, .)) passes through a modification of the returned counter."""
    key = 'amgcl::solver::' + name
    cfg = f.cfg
    loc = locate(f)
    al = alias_roots(f)
    A_root = ('param', 0)

    def is_A(e):
        return root_key(f, e, al) == A_root
    spmvs, resids = [], []
    for n in f.nodes.values():
        if n['k'] != 'call' or n['i'] not in loc:
            continue
        if any(a['k'] == 'lambda' for a in f.ancestors(n)):
            continue
        pr = prim_name(n)
        args = n.get('a', [])
        if pr == 'spmv' and len(args) > 1 and is_A(args[1]):
            spmvs.append(n)
        elif n.get('f') == 'amgcl::preconditioner::spmv' and len(args) == 6 and is_A(args[2]):
            spmvs.append(n)
        elif pr == 'residual' and len(args) > 1 and is_A(args[1]):
            resids.append(n)
    events = spmvs or resids
    modpos = {}
    for n, _ in modifications(f, k):
        if n['i'] in loc:
            b, p = loc[n['i']]
            modpos.setdefault(b, []).append(p)
    # bulk-counted loops `for (j ...; j < L; ...)`: accepted only when an enclosing loop's increment adds the same bound to the counter
    bulk = BULK_COUNTED.get(name)
    bulk_loops = []
    if bulk:
        for n in f.nodes.values():
            if n['k'] != 'for' or n.get('c') is None:
                continue
            c = unwrap(n['c'])
            if not (c['k'] == 'bin' and c['op'] == '<' and show(unwrap(c['y'])) in (bulk, 'prm.' + bulk)):
                continue
            for a_ in f.ancestors(n):
                iu = unwrap(a_['inc']) if a_['k'] == 'for' and a_.get('inc') is not None else None
                if iu is not None and iu['k'] == 'bin' and iu['op'] == '+=' and unwrap(iu['x'])['k'] == 'ref' and unwrap(iu['x'])['d'] == k \
                        and show(unwrap(iu['y'])) in (bulk, 'prm.' + bulk):
                    bulk_loops.append({loc[x['i']][0] for x in walk(n) if x['i'] in loc})
                    break
    bad = []
    n_cycles = 0
    for ev in events:
        B, P = loc[ev['i']]
        in_loop = False
        # search: from just after (B, P) along CFG edges; a block with a counter modification ends the path
        seen = set()
        stack = []
        later = [p for p in modpos.get(B, []) if p > P]
        if not later:
            stack.extend(s for s in cfg.succ[B] if s is not None)
        found = None
        parent = {}
        while stack:
            b = stack.pop()
            if b == B:
                if not [p for p in modpos.get(B, []) if p <= P]:
                    found = True
                    break
                continue
            if b in seen:
                continue
            seen.add(b)
            if modpos.get(b):
                continue
            for s in cfg.succ[b]:
                if s is not None:
                    stack.append(s)
        # is the event in a cycle at all?
        reach = set()
        st2 = [s for s in cfg.succ[B] if s is not None]
        while st2:
            b = st2.pop()
            if b in reach:
                continue
            reach.add(b)
            st2.extend(s for s in cfg.succ[b] if s is not None)
        in_loop = B in reach
        if in_loop:
            n_cycles += 1
        inside = [bl for bl in bulk_loops if B in bl]
        if found and inside:
            # counted in bulk: only a cycle that leaves the bulk loop and comes back uncounted is a violation
            found = _cycle_outside_bulk(cfg, modpos, min(inside, key=len))
        if found:
            bad.append('%s at %s can be executed again without `%s` having been modified' % (show(ev)[:60], f.where(ev), f.decl(k)['n']))
    ok = not bad and n_cycles > 0
    ck.ob('A2.work-counted', key, f.where(), ok, '; '.join(bad[:3]) if bad else ('' if n_cycles else 'no application of A inside a loop found'))


def _cycle_outside_bulk(cfg, modpos, ev_for):
    """for an event inside a bulk-counted loop (blocks ev_for): is there an uncounted cycle that leaves the bulk loop and re-enters it?"""
    # leave the bulk loop, then look for a way back to B avoiding counter modifications
    seen = set()
    stack = []
    for b in ev_for:
        for s in cfg.succ[b]:
            if s is not None and s not in ev_for:
                stack.append(s)
    while stack:
        b = stack.pop()
        if b in seen:
            continue
        seen.add(b)
        if b in ev_for:
            return True
        if modpos.get(b):
            continue
        stack.extend(s for s in cfg.succ[b] if s is not None)
    return False


def alias_roots(f):
    """local reference variables bound to a member vector: decl -> root key"""
    m = {}
    for n in f.nodes.values():
        if n['k'] == 'decl':
            for v in n['v']:
                dd = f.decl(v['d'])
                if dd.get('ref') and v.get('init') is not None:
                    ap = access_path(v['init'])
                    if ap is not None:
                        m[v['d']] = ap
    return m


def root_key(f, e, al):
    ap = access_path(e)
    if ap is None:
        return None
    kind, d, path = ap
    seen = 0
    while kind == 'var' and d in al and seen < 5:
        k2, d2, p2 = al[d]
        kind, d, path = k2, d2, p2 + path
        seen += 1
    if kind == 'var':
        pi = f.param_index(d)
        if pi is not None:
            return ('param', pi)
        return ('var', d)
    return ('this', path[:1])


def helper_of(f, call):
    """the same-class member function with a body that `call` invokes on *this (not norm / inner products), else None"""
    if call.get('k') != 'call' or 'fd' not in call:
        return None
    g = f.unit.by_id.get(call['fd'])
    if g is None or g is f or g.body is None or g.cls != f.cls or not f.cls:
        return None
    obj = call.get('obj')
    if obj is not None and unwrap(obj)['k'] != 'this':
        return None
    if g.q.split('::')[-1] in ('norm', 'operator()'):
        return None
    return g


def map_root(r, argroots, g):
    if r is None:
        return None
    if r[0] == 'param':
        return argroots[r[1]] if r[1] < len(argroots) else None
    if r[0] == 'var':
        return ('var', (g.id, r[1]))
    return r


def helper_events(f, g, argroots, rhs_d, A_d, depth=0):
    """vector effects of helper g in source order, with its parameters replaced by the caller's argument roots"""
    out = []
    if depth > 3:
        return out
    alg = alias_roots(g)
    for n in sorted(g.nodes.values(), key=lambda t: t['i']):
        if n['k'] != 'call':
            continue
        pr = prim_name(n)
        if pr is not None:
            ci, oi = PRIMS[pr]
            outr = map_root(root_key(g, n['a'][oi], alg), argroots, g)
            coef = classify_coef(g, n['a'][ci]) if ci is not None else 'zero'
            if pr == 'residual':
                out.append(('write', (outr, 'other', None)))
            else:
                out.append(('write', (outr, 'update' if coef != 'zero' else 'overwrite', None)))
        elif n.get('m') == 'apply' and len(n.get('a', [])) == 2 and 'obj' in n:
            out.append(('write', (map_root(root_key(g, n['a'][1], alg), argroots, g), 'apply', map_root(root_key(g, n['a'][0], alg), argroots, g))))
        elif n.get('f') == 'amgcl::preconditioner::spmv' and len(n.get('a', [])) == 6:
            out.append(('write', (map_root(root_key(g, n['a'][4], alg), argroots, g), 'overwrite', None)))
            out.append(('write', (map_root(root_key(g, n['a'][5], alg), argroots, g), 'overwrite', None)))
        else:
            h = helper_of(g, n)
            if h is not None:
                sub = [map_root(root_key(g, a, alg), argroots, g) for a in n.get('a', [])]
                out.extend(helper_events(f, h, sub, rhs_d, A_d, depth + 1))
    return out


def helper_norm_root(f, init, al):
    """`R = helper(args)` where every return of the helper is norm(v): the root of v in the caller, else None"""
    e = unwrap(init)
    g = helper_of(f, e) if e is not None else None
    if g is None:
        return None
    alg = alias_roots(g)
    roots = set()
    for r in g.returns():
        x = unwrap(r['e'])
        if not (x['k'] == 'call' and x.get('m') == 'norm' and len(x.get('a', [])) == 1):
            return None
        roots.add(map_root(root_key(g, x['a'][0], alg), [root_key(f, a, al) for a in e.get('a', [])], g))
    return next(iter(roots)) if len(roots) == 1 else None


def rule_B(ck, name, f, kdecl):
    key = 'amgcl::solver::' + name
    cfg = f.cfg
    loc = locate(f)
    al = alias_roots(f)
    rhs_d, A_d, x_d = f.params[2], f.params[0], f.params[3]
    # ---- B1: form of the reported value
    rets = f.returns()
    R = N = None
    early, final = [], []
    for r in rets:
        tup = ir.tuple_node(r['e'])
        a0, a1 = unwrap(tup['a'][0]), unwrap(tup['a'][1])
        if a0['k'] == 'lit':
            early.append((r, a1))
            continue
        final.append(r)
        ok = a1['k'] == 'bin' and a1['op'] == '/' and unwrap(a1['x'])['k'] == 'ref' and unwrap(a1['y'])['k'] == 'ref'
        if not ok:
            ck.ob('B1.report-form', key, f.where(r), False, 'reported residual is `%s`, not <residual norm> / <norm of rhs>' % show(a1))
            return
        R, N = unwrap(a1['x'])['d'], unwrap(a1['y'])['d']
    if R is None:
        ck.ob('B1.report-form', key, f.where(), False, 'no non-trivial return')
        return

    def defs(d):
        out = []
        for n in f.nodes.values():
            if n['k'] == 'decl':
                for v in n['v']:
                    if v['d'] == d and v.get('init') is not None:
                        out.append((n, v['init']))
            if n['k'] == 'bin' and n['op'] == '=' and unwrap(n['x'])['k'] == 'ref' and unwrap(n['x'])['d'] == d:
                out.append((n, n['y']))
        return out

    def is_norm_of(e, depth=0):
        e = unwrap(e)
        if e['k'] == 'ref' and depth < 3 and f.decl(e['d']).get('k') == 'local':
            # copy of a local that is defined exactly once, by a norm (scalar_type zeta = zeta0;)
            ds = defs(e['d'])
            if len(ds) == 1:
                return is_norm_of(ds[0][1], depth + 1)
            return None
        if e['k'] == 'call' and (e.get('m') == 'norm') and unwrap(e.get('obj') or {'k': 'this'})['k'] == 'this' and len(e.get('a', [])) == 1:
            return e['a'][0]
        return None
    ndefs = defs(N)
    okN = any(is_norm_of(init) is not None and unwrap(is_norm_of(init))['k'] == 'ref' and unwrap(is_norm_of(init))['d'] == rhs_d for _, init in ndefs)
    ck.ob('B1.report-form', key, f.where(final[0]), okN, '' if okN else 'denominator `%s` is not norm(rhs)' % f.decl(N)['n'])
    # ---- B2: R is what the convergence test compares with eps
    eps_d = None
    for n in f.nodes.values():
        if n['k'] == 'decl':
            for v in n['v']:
                if v['n'] == 'eps' and v.get('init') is not None:
                    names = {x.get('n') for x in walk(v['init'])}
                    if {'tol', 'abstol'} <= names and any(x['k'] == 'ref' and x['d'] == N for x in walk(v['init'])):
                        eps_d = v['d']
    tested = set()
    if eps_d is not None:
        for b in cfg.blocks:
            c = cfg.cond(b)
            if c is None:
                continue
            c = unwrap(c)
            if c['k'] == 'bin' and c['op'] in ('<', '>', '<=', '>='):
                refs_x = {x['d'] for x in walk(c['x']) if x['k'] == 'ref'}
                refs_y = {x['d'] for x in walk(c['y']) if x['k'] == 'ref'}
                if eps_d in refs_y:
                    tested |= refs_x
                if eps_d in refs_x:
                    tested |= refs_y
    ok = eps_d is not None and R in tested
    ck.ob('B2.tested-is-reported', key, f.where(), ok, '' if ok else (
        'no eps = max(tol * norm_rhs, abstol)' if eps_d is None else 'reported variable `%s` is not the one compared with eps (compared: %s)' % (f.decl(R)['n'], sorted(f.decl(d)['n'] for d in tested))))
    # ---- B3/B4: freshness dataflow
    accs = ACCUMULATORS.get(name, [('param', 3)])
    events = {}   # block -> [(pos, nid, kind, payload)]

    def add(n, kind, payload=None):
        if n['i'] in loc:
            b, pos = loc[n['i']]
            events.setdefault(b, []).append((pos, n['i'], kind, payload))
    for n in f.nodes.values():
        if n['k'] == 'call':
            pr = prim_name(n)
            if pr is not None:
                ci, oi = PRIMS[pr]
                out = root_key(f, n['a'][oi], al)
                coef = classify_coef(f, n['a'][ci]) if ci is not None else 'zero'
                if pr == 'residual':
                    a = n['a']
                    true_res = (unwrap(a[0])['k'] == 'ref' and unwrap(a[0])['d'] == rhs_d and unwrap(a[1])['k'] == 'ref' and unwrap(a[1])['d'] == A_d
                                and root_key(f, a[2], al) == ('param', 3))
                    add(n, 'write', (out, 'trueres' if true_res else 'other', None))
                else:
                    add(n, 'write', (out, 'update' if coef != 'zero' else 'overwrite', None))
            elif n.get('m') == 'apply' and len(n.get('a', [])) == 2 and 'obj' in n:
                # P.apply(in, out): out := P in
                add(n, 'write', (root_key(f, n['a'][1], al), 'apply', root_key(f, n['a'][0], al)))
            elif n.get('f') == 'amgcl::preconditioner::spmv' and len(n.get('a', [])) == 6:
                add(n, 'write', (root_key(f, n['a'][4], al), 'overwrite', None))
                add(n, 'write', (root_key(f, n['a'][5], al), 'overwrite', None))
            else:
                # a private helper of the solver class (extracted method): its vector effects happen at the call
                g = helper_of(f, n)
                if g is not None:
                    argroots = [root_key(f, a, al) for a in n.get('a', [])]
                    for kind, payload in helper_events(f, g, argroots, rhs_d, A_d):
                        add(n, kind, payload)
    for n, init in defs(R):
        w = is_norm_of(init)
        if w is not None:
            add(n, 'defR', root_key(f, w, al))
        else:
            add(n, 'defR', helper_norm_root(f, init, al))
    for b in events:
        events[b].sort(key=lambda t: (t[0], t[1]))

    # state: (fresh: (last def of R is a norm, no accumulator update since), truth: bool, trueres roots: frozenset)
    def transfer(b, st):
        return transfer_partial(events.get(b, ()), st, accs)

    def transfer_old(b, st):
        fresh, truth, tr = st
        tr = set(tr)
        for pos, nid, kind, p in events.get(b, ()):
            if kind == 'write':
                out, how, src = p
                if how == 'trueres':
                    tr.add(out)
                elif how == 'apply' and src in tr:
                    tr.add(out)
                else:
                    tr.discard(out)
                if out in accs and how == 'update':
                    fresh = False
                    tr.clear()
                if out == ('param', 3) and how in ('update', 'overwrite'):
                    tr.clear()
            elif kind == 'defR':
                fresh = p is not None
                truth = p is not None and p in tr
        return (fresh, truth, frozenset(tr))

    def join(a, b_):
        return ((a[0][0] and b_[0][0], a[0][1] and b_[0][1]), a[1] and b_[1], a[2] & b_[2])
    IN, OUT = cfg.forward(((False, True), False, frozenset()), transfer, join=join)
    for r in final:
        if r['i'] not in loc:
            continue
        b = loc[r['i']][0]
        st = IN.get(b)
        if st is None:
            continue
        # state at the return = transfer of events before it in the block
        fresh, truth, tr = st
        tr = set(tr)
        evs = [e for e in events.get(b, ()) if e[0] < loc[r['i']][1]]
        cur = transfer_partial(evs, (fresh, truth, frozenset(tr)), accs)
        isnorm, noupd = cur[0]
        det = ''
        if not isnorm:
            det = 'on some path the definition of `%s` that reaches the return is not a norm(.) of a residual vector' % f.decl(R)['n']
        elif not noupd:
            det = 'on some path the solution accumulator is updated after the last `%s = norm(...)`; the reported residual is stale' % f.decl(R)['n']
        ck.ob('B3.fresh', key, f.where(r), isnorm and noupd, det)
        if name in RECOMPUTING:
            ck.ob('B4.true-residual', key, f.where(r), cur[1], '' if cur[1] else
                  'the reported `%s` is not on every path the norm of residual(rhs, A, x, .) recomputed after the last update of x' % f.decl(R)['n'])
    # early returns: (0, norm_rhs) or (0, R / N)
    for r, a1 in early:
        ok = (a1['k'] == 'ref' and a1['d'] == N) or (a1['k'] == 'bin' and a1['op'] == '/' and unwrap(a1['x'])['k'] == 'ref' and unwrap(a1['x'])['d'] == R)
        ck.ob('B1.report-form', key + '|early', f.where(r), ok, '' if ok else 'early return reports `%s`' % show(a1))


# ---------------------------------------------------------------- B5 / B6
LOCKSTEP = ['cg', 'bicgstab', 'idrs']


def coef_text(f, e):
    e = unwrap(e)
    neg = False
    while e is not None and e['k'] == 'un' and e['op'] == '-':
        neg = not neg
        e = unwrap(e['e'])
    return show(e), neg


def guards_of(f, n):
    """conditions (text, '!' prefix for the else branch) of the if statements around n; a const bool local that is defined once stands for
    its initialiser (`const bool left = (prm.pside == side::left); if (left) ...`)"""
    import idioms
    g = []
    cur = n
    for a in f.ancestors(n):
        if a['k'] == 'if':
            in_then = a.get('t') is not None and any(x is cur for x in walk(a['t']))
            c = a['c']
            neg = ''
            cu = unwrap(c)
            while cu is not None and cu['k'] == 'un' and cu['op'] == '!':
                neg = '' if neg else '!'
                cu = unwrap(cu['e'])
            if cu is not None and cu['k'] == 'ref':
                r = idioms._resolve_local(f, cu)
                if r is not cu:
                    c = r
                    pol = in_then != bool(neg)
                    g.append(('' if pol else '!') + show(unwrap(c)))
                    cur = a
                    continue
            g.append(('' if in_then else '!') + show(a['c']))
        cur = a
    return g


def rule_lockstep(ck, name, f):
    """solution and carried residual move in lock-step: every  x += c D  is paired with  r -= c V  where V is the image of D
    under the (preconditioned) operator: V = A D by backend::spmv, or V from preconditioner::spmv(side, P, A, F, V, T) with D = F
    for left and D = T for right preconditioning.  Necessary for the carried residual to be the residual of the returned x."""
    key = 'amgcl::solver::' + name
    al = alias_roots(f)
    x_root = ('param', 3)
    prims = [n for n in f.nodes.values() if n['k'] == 'call' and prim_name(n)]
    # operator images: V -> list of (D candidates with guard requirement)
    images = []   # (Vroot, Droot, required guard text or None, node)
    for n in f.nodes.values():
        if n['k'] != 'call':
            continue
        if prim_name(n) == 'spmv':
            a = n['a']
            if root_key(f, a[1], al) == ('param', 0) and classify_coef(f, a[0]) == 'identity' and classify_coef(f, a[3]) == 'zero':
                images.append((root_key(f, a[4], al), root_key(f, a[2], al), None, n))
        elif n.get('f') == 'amgcl::preconditioner::spmv' and len(n.get('a', [])) == 6:
            a = n['a']
            V = root_key(f, a[4], al)
            images.append((V, root_key(f, a[3], al), 'left', n))
            images.append((V, root_key(f, a[5], al), 'right', n))
    updates = []
    for n in prims:
        pr = prim_name(n)
        if pr == 'axpby' and root_key(f, n['a'][3], al) == x_root and classify_coef(f, n['a'][2]) == 'identity':
            c, neg = coef_text(f, n['a'][0])
            updates.append((n, c, neg, root_key(f, n['a'][1], al)))
    dets = []
    npairs = 0
    for n, c, neg, D in updates:
        # the paired residual update: axpby(-c, V, one, R) or axpbypcz(one, R, -c, V, zero, S)
        partner = None
        for m in prims:
            pr = prim_name(m)
            if pr == 'axpby' and m is not n:
                c2, neg2 = coef_text(f, m['a'][0])
                if c2 == c and neg2 != neg and classify_coef(f, m['a'][2]) == 'identity' and root_key(f, m['a'][3], al) != x_root:
                    partner = (m, root_key(f, m['a'][1], al))
            elif pr == 'axpbypcz':
                c2, neg2 = coef_text(f, m['a'][2])
                if c2 == c and neg2 != neg and classify_coef(f, m['a'][0]) == 'identity' and classify_coef(f, m['a'][4]) == 'zero':
                    partner = (m, root_key(f, m['a'][3], al))
        if partner is None:
            dets.append('the update of x by `%s` at %s has no matching residual update with coefficient -(%s)' % (c, f.where(n), c))
            continue
        npairs += 1
        m, V = partner
        g = guards_of(f, n)
        side = None
        for t in g:
            if 'pside' in t and 'left' in t:
                side = 'right' if t.startswith('!') else 'left'
        cands = [(Dr, req, im) for (Vr, Dr, req, im) in images if Vr == V]
        ok = any(Dr == D and (req is None or req == side) for (Dr, req, im) in cands)
        if not ok:
            want = sorted({str(Dr) for (Dr, req, im) in cands if req is None or req == side})
            dets.append('x is updated by %s * %s at %s but the residual is updated by the same coefficient times %s, which is the operator image of %s%s: '
                        'the carried residual no longer belongs to x' % (c, D, f.where(n), V, want or 'nothing', (' for %s preconditioning' % side) if side else ''))
    ck.ob('B5.lock-step', key, f.where(), not dets and npairs > 0, '; '.join(dets[:2]) if dets else ('' if npairs else 'no paired updates found'))
    if name == 'idrs':
        # B6: the two residual-smoothing blocks are the same code
        import json
        import c02
        # the smoothing blocks: `if (prm.smoothing) ...` inside the iteration loops (the code itself or a call of a helper that holds it)
        blocks = [n for n in f.nodes.values() if n['k'] == 'if' and show(n['c']) == 'prm.smoothing' and any(a['k'] in ('for', 'while', 'do') for a in f.ancestors(n))
                  and any(c_['k'] == 'call' and (prim_name(c_) or helper_of(f, c_) is not None) for c_ in walk(n['t']))]
        forms = [json.dumps(c02.norm_tree(f, b['t'], {}), sort_keys=True) for b in blocks]
        ok = len(forms) == 2 and forms[0] == forms[1]
        ck.ob('B6.smoothing-siblings', key, f.where(blocks[-1]) if blocks else f.where(), ok,
              '' if ok else ('the residual-smoothing blocks after the inner update (%s) and after the omega step (%s) differ' % tuple(f.where(b) for b in blocks[:2]) if len(blocks) == 2
                             else 'expected two residual-smoothing blocks, found %d' % len(blocks)))


def transfer_partial(evs, st, accs):
    fresh, truth, tr = st
    tr = set(tr)
    for pos, nid, kind, p in evs:
        if kind == 'write':
            out, how, src = p
            if how == 'trueres':
                tr.add(out)
            elif how == 'apply' and src in tr:
                tr.add(out)
            else:
                tr.discard(out)
            if out in accs and how == 'update':
                fresh = (fresh[0], False)
                tr.clear()
            if out == ('param', 3) and how in ('update', 'overwrite'):
                tr.clear()
        elif kind == 'defR':
            fresh = (p is not None, True)
            truth = p is not None and p in tr
    return (fresh, truth, frozenset(tr))


def main(tier):
    ck = Check('C01', tier, 'C01 (clauses): iteration budget and truthful report of the Krylov solvers.')
    T = os.path.join(ir.VERIF, 'tus')
    names = ['rt_builtin'] if tier == 'quick' else ['rt_builtin', 'vt_float', 'vt_complex', 'vt_block', 'be_block_crs', 'be_eigen', 'mpi_rt']
    specs = [dict(name=n, src=os.path.join(T, n + '.cpp'), mpi=(n == 'mpi_rt')) for n in names]
    units = ir.run_units(specs, 'C01')
    ck.add_units(units, specs)
    ck.rule('A.budget', 'every modification of the returned iteration counter is dominated by counter < prm.maxiter established since its previous modification, '
                        'with step 1 (L, or j+1 under j < L, for bicgstabl): iterations <= maxiter (+ L - 1)', 8)
    ck.rule('A2.work-counted', 'every CFG cycle through an application of the system matrix A (spmv; residual for Richardson) contains a modification of the returned '
                                 'iteration counter, so the count bounds the work (bicgstabl: the j < L loop is counted in bulk by `iter += L` of the enclosing loop)', 8)
    ck.rule('B1.report-form', 'the reported value is R / N with N = norm(rhs); the zero-rhs exit reports norm_rhs, a converged-guess exit reports R / N', 8)
    ck.rule('B2.tested-is-reported', 'R is the variable the convergence test compares with eps = max(tol * N, abstol)', 8)
    ck.rule('B3.fresh', 'at every return, no update of the solution accumulator happened after the last R = norm(.)', 8)
    ck.rule('B4.true-residual', 'restarted methods (gmres, fgmres, lgmres, richardson): R is the norm of residual(rhs, A, x, .) recomputed after the last update of x (through P.apply for left preconditioning)', 4)
    ck.rule('B5.lock-step', 'cg, bicgstab, idrs: every x += c D is paired with a residual update -c V where V is the image of D under the (side-dependent) preconditioned operator', 3)
    ck.rule('B6.smoothing-siblings', 'idrs: the residual-smoothing block after the inner update and the one after the omega step are the same code', 1)
    import c05
    c05.register_x_rules(ck)
    seen = set()
    for name, f in solver_functions(units):
        seen.add(name)
        k = rule_A(ck, name, f)
        if k is not None:
            rule_counted(ck, name, f, k)
            rule_B(ck, name, f, k)
        if name in LOCKSTEP:
            rule_lockstep(ck, name, f)
        c05.rule_xspace(ck, name, f)     # the returned x is x0 plus solution-space increments (shared with C05)
    missing = [s for s in SOLVERS if s not in seen]
    if missing:
        ck.brk('solver classes not instantiated: %s' % missing)
    ck.assumptions += ['no unsigned wrap of the iteration counter within maxiter', 'prm.maxiter and L are not modified during a solve (checked: const members / const locals)',
                       'closeness of recursively updated residuals (CG, BiCGStab(L), IDR(s)) to ||f - A x|| and convergence rates are numerical and not decided']
    return ck.finish()
