"""Classified accesses to vector-like objects (E1) with interprocedural summaries.

Roots:  ('param', index)   a parameter of the analysed function
        ('this', name)     a data member of the enclosing object (array of vectors = one root)
        ('var', decl)      a local object (not an alias)
Local references / pointers / iterator ranges bound to a root are aliases of it.

An Access has kind in
   'kill'   the object is overwritten without reading its previous content
   'elem'   one element is overwritten (array-level kill, DESIGN "per array" limitation)
   'read'   previous content is read
   'rw'     previous content is read and the object is modified (accumulate, in-place)
   'neutral' size queries etc.
and an order key so that, inside one call, reads are seen before the kill.
"""
from ir import walk, unwrap, show, children
from effects import PRIMS, PRIM_READS, prim_name, classify_coef, locate, TRANSPARENT_METHODS, NEUTRAL_METHODS, ALIAS_FUNCS

ELEM_CLASSES = ('multi_array', 'circular_buffer', 'static_matrix', 'Eigen::')

# hand summaries for callees outside /repo:  name -> {arg index: effect}
EXTERNAL = {
    'std::fill': {0: 'kill', 1: 'neutral', 2: 'read'},          # fill(begin, end, v): the range is overwritten
    'std::fill_n': {0: 'kill'},
    'std::copy': {0: 'read', 1: 'neutral', 2: 'kill'},          # copy(b, e, dst)
    'std::swap': {0: 'rw', 1: 'rw'},
    'std::tie': {},
    'std::make_tuple': {},
    'std::max': {0: 'read', 1: 'read'},
    'std::min': {0: 'read', 1: 'read'},
    # MPI: buffers and request handles (communicators / datatypes are handles passed by value)
    'MPI_Irecv': {0: 'kill', 6: 'kill'}, 'MPI_Isend': {0: 'read', 6: 'kill'},
    'MPI_Recv': {0: 'kill'}, 'MPI_Send': {0: 'read'},
    'MPI_Wait': {0: 'rw'}, 'MPI_Waitall': {1: 'rw'}, 'MPI_Waitany': {1: 'rw'},
    'MPI_Allreduce': {0: 'read', 1: 'kill'}, 'MPI_Allgather': {0: 'read', 3: 'kill'}, 'MPI_Allgatherv': {0: 'read', 3: 'kill'},
    'MPI_Alltoall': {0: 'read', 3: 'kill'}, 'MPI_Bcast': {0: 'rw'}, 'MPI_Exscan': {0: 'read', 1: 'kill'},
    'MPI_Gather': {0: 'read', 3: 'kill'}, 'MPI_Gatherv': {0: 'read', 3: 'kill'}, 'MPI_Scatterv': {0: 'read', 4: 'kill'},
}
# methods on the tracked object itself: name -> effect on the object
OBJ_METHODS = {
    'clear': 'kill', 'setZero': 'kill', 'assign': 'kill', 'fill': 'kill',
    'resize': 'neutral', 'reserve': 'neutral', 'push_back': 'rw', 'size': 'neutral', 'empty': 'neutral',
    'stride': 'neutral', 'n_cols': 'neutral', 'n_rows': 'neutral',
}


class Access:
    __slots__ = ('root', 'kind', 'node', 'order', 'why', 'coef', 'bare')

    def __init__(self, root, kind, node, order, why='', coef=None):
        self.root, self.kind, self.node, self.order, self.why, self.coef = root, kind, node, order, why, coef
        self.bare = False   # True when the variable itself (not the object it points to / contains) is accessed

    def kind_in(self, ai, env):
        """kind under an abstract environment: an accumulate whose coefficient is known to be zero is a kill"""
        if self.kind == 'rw' and self.coef is not None and ai is not None and ai.eval(self.coef, env) == 'Z':
            return 'kill'
        return self.kind

    def __repr__(self):
        return 'Access(%s,%s,%s)' % (self.root, self.kind, self.why)


class Analyzer:
    def __init__(self, units):
        self.units = units if isinstance(units, list) else list(units.values())
        self.memo = {}
        self.stack = set()
        self.assumed = set()
        self.pessimistic = set()
        self.maxid = {}

    # ------------------------------------------------------------ structure
    def _maxid(self, f, n):
        key = (id(f), n['i'])
        if key not in self.maxid:
            m = n['i']
            for x in walk(n):
                if x['i'] > m:
                    m = x['i']
            self.maxid[key] = m
        return self.maxid[key]

    def alias_map(self, f):
        """decl of local reference/pointer/range -> root"""
        if hasattr(f, '_alias_map'):
            return f._alias_map
        al = {}
        changed = True
        it = 0
        while changed and it < 6:
            changed = False
            it += 1
            for n in f.nodes.values():
                if n['k'] != 'decl':
                    continue
                for v in n['v']:
                    if v['d'] in al or v.get('init') is None:
                        continue
                    dd = f.decl(v['d'])
                    t = f.unit.type(dd.get('ct'))
                    viewish = dd.get('ref') or dd.get('ptr') or 'iterator_range' in t or 'Map<' in t
                    if not viewish:
                        continue
                    r = self.root_of_expr(f, v['init'], al)
                    if r is not None:
                        al[v['d']] = r
                        changed = True
        # chains (a reference bound to another reference that was resolved later): follow them to the end
        for d in list(al):
            seen = 0
            while al[d] is not None and al[d][0] == 'var' and al[d][1] in al and al[d][1] != d and seen < 8:
                al[d] = al[al[d][1]] + tuple(al[d][2:])
                seen += 1
        f._alias_map = al
        return al

    def root_of_expr(self, f, e, al=None):
        """root denoted by an lvalue-ish expression (through [], *, ->, &, .get(), + offset, views)"""
        if al is None:
            al = self.alias_map(f)
        e = unwrap(e)
        depth = 0
        while e is not None and depth < 30:
            depth += 1
            k = e['k']
            if k == 'ref':
                d = e['d']
                if d in al:
                    return al[d]
                pi = f.param_index(d)
                if pi is not None:
                    return ('param', pi)
                dk = f.decl(d).get('k')
                if dk in ('local', 'staticlocal'):
                    return ('var', d)
                return None
            if k == 'mem':
                b = unwrap(e.get('b'))
                if b is None or b['k'] == 'this':
                    return ('this', e['n'])
                e = b
                continue
            if k == 'idx':
                e = unwrap(e['b'])
                continue
            if k == 'un' and e['op'] in ('*', '->', '&'):
                e = unwrap(e['e'])
                continue
            if k == 'call':
                if e.get('op') == '()' and e.get('obj') is not None and any(c in (e.get('f') or '') for c in ELEM_CLASSES):
                    e = unwrap(e['obj'])
                    continue
                if e.get('obj') is not None and (e.get('m') in TRANSPARENT_METHODS or e.get('conv')):
                    e = unwrap(e['obj'])
                    continue
                if e.get('f') in ALIAS_FUNCS or (e.get('f') or '').endswith('reinterpret_as_rhs'):
                    a = e.get('a', [])
                    e = unwrap(a[0]) if a else None
                    continue
                return None
            if k == 'bin' and e['op'] in ('+', '-'):
                e = unwrap(e['x'])
                continue
            if k == 'ctor' and len(e.get('a', [])) >= 1:
                e = unwrap(e['a'][0])
                continue
            if k in ('cast', 'defarg'):
                e = unwrap(e['e'])
                continue
            return None
        return None

    def handle_view(self, f, d, depth=0):
        """a local reference bound to the object a handle points to (`const level &l = *lvl;`, also transitively):
        members selected on it are members of the handle's object"""
        dd = f.decl(d)
        if not dd.get('ref') or dd.get('k') not in ('local',) or depth > 6:
            return False
        init = None
        for n in f.nodes.values():
            if n['k'] == 'decl':
                for v in n['v']:
                    if v['d'] == d and v.get('init') is not None:
                        init = v['init']
        e = unwrap(init) if init is not None else None
        derefs = 0
        while e is not None and e['k'] == 'un' and e['op'] in ('*', '->'):
            e = unwrap(e['e'])
            derefs += 1
        if e is None or e['k'] != 'ref':
            return False
        if derefs and self.is_handle(f, e['d']):
            return True
        return derefs == 0 and self.handle_view(f, e['d'], depth + 1)

    def is_handle(self, f, d):
        dd = f.decl(d)
        t = f.unit.type(dd.get('ct'))
        return bool(dd.get('ptr')) and 'char' not in t or 'iterator<' in t or '_iterator' in t

    def expr_root(self, f, e):
        """like root_of_expr, with the member refinement of handle roots (lvl->t -> ('param', 0, 't'))"""
        e = unwrap(e)
        last_mem = None
        depth = 0
        while e is not None and depth < 30:
            depth += 1
            k = e['k']
            if k == 'mem':
                b = unwrap(e.get('b'))
                if b is None or b['k'] == 'this':
                    return ('this', e['n'])
                last_mem = e['n']
                e = b
                # only the member selected directly on the handle counts
                bb = b
                while bb is not None and bb['k'] == 'un' and bb['op'] in ('->', '*'):
                    bb = unwrap(bb['e'])
                if bb is not None and bb['k'] == 'ref' and (self.is_handle(f, bb['d']) or self.handle_view(f, bb['d'])):
                    r = self.root_of_expr(f, bb)
                    return (r + (last_mem,)) if r is not None else None
                continue
            if k == 'ref':
                # a reference local bound to a member of a handle's object (`vector &tmp = *lvl->t;`) denotes that member
                dd = f.decl(e['d'])
                if dd.get('ref') and dd.get('k') == 'local' and depth < 12:
                    inits = [v['init'] for n in f.nodes.values() if n['k'] == 'decl' for v in n['v'] if v['d'] == e['d'] and v.get('init') is not None]
                    if len(inits) == 1:
                        key = ('_er', e['d'])
                        busy = getattr(f, '_er_busy', None)
                        if busy is None:
                            busy = f._er_busy = set()
                        if key not in busy:
                            busy.add(key)
                            try:
                                r = self.expr_root(f, inits[0])
                            finally:
                                busy.discard(key)
                            if r is not None:
                                return r
                return self.root_of_expr(f, e)
            if k == 'idx':
                e = unwrap(e['b'])
            elif k == 'un' and e['op'] in ('*', '->', '&'):
                e = unwrap(e['e'])
            elif k == 'call' and e.get('obj') is not None and (e.get('m') in TRANSPARENT_METHODS or e.get('conv') or e.get('op') == '()'):
                e = unwrap(e['obj'])
            elif k in ('cast', 'defarg'):
                e = unwrap(e['e'])
            elif k == 'ctor' and len(e.get('a', [])) >= 1:
                e = unwrap(e['a'][0])
            else:
                return self.root_of_expr(f, e)
        return None

    # ------------------------------------------------------------ accesses
    def accesses(self, f):
        if hasattr(f, '_accesses'):
            return f._accesses
        al = self.alias_map(f)
        out = []
        for n in f.nodes.values():
            root = None
            if n['k'] == 'ref':
                d = n['d']
                if d in al:
                    root = al[d]
                else:
                    pi = f.param_index(d)
                    if pi is not None:
                        root = ('param', pi)
                    elif f.decl(d).get('k') in ('local', 'staticlocal'):
                        root = ('var', d)
            elif n['k'] == 'mem':
                b = unwrap(n.get('b'))
                if b is None or b['k'] == 'this':
                    root = ('this', n['n'])
            if root is None:
                continue
            start = n
            if n['k'] == 'ref' and len(root) == 2 and self.is_handle(f, n['d']):
                # iterator / pointer handle: the objects are the members of the pointee (lvl->t, nxt->u)
                cur = n
                while True:
                    pi = f.parent.get(cur['i'])
                    p = f.nodes[pi] if pi is not None else None
                    if p is not None and p['k'] == 'un' and p['op'] in ('->', '*') and _is(p.get('e'), cur):
                        cur = p
                    elif p is not None and p['k'] in ('cast',) and _is(p.get('e'), cur):
                        cur = p
                    else:
                        break
                pi = f.parent.get(cur['i'])
                p = f.nodes[pi] if pi is not None else None
                if p is not None and p['k'] == 'mem' and _is(p.get('b'), cur):
                    root = root + (p['n'],)
                    start = p
            out.extend(self._classify(f, start, root))
        out.sort(key=lambda a: a.order)
        f._accesses = out
        return out

    def _climb(self, f, n):
        """outermost expression that still denotes (a part / view of) the same object; elem=True if an
        element was selected on the way"""
        top, elem = n, False
        self._lit_index = False
        while True:
            pi = f.parent.get(top['i'])
            if pi is None:
                break
            p = f.nodes[pi]
            pk = p['k']
            if pk == 'idx' and _is(p.get('b'), top):
                top, elem = p, True
                ix = unwrap(p.get('x'))
                self._lit_index = ix is not None and ix['k'] == 'lit'
            elif pk == 'un' and p['op'] in ('&', '*', '->') and _is(p.get('e'), top):
                top = p
            elif pk in ('cast', 'defarg') and _is(p.get('e'), top):
                top = p
            elif pk == 'mem' and _is(p.get('b'), top):
                top, elem = p, True      # member of the object (e.g. prm.maxiter, A.ptr)
            elif pk == 'call' and _is(p.get('obj'), top) and (p.get('m') in TRANSPARENT_METHODS or p.get('conv')):
                top = p
            elif pk == 'call' and p.get('op') == '()' and _is(p.get('obj'), top) and any(c in (p.get('f') or '') for c in ELEM_CLASSES):
                top, elem = p, True
                ix = [unwrap(a) for a in p.get('a', [])]
                # M(i, i) touches only the diagonal, M(0, j) only one row: not an initialisation of the 2-D array
                self._lit_index = (len(ix) == 2 and show(ix[0]) == show(ix[1])) or any(a is not None and a['k'] == 'lit' for a in ix)
            elif pk == 'call' and (p.get('f') in ALIAS_FUNCS or (p.get('f') or '').endswith('reinterpret_as_rhs')) and any(_is(a, top) for a in p.get('a', [])):
                top = p
            elif pk == 'bin' and p['op'] in ('+', '-') and _is(p.get('x'), top) and _pointerish(f, top):
                top = p
            elif pk == 'ctor' and len(p.get('a', [])) == 1 and _is(p['a'][0], top) and 'shared_ptr' not in f.unit.type(p.get('ct')):
                top = p
            else:
                break
        return top, elem

    def _classify(self, f, n, root):
        res = self._classify0(f, n, root)
        top, _ = self._climb(f, n)
        if top is n:
            for a in res:
                a.bare = True
        return res

    def _classify0(self, f, n, root):
        top, elem = self._climb(f, n)
        pi = f.parent.get(top['i'])
        p = f.nodes[pi] if pi is not None else None
        nid = n['i']
        if p is None:
            return []
        pk = p['k']
        # re-seating or advancing a local POINTER / iterator (`l = base + k; ++l; l += n`) changes the cursor, not the data it walks over
        if top is n and n['k'] == 'ref' and f.decl(n['d']).get('k') == 'local' and (f.decl(n['d']).get('ptr') or self.is_handle(f, n['d'])) \
                and ((pk == 'un' and p['op'] in ('++', '--')) or (pk == 'bin' and p['op'] in ('=', '+=', '-=') and _is(p['x'], top))):
            return []
        if pk == 'bin' and p['op'] == '=' and _is(p['x'], top):
            if elem and self._lit_index:
                # a[<literal>] = ..: one fixed element; neither a read nor an initialisation of the array
                return [Access(root, 'one', n, self._maxid(f, p) + 0.5, 'assignment to a fixed element')]
            return [Access(root, 'elem' if elem else 'kill', n, self._maxid(f, p) + 0.5, 'assignment')]
        if pk == 'bin' and p['op'] in ('+=', '-=', '*=', '/=', '%=', '|=', '&=', '^=') and _is(p['x'], top):
            return [Access(root, 'rw', n, nid, 'compound assignment')]
        if pk == 'un' and p['op'] in ('++', '--'):
            return [Access(root, 'rw', n, nid, 'increment')]
        if pk == 'decl':
            if any(v['d'] in self.alias_map(f) for v in p['v']):
                return []
            return [Access(root, 'read', n, nid, 'initialiser')]
        if pk == 'call':
            if _is(p.get('obj'), top):
                m = p.get('m')
                if p.get('op') == '()' or p.get('conv'):
                    # functor call / conversion: the object itself is read
                    return [Access(root, 'read', n, nid, 'functor call')]
                eff = OBJ_METHODS.get(m)
                if eff is None:
                    # unknown method: const method -> read, else rw
                    eff = 'read' if p.get('cm') else 'rw'
                    g = self._callee(f, p)
                    if g is not None and g.rel().startswith('amgcl/') and m in ('apply', 'apply_pre', 'apply_post', 'solve', 'operator()'):
                        eff = 'read'  # operating *with* the object (a preconditioner / solver), not on its content
                if eff == 'neutral':
                    return []
                return [Access(root, eff, n, self._maxid(f, p) + 0.5 if eff == 'kill' else nid, 'method ' + str(m))]
            argi = None
            for i, a in enumerate(p.get('a', [])):
                if _is(a, top):
                    argi = i
            if argi is None:
                return [Access(root, 'read', n, nid, 'callee expression')]
            pr = prim_name(p)
            if pr is not None:
                ci, oi = PRIMS[pr]
                if argi == oi:
                    coef = classify_coef(f, p['a'][ci]) if ci is not None else 'zero'
                    if coef == 'zero':
                        return [Access(root, 'kill', n, self._maxid(f, p) + 0.5, pr + ' output, zero coefficient')]
                    return [Access(root, 'rw', n, nid, pr + ' output, coefficient ' + (coef if isinstance(coef, str) else show(p['a'][ci])), coef=p['a'][ci])]
                if argi in PRIM_READS[pr]:
                    return [Access(root, 'read', n, nid, pr + ' input')]
                return []
            eff = self.call_effect(f, p, argi)
            if eff == 'neutral':
                return []
            if eff == 'wo':
                return [Access(root, 'wo', n, nid, 'argument %d of %s (written on some paths, never read)' % (argi, p.get('f') or show(p)))]
            order = self._maxid(f, p) + 0.5 if eff == 'kill' else nid
            if eff == 'kill' and elem:
                eff = 'elem'
            return [Access(root, eff, n, order, 'argument %d of %s' % (argi, p.get('f') or show(p)))]
        if pk in ('block', 'for', 'while', 'if', 'omp', 'do', 'switch', 'case', 'default', 'label'):
            # bare expression statement / condition
            if pk in ('if', 'while', 'for', 'do', 'switch'):
                return [Access(root, 'read', n, nid, 'condition')]
            return []
        if pk == 'ret':
            return [Access(root, 'read', n, nid, 'returned')]
        return [Access(root, 'read', n, nid, 'operand of ' + pk)]

    # ----------------------------------------------------------- summaries
    def _ctors(self, unit):
        c = getattr(unit, '_ctors', None)
        if c is None:
            c = {}
            for g in unit.funcs:
                if g.j.get('ctor') and g.clsfull:
                    c.setdefault(g.clsfull, []).append(g)
            unit._ctors = c
        return c

    def _callee(self, f, call):
        fd = call.get('fd')
        if fd is None:
            return None
        return f.unit.by_id.get(fd)

    def call_effect(self, f, call, argi):
        name = call.get('f') or ''
        if name in ('std::make_shared', 'std::make_unique') and 'rt' in call:
            # forwards its arguments to a constructor of T: the effect is the constructor's
            t = f.unit.type(call['rt'])
            inner = t[t.index('<') + 1:t.rindex('>')] if '<' in t else t
            nargs = len(call.get('a', []))
            for g in self._ctors(f.unit).get(inner, []):
                if len(g.params) == nargs or (len(g.params) > nargs):
                    pd = g.decl(g.params[argi]) if argi < len(g.params) else None
                    if pd is not None and pd.get('ref') and not pd.get('const'):
                        return self.param_effect(g, argi) if g.cfg is not None else 'rw'
            return 'read'
        if name in EXTERNAL:
            return EXTERNAL[name].get(argi, 'read')
        if name in ('amgcl::backend::rows', 'amgcl::backend::cols', 'amgcl::backend::nonzeros', 'amgcl::backend::bytes', 'amgcl::precondition'):
            return 'neutral' if name != 'amgcl::precondition' else 'read'
        g = self._callee(f, call)
        mr = set(call.get('mr', []))
        if g is None or g.cfg is None:
            return 'rw' if argi in mr else 'read'
        if argi >= len(g.params):
            return 'read'
        if argi not in mr:
            return 'read'
        return self.param_effect(g, argi)

    def param_effect(self, g, pi):
        """effect of function g on the object bound to its parameter pi: 'neutral' | 'read' | 'kill' | 'rw'"""
        key = (id(g.unit), g.id, pi)
        if key in self.memo:
            return self.memo[key]
        if key in self.stack:
            # recursion (nested run-time preconditioners, the multigrid cycle): coinductive assumption
            # 'kill', confirmed below; sound for terminating executions by induction on the depth
            if key in self.pessimistic:
                return 'rw'
            self.assumed.add(key)
            return 'kill'
        self.stack.add(key)
        try:
            eff = self._param_effect(g, pi)
        finally:
            self.stack.discard(key)
        if key in self.assumed and eff != 'kill':
            # assumption refuted: everything computed under it is void
            self.assumed.discard(key)
            self.pessimistic.add(key)
            self.memo.clear()
            return self.param_effect(g, pi)
        self.memo[key] = eff
        return eff

    def _param_effect(self, g, pi):
        from absint import AbsInt
        root = ('param', pi)
        acc = [a for a in self.accesses(g) if a.root == root]
        if not acc:
            return 'neutral'
        kinds = {a.kind for a in acc}
        if kinds <= {'read'}:
            return 'read'
        if not (kinds & {'kill', 'elem'}):
            return 'rw' if kinds & {'rw'} else 'read'
        # is the first access on every path a kill?
        loc = locate(g)
        events = {}
        for a in acc:
            w = loc.get(a.node['i'])
            if w is None:
                return 'rw'
            events.setdefault(w[0], []).append((w[1], a.order, a))
        bad = []

        holder = []

        def apply(a, facts, env):
            if a.kind_in(holder[0], env) in ('kill', 'elem'):   # element assignment: array-level kill (stated limitation)
                return facts | {'K'}
            return facts
        def cedge(b, k, cond, facts, env):
            z = zero_trip_roots(self, g, holder[0], b, k, env)
            return (facts | {'K'}) if root in z else facts
        ai = AbsInt(g, events, apply, cedge)
        holder.append(ai)
        ai.run()

        def visit(b, nid, a, facts, env):
            if a.kind_in(ai, env) in ('read', 'rw') and 'K' not in facts:
                bad.append(a)
        ai.visit(visit)
        # every path to the exit must have killed it, otherwise the old content survives (that is "rw" for the caller)
        exit_states = ai.IN.get(g.cfg.exit, set())
        killed_at_exit = all('K' in facts for (_, facts) in exit_states) if exit_states else True
        if not bad and killed_at_exit:
            return 'kill'
        if not bad:
            return 'wo'    # never reads the previous content, but does not overwrite it on every path
        return 'rw'


def _is(a, b):
    while a is not None and a is not b:
        k = a.get('k')
        if k in ('cast', 'defarg', 'definit'):
            a = a['e']
        elif k == 'call' and a.get('conv'):
            a = a['obj']
        else:
            return False
    return a is b and a is not None


def _pointerish(f, n):
    n = unwrap(n)
    if n is not None and n['k'] == 'mem' and f.unit.decls[n['d']].get('ptr'):
        return True
    return n is not None and ((n['k'] == 'un' and n['op'] == '&') or (n['k'] == 'ref' and f.decl(n['d']).get('ptr')) or (n['k'] == 'call' and n.get('m') in ('data', 'begin')))


def zero_trip_roots(an, f, ai, b, k, env):
    """Roots that may be regarded as initialised on the *first-test-false* exit of a counted loop
    `for (i = 0; i < B; ...)` whose body fills them (kill / elem): a loop that runs zero times ranges
    over an empty extent, so there is nothing left to read (stated assumption of C15-B / C02-A)."""
    if k != 1:
        return ()
    cache = f.__dict__.setdefault('_ztr', {})
    if b in cache:
        iv_d, roots = cache[b]
        if iv_d == 'always':
            return roots
        return roots if (iv_d is not None and env.get(iv_d) == 'Z') else ()
    cache[b] = (None, ())
    blk = f.cfg.blocks[b]
    t = blk.get('term')
    if t is None or t < 0 or t not in f.nodes:
        return ()
    loop = f.nodes[t]
    if loop['k'] == 'rfor':
        # range-based loop: after the loop the body has run for every element of the range
        inside = {n['i'] for n in walk(loop['b'])}
        roots = frozenset(a.root for a in an.accesses(f) if a.node['i'] in inside and a.kind in ('kill', 'elem'))
        cache[b] = ('always', roots)
        return roots
    if loop['k'] != 'for' or loop.get('c') is None:
        return ()
    c = unwrap(loop['c'])
    while c is not None and c['k'] == 'bin' and c['op'] in ('&&', '||'):
        c = unwrap(c['y'])
    if c is None or c['k'] != 'bin' or c['op'] not in ('<', '<=', '>', '>='):
        return ()
    x, y = unwrap(c['x']), unwrap(c['y'])
    iv = x if c['op'] in ('<', '<=') else y
    if iv is None or iv['k'] != 'ref':
        return ()
    inside = set()
    for n in walk(loop['b']):
        inside.add(n['i'])
    roots = frozenset(a.root for a in an.accesses(f) if a.node['i'] in inside and a.kind in ('kill', 'elem'))
    cache[b] = (iv['d'], roots)
    return roots if env.get(iv['d']) == 'Z' else ()
