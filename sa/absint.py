"""E2 (DESIGN.md section 3): small path-sensitive abstract interpreter on the clang CFG.

State = (env, facts): env maps tracked integer/bool locals to an abstract value
  ints : 'Z' (== 0), 'P' (>= 1), None (unknown)      bools: 'T', 'F', None
facts is a client-defined frozenset.  States are kept *disjunctively* per block
(set of distinct states, capped; beyond the cap they are merged by env-top /
fact-intersection), so the first-iteration idioms of the solvers (`if (iter)`,
`first`, `k == 0`, `for (k = 0; k < j; ..)` with j == 0) are resolved while the
analysis still terminates.
"""
from collections import deque

from ir import walk, unwrap, show
from effects import locate, classify_coef

CAP = 96
# configuration conditions that are tracked (and never pruned) even when tested once: documented exceptions hang on them
FORCE_SYM = {'sym:prm.always_reset', 'sym:prm.type == 1', 'sym:prm.type == 2'}


def lit_val(n):
    n = unwrap(n)
    if n is None:
        return None
    if n['k'] == 'lit':
        if n['t'] == 'bool':
            return 'T' if n['v'] == 'true' else 'F'
        if n['t'] in ('int',):
            try:
                v = int(n['v'])
            except ValueError:
                return None
            return 'Z' if v == 0 else ('P' if v > 0 else None)
    return None


class AbsInt:
    def __init__(self, func, client_events=None, client_apply=None, client_edge=None):
        """client_events: {block: [(pos, nid, payload)]}; client_apply(payload, facts, env) -> facts;
        client_edge(block, succ_index, cond_node, facts) -> facts (optional)"""
        self.f = func
        self.cfg = func.cfg
        self.loc = locate(func)
        self.cev = client_events or {}
        self.capply = client_apply or (lambda p, facts, env: facts)
        self.cedge = client_edge
        cached = getattr(func, '_absint_cache', None)
        if cached is not None:
            self.sym_ok, self.tracked, self.upd, self.sym_multi, self.live = cached
            self.merged_blocks = set()
            self.dropped = {}
            self._symcache = func._absint_symcache
            return
        self._symcache = func._absint_symcache = {}
        # symbolic configuration conditions are sound only if this function does not modify prm
        self.sym_ok = True
        for n in func.nodes.values():
            tgt = None
            if n['k'] == 'bin' and n['op'] in ('=', '+=', '-=', '*=', '/='):
                tgt = n['x']
            elif n['k'] == 'un' and n['op'] in ('++', '--'):
                tgt = n['e']
            if tgt is not None:
                m = unwrap(tgt)
                while m is not None and m['k'] in ('mem', 'idx'):
                    if m['k'] == 'mem' and m['n'] == 'prm' and (m.get('b') is None or unwrap(m['b'])['k'] == 'this'):
                        self.sym_ok = False
                    m = unwrap(m.get('b'))
        self.tracked = self._tracked()
        # only variables that can influence a branch or a coefficient matter
        used = set()
        for b in self.cfg.blocks:
            c = self.cfg.cond(b)
            if c is not None:
                for x in walk(c):
                    if x['k'] == 'ref':
                        used.add(x['d'])
        for n in func.nodes.values():
            if n['k'] == 'call' and n.get('f', '').startswith('amgcl::backend::'):
                for a in n.get('a', []):
                    a = unwrap(a)
                    if a is not None and a['k'] == 'ref':
                        used.add(a['d'])
        # close under "assigned from"
        changed = True
        while changed:
            changed = False
            for n in func.nodes.values():
                tgt, src = None, None
                if n['k'] == 'decl':
                    for v in n['v']:
                        if v['d'] in used and v.get('init') is not None:
                            for x in walk(v['init']):
                                if x['k'] == 'ref' and x['d'] in self.tracked and x['d'] not in used:
                                    used.add(x['d'])
                                    changed = True
                elif n['k'] == 'bin' and n['op'] == '=':
                    x0 = unwrap(n['x'])
                    if x0 is not None and x0['k'] == 'ref' and x0['d'] in used:
                        for x in walk(n['y']):
                            if x['k'] == 'ref' and x['d'] in self.tracked and x['d'] not in used:
                                used.add(x['d'])
                                changed = True
        self.tracked &= used
        # symbolic conditions are useful only when the same condition is tested more than once
        counts = {}
        for b in self.cfg.blocks:
            c = self.cfg.cond(b)
            if c is not None:
                k = self._symkey(c)
                if k is not None:
                    counts[k] = counts.get(k, 0) + 1
        self.sym_multi = {k for k, v in counts.items() if v >= 2}
        self.upd = self._updates()
        self.live = self._liveness()
        self.merged_blocks = set()
        self.dropped = {}
        func._absint_cache = (self.sym_ok, self.tracked, self.upd, self.sym_multi, self.live)

    # ----------------------------------------------------------- tracked vars
    def _tracked(self):
        f = self.f
        t = set()
        for n in f.nodes.values():
            if n['k'] == 'decl':
                for v in n['v']:
                    ty = f.unit.type(f.decl(v['d']).get('ct'))
                    ty = ty.replace('const ', '').strip()
                    if ty in ('int', 'unsigned int', 'long', 'unsigned long', 'bool', 'size_t', 'ptrdiff_t', 'unsigned', 'short', 'unsigned short', 'long long', 'unsigned long long'):
                        t.add(v['d'])
        # scalar coefficient locals that are somewhere set to a classified zero / identity
        for n in f.nodes.values():
            cands = []
            if n['k'] == 'decl':
                cands = [(v['d'], v.get('init')) for v in n['v'] if not v.get('static')]
            elif n['k'] == 'bin' and n['op'] == '=':
                x = unwrap(n['x'])
                if x is not None and x['k'] == 'ref' and f.decl(x['d']).get('k') == 'local':
                    cands = [(x['d'], n['y'])]
            for d, e in cands:
                if e is not None and d not in t and classify_coef(f, e) in ('zero', 'identity'):
                    dd = f.decl(d)
                    if not dd.get('ref') and not dd.get('ptr'):
                        t.add(d)
        # a variable whose address escapes is not tracked
        for n in f.nodes.values():
            if n['k'] == 'un' and n['op'] == '&':
                e = unwrap(n['e'])
                if e is not None and e['k'] == 'ref' and e['d'] in t:
                    t.discard(e['d'])
        return t

    def _liveness(self):
        """live-in sets of tracked variables and symbolic condition keys per block; dead
        entries are dropped from the environment so that they cannot multiply states"""
        f, cfg = self.f, self.cfg
        gen, kill = {}, {}
        for b, blk in cfg.blocks.items():
            g, k = set(), set()
            ids = [e for e in blk['el'] if isinstance(e, int) and e >= 0]
            c = blk.get('cond')
            if c is not None and c >= 0:
                ids.append(c)
            for e in ids:
                n = f.nodes.get(e)
                if n is None:
                    continue
                # definitions: decl of v / v = ... (rhs refs are uses first)
                defs = set()
                if n['k'] == 'decl':
                    for v in n['v']:
                        if v['d'] in self.tracked:
                            defs.add(v['d'])
                elif n['k'] == 'bin' and n['op'] == '=':
                    x = unwrap(n['x'])
                    if x is not None and x['k'] == 'ref' and x['d'] in self.tracked:
                        defs.add(x['d'])
                for x in walk(n):
                    if x['k'] == 'ref' and x['d'] in self.tracked:
                        if x['d'] in defs and n['k'] == 'bin' and unwrap(n['x']) is x:
                            continue
                        if x['d'] not in k:
                            g.add(x['d'])
                k |= defs
            cn = cfg.cond(b)
            if cn is not None:
                sk = self.symkey(cn)
                if sk is not None:
                    g.add(sk)
            gen[b], kill[b] = g, k
        live_in = {b: set() for b in cfg.blocks}
        changed = True
        while changed:
            changed = False
            for b in cfg.blocks:
                out = set()
                for s2 in cfg.succ[b]:
                    if s2 is not None:
                        out |= live_in[s2]
                new = gen[b] | (out - kill[b])
                if new != live_in[b]:
                    live_in[b] = new
                    changed = True
        return live_in

    def _updates(self):
        """{block: [(pos, nid, kind, decl, node)]} for tracked variables"""
        f, loc = self.f, self.loc
        out = {}

        def add(n, kind, d, payload):
            if n['i'] in loc:
                b, pos = loc[n['i']]
                out.setdefault(b, []).append((pos, n['i'], kind, d, payload))
        for n in f.nodes.values():
            k = n['k']
            if k == 'decl':
                for v in n['v']:
                    if v['d'] in self.tracked:
                        add(n, 'set', v['d'], v.get('init'))
            elif k == 'un' and n['op'] in ('++', '--'):
                e = unwrap(n['e'])
                if e is not None and e['k'] == 'ref' and e['d'] in self.tracked:
                    add(n, 'inc' if n['op'] == '++' else 'top', e['d'], None)
            elif k == 'bin' and n['op'] in ('=', '+=', '-=', '*=', '/=', '%=', '|=', '&='):
                x = unwrap(n['x'])
                if x is not None and x['k'] == 'ref' and x['d'] in self.tracked:
                    if n['op'] == '=':
                        add(n, 'set', x['d'], n['y'])
                    elif n['op'] == '+=':
                        add(n, 'add', x['d'], n['y'])
                    else:
                        add(n, 'top', x['d'], None)
            elif k == 'call':
                # passed by mutable reference -> unknown afterwards
                for a in n.get('a', []):
                    a = unwrap(a)
                    if a is not None and a['k'] == 'ref' and a['d'] in self.tracked and not f.decl(a['d']).get('const'):
                        g = f.unit.by_id.get(n.get('fd'))
                        # only if the callee's parameter is a non-const reference (unknown callee: assume by value for scalars)
                        if g is not None:
                            idx = n['a'].index(a) if a in n['a'] else None
                            if idx is not None and idx < len(g.params):
                                pd = g.decl(g.params[idx])
                                if pd.get('ref') and not pd.get('const'):
                                    add(n, 'top', a['d'], None)
        return out

    # ------------------------------------------------------------- evaluation
    def eval(self, e, env):
        e = unwrap(e)
        if e is None:
            return None
        lv = lit_val(e)
        if lv is not None:
            return lv
        k = e['k']
        if k == 'ref' and (e['d'] in self.tracked or e['d'] in env):
            return env.get(e['d'])
        if k == 'bin' and e['op'] == '+':
            a, b = self.eval(e['x'], env), self.eval(e['y'], env)
            if a in ('Z', 'P') and b in ('Z', 'P'):
                return 'P' if 'P' in (a, b) else 'Z'
            return None
        if k == 'cast':
            return self.eval(e['e'], env)
        cc = classify_coef(self.f, e)
        if cc == 'zero':
            return 'Z'
        if cc == 'identity':
            return 'P'
        return None

    # conditions over immutable configuration (prm.* members, enum constants, literals) are
    # symbolic booleans: both tests of `if (prm.smoothing)` in one call take the same branch
    def symkey(self, c):
        if not self.sym_ok or c is None:
            return None
        ci = c.get('i')
        if ci in self._symcache:
            return self._symcache[ci]
        r = self._symkey(c)
        if r is not None and r not in self.sym_multi and r not in FORCE_SYM:
            r = None
        self._symcache[ci] = r
        return r

    def _symkey(self, c):
        c = unwrap(c)
        if c is None:
            return None
        # `const bool full = (prm.type == 1);` - a local that is defined once, by a condition over the configuration, IS that condition
        hops = 0
        while c is not None and c['k'] == 'ref' and hops < 4 and self.f.decl(c['d']).get('k') == 'local':
            d = c['d']
            inits = [v['init'] for n in self.f.nodes.values() if n['k'] == 'decl' for v in n['v'] if v['d'] == d and v.get('init') is not None]
            mods = [n for n in self.f.nodes.values() if n['k'] == 'bin' and n['op'] in ('=', '|=', '&=', '^=') and unwrap(n['x'])['k'] == 'ref' and unwrap(n['x'])['d'] == d]
            if len(inits) != 1 or mods:
                break
            c = unwrap(inits[0])
            hops += 1
        if c is None:
            return None
        ok = [True]
        has_prm = [False]

        def leaf(n):
            n = unwrap(n)
            if n is None:
                ok[0] = False
                return
            k = n['k']
            if k == 'mem':
                # chain rooted at this->prm
                m = n
                path = []
                while m is not None and m['k'] == 'mem':
                    path.append(m['n'])
                    m = unwrap(m.get('b'))
                if (m is None or m['k'] == 'this') and path and path[-1] == 'prm':
                    has_prm[0] = True
                else:
                    ok[0] = False
            elif k == 'lit':
                pass
            elif k == 'ref':
                dk = self.f.decl(n['d']).get('k')
                if dk == 'enumc':
                    pass
                else:
                    ok[0] = False
            elif k == 'bin' and n['op'] in ('==', '!=', '<', '>', '<=', '>='):
                leaf(n['x'])
                leaf(n['y'])
            elif k == 'un' and n['op'] in ('!', '-', '+'):
                leaf(n['e'])
            elif k == 'cast':
                leaf(n['e'])
            else:
                ok[0] = False
        leaf(c)
        if ok[0] and has_prm[0]:
            return 'sym:' + show(c)
        return None

    def cond(self, c, env):
        sk = self.symkey(c)
        if sk is not None and env.get(sk) in ('T', 'F'):
            return env[sk] == 'T'
        return self._cond(c, env)

    def _cond(self, c, env):
        """True / False / None"""
        c = unwrap(c)
        if c is None:
            return None
        k = c['k']
        if k == 'un' and c['op'] == '!':
            r = self.cond(c['e'], env)
            return None if r is None else (not r)
        if k == 'bin' and c['op'] in ('==', '!=', '<', '<=', '>', '>='):
            a, b = self.eval(c['x'], env), self.eval(c['y'], env)
            op = c['op']
            if op in ('>', '>='):
                a, b = b, a
                op = '<' if op == '>' else '<='
            if a is None or b is None or a in 'TF' or b in 'TF':
                if op in ('==', '!=') and a in ('T', 'F') and b in ('T', 'F'):
                    return (a == b) if op == '==' else (a != b)
                return None
            if op == '==':
                return True if (a, b) == ('Z', 'Z') else (False if a != b else None)
            if op == '!=':
                return False if (a, b) == ('Z', 'Z') else (True if a != b else None)
            if op == '<':
                return {('Z', 'Z'): False, ('Z', 'P'): True, ('P', 'Z'): False}.get((a, b))
            if op == '<=':
                return {('Z', 'Z'): True, ('Z', 'P'): True, ('P', 'Z'): False}.get((a, b))
        v = self.eval(c, env)
        if v in ('Z', 'F'):
            return False
        if v in ('P', 'T'):
            return True
        return None

    def refine(self, c, truth, env):
        """env refined by knowing that condition c evaluated to `truth`"""
        sk = self.symkey(c)
        if sk is not None:
            env = dict(env)
            env[sk] = 'T' if truth else 'F'
            return env
        c = unwrap(c)
        if c is None:
            return env
        k = c['k']
        if k == 'un' and c['op'] == '!':
            return self.refine(c['e'], not truth, env)
        if k == 'ref' and c['d'] in self.tracked:
            env = dict(env)
            ty = self.f.unit.type(self.f.decl(c['d']).get('ct'))
            if 'bool' in ty:
                env[c['d']] = 'T' if truth else 'F'
            elif not truth:
                env[c['d']] = 'Z'
            return env
        if k == 'bin' and c['op'] in ('==', '!='):
            x, y = unwrap(c['x']), unwrap(c['y'])
            for p, q in ((x, y), (y, x)):
                if p is not None and p['k'] == 'ref' and p['d'] in self.tracked and lit_val(q) == 'Z':
                    eq = (c['op'] == '==') == truth
                    if eq:
                        env = dict(env)
                        env[p['d']] = 'Z'
                    return env
        return env

    # --------------------------------------------------------------- the run
    def _apply_block(self, b, env, facts, visit=None):
        env = dict(env)
        evs = [(pos, nid, 0, (kind, d, p)) for (pos, nid, kind, d, p) in self.upd.get(b, ())]
        evs += [(pos, nid, 1, payload) for (pos, nid, payload) in self.cev.get(b, ())]
        evs.sort(key=lambda t: (t[0], t[1], t[2]))
        for pos, nid, which, p in evs:
            if which == 0:
                kind, d, arg = p
                if kind == 'set':
                    env[d] = self.eval(arg, env) if arg is not None else None
                elif kind == 'inc':
                    env[d] = 'P' if env.get(d) in ('Z', 'P') else None
                elif kind == 'add':
                    a = self.eval(arg, env)
                    env[d] = 'P' if (env.get(d) in ('Z', 'P') and a == 'P') else (env.get(d) if a == 'Z' else None)
                else:
                    env[d] = None
            else:
                if visit is not None:
                    visit(b, nid, p, facts, env)
                facts = self.capply(p, facts, env)
        return env, facts

    def _switch_targets(self, b, c, env):
        """switch over a tracked integer: {successor: refined env} of the case labels the abstract value can select
        (Z selects `case 0` or, without one, `default`; P selects the positive cases and `default`)"""
        cfg, f = self.cfg, self.f
        cu = unwrap(c)
        v = self.eval(c, env)
        labels = {}
        for s in cfg.succ[b]:
            if s is None:
                continue
            lab = cfg.blocks[s].get('label')
            ln = f.nodes.get(lab) if lab is not None else None
            if ln is None:
                labels[s] = None
            elif ln['k'] == 'default':
                labels[s] = 'default'
            elif ln['k'] == 'case':
                labels[s] = lit_val(ln.get('v'))          # 'Z', 'P' or None
            else:
                labels[s] = None
        has_zero = any(x == 'Z' for x in labels.values())
        tracked = cu is not None and cu['k'] == 'ref' and cu['d'] in self.tracked
        out = {}
        for s, lab in labels.items():
            if lab is None:
                out[s] = env
                continue
            if v == 'Z' and (lab == 'P' or (lab == 'default' and has_zero)):
                continue
            if v == 'P' and lab == 'Z':
                continue
            e2 = env
            if tracked:
                e2 = dict(env)
                if lab == 'Z':
                    e2[cu['d']] = 'Z'
                elif lab == 'P':
                    e2[cu['d']] = 'P'
                elif lab == 'default' and has_zero and 'unsigned' in f.unit.type(f.decl(cu['d']).get('ct')):
                    e2[cu['d']] = 'P'      # an unsigned value that is not zero
            out[s] = e2
        return out

    @staticmethod
    def _freeze(env):
        return frozenset((k, v) for k, v in env.items() if v is not None)

    def run(self, init_facts=frozenset()):
        cfg = self.cfg
        IN = {cfg.entry: {frozenset(): init_facts}}
        work = deque([cfg.entry])
        inq = {cfg.entry}
        while work:
            b = work.popleft()
            inq.discard(b)
            c = cfg.cond(b)
            succs = cfg.succ[b]
            two = len(succs) == 2
            for fenv, facts in list(IN[b].items()):
                env, facts2 = self._apply_block(b, dict(fenv), facts)
                truth = self.cond(c, env) if (two and c is not None) else None
                sw = self._switch_targets(b, c, env) if (cfg.blocks[b].get('tk') == 'SwitchStmt' and c is not None) else None
                for k, s in enumerate(succs):
                    if s is None:
                        continue
                    e2, f2 = env, facts2
                    if sw is not None:
                        if s not in sw:
                            continue          # this case label cannot be selected by the known value
                        e2 = sw[s]
                    elif two:
                        if truth is True and k == 1:
                            continue
                        if truth is False and k == 0:
                            continue
                        if c is not None:
                            e2 = self.refine(c, k == 0, env)
                        if self.cedge is not None:
                            f2 = self.cedge(b, k, c, facts2, env)
                    cur = IN.setdefault(s, {})
                    lv = self.live[s]
                    fe = frozenset((k_, v_) for k_, v_ in e2.items() if v_ is not None and (k_ in lv or k_ in FORCE_SYM))
                    dropped = self.dropped.get(s)
                    if dropped:
                        fe = frozenset(kv for kv in fe if kv[0] not in dropped)
                    old = cur.get(fe)
                    if old is None:
                        cur[fe] = f2
                        if len(cur) > CAP:
                            self._project(s, cur)
                    else:
                        new = old & f2
                        if new == old:
                            continue
                        cur[fe] = new
                    if s not in inq:
                        work.append(s)
                        inq.add(s)
        self.IN = {b: set(d.items()) for b, d in IN.items()}
        return self.IN

    def _project(self, s, cur):
        """too many distinct environments at block s: forget variables (greedily, the one whose
        removal merges most states first) until the count is at most CAP/2; facts are intersected"""
        dropped = self.dropped.setdefault(s, set())
        self.merged_blocks.add(s)
        while len(cur) > CAP // 2:
            vars_ = set()
            for fe in cur:
                for k, _ in fe:
                    vars_.add(k)
            if not vars_:
                break
            best, bestn = None, None
            for v in vars_:
                n = len({frozenset(kv for kv in fe if kv[0] != v) for fe in cur})
                if bestn is None or n < bestn:
                    best, bestn = v, n
            dropped.add(best)
            new = {}
            for fe, facts in cur.items():
                k2 = frozenset(kv for kv in fe if kv[0] != best)
                new[k2] = facts if k2 not in new else (new[k2] & facts)
            cur.clear()
            cur.update(new)

    def visit(self, fn):
        """after run(): call fn(block, nid, payload, facts_before, env) for every client event in every reached state"""
        for b, states in self.IN.items():
            for (fenv, facts) in states:
                self._apply_block(b, dict(fenv), facts, visit=fn)
