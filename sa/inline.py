"""Inlining of helper calls at the level of the extracted facts.

`expand(f, want)` returns a copy of function `f` in which every call accepted by the policy `want(f, call, g)`
is replaced by the body of the callee `g`:

  * tree: the call node becomes  {'k': 'inl', 'pd': <decl statement binding g's parameters to the argument expressions
    as reference locals>, 'b': <clone of g's body>, 'e': <the returned expression, when g ends in its only `return e;`>}
    (`unwrap` sees through an 'inl' node to 'e', like through a cast).  Other returns of the clone become 'iret' nodes.
  * CFG: the block that evaluates the call is split around it and a renumbered copy of g's clang CFG is put in between.
  * declarations of g (parameters, locals) get fresh entries in unit.decls, so two expansions never share a variable.

The rules therefore see an "extracted method" exactly as if it had never been extracted: same statements, same
paths, same roots (a parameter bound to `*lvl->t` resolves to the caller's root through the ordinary alias analysis).
Nothing is inlined that the policy does not accept; recursion and callees without a body / CFG are never inlined.
"""
import copy

from ir import Func, walk, is_node

DECL_KEYS = ('d',)


def _max_node_id(j):
    m = 0
    roots = [j['body']] + [i['e'] for i in j.get('inits', []) if is_node(i.get('e'))]
    for r in roots:
        for n in walk(r):
            if n['i'] > m:
                m = n['i']
    return m


def _declared(g):
    """decl ids declared inside g: parameters, local declarations, range-for variables, lambda / catch parameters"""
    ds = list(g.params)
    for n in g.nodes.values():
        if n['k'] == 'decl':
            ds.extend(v['d'] for v in n['v'])
        elif n['k'] == 'rfor' and n.get('var'):
            ds.append(n['var']['d'])
            for key in ('rangevar', 'beginvar', 'endvar'):
                if isinstance(n.get(key), dict) and 'd' in n[key]:
                    ds.append(n[key]['d'])
        elif n['k'] == 'lambda':
            for p in n.get('params', []) or []:
                if isinstance(p, dict) and 'd' in p:
                    ds.append(p['d'])
        elif n['k'] == 'try':
            for h in n.get('handlers', []) or []:
                if isinstance(h, dict) and 'd' in h:
                    ds.append(h['d'])
    return ds


def _remap_tree(t, off, dmap):
    """in-place: node ids += off, declaration ids through dmap (refs, decl entries, loop variables)"""
    stack = [t]
    while stack:
        x = stack.pop()
        if isinstance(x, dict):
            if 'k' in x and 'i' in x:
                x['i'] += off
                if x['k'] == 'ret':
                    x['k'] = 'iret'
                if x['k'] == 'ref' and x.get('d') in dmap:
                    x['d'] = dmap[x['d']]
            elif 'd' in x and x.get('d') in dmap and 'k' not in x:
                x['d'] = dmap[x['d']]        # decl entry of a DeclStmt / loop variable
            for v in x.values():
                if isinstance(v, (dict, list)):
                    stack.append(v)
        elif isinstance(x, list):
            for v in x:
                if isinstance(v, (dict, list)):
                    stack.append(v)


def _inline_one(u, j, call, g):
    maxid = _max_node_id(j)
    gmax = max(g.nodes) if g.nodes else 0
    off = maxid + 1
    # fresh declarations
    dmap = {}
    for d in _declared(g):
        if d in dmap:
            continue
        ent = dict(u.decls[d])
        if ent.get('k') == 'param':
            ent['k'] = 'local'
            ent.pop('pi', None)
            ent['inl_param'] = 1
        dmap[d] = len(u.decls)
        u.decls.append(ent)
    body = copy.deepcopy(g.j['body'])
    # the returned expression: g ends in its only `return e;`
    rets = [n for n in walk(body) if n['k'] == 'ret' and not any(a['k'] == 'lambda' for a in _anc(body, n))]
    rv = None
    dropped = None
    stmts = body.get('s', []) if body['k'] == 'block' else []
    if len(rets) == 1 and stmts and stmts[-1] is rets[0] and rets[0].get('e') is not None:
        dropped = rets[0]['i']
        rv = rets[0]['e']
        stmts.pop()
    elif len(rets) == 1 and stmts and stmts[-1] is rets[0] and rets[0].get('e') is None:
        dropped = rets[0]['i']
        stmts.pop()
    _remap_tree(body, off, dmap)
    if rv is not None:
        _remap_tree(rv, off, dmap)
    # parameter binding
    pd_id = off + gmax + 1
    args = call.get('a', [])
    vs = []
    for i, pdcl in enumerate(g.params):
        if i < len(args) and args[i] is not None:
            ent = u.decls[dmap[pdcl]]
            vs.append({'d': dmap[pdcl], 'n': ent.get('n', '?'), 't': ent.get('t'), 'init': args[i]})
    pd = {'i': pd_id, 'k': 'decl', 'l': call.get('l'), 'v': vs}
    cid = call['i']
    keep = {k: call[k] for k in ('i', 'l', 'lf', 'f', 'fd', 'rt') if k in call}
    obj = call.get('obj')
    call.clear()
    call.update(keep)
    call['k'] = 'inl'
    if obj is not None:
        call['obj'] = obj
    call['pd'] = pd
    call['b'] = body
    if rv is not None:
        call['e'] = rv
    # ---- CFG
    cfg = j.get('cfg')
    gcfg = g.j.get('cfg')
    if cfg is None or gcfg is None:
        return
    where = None
    for blk in cfg['blocks']:
        for p, e in enumerate(blk['el']):
            if e == cid:
                where = (blk, p)
    if where is None:
        raise ValueError('call is not a CFG element')
    B, p = where
    boff = max(b['id'] for b in cfg['blocks']) + 1
    gb = copy.deepcopy(gcfg['blocks'])
    for blk in gb:
        blk['id'] += boff
        el = []
        for e in blk['el']:
            if isinstance(e, int):
                if e == dropped:
                    continue
                el.append(e + off if e >= 0 else e)
            elif isinstance(e, dict) and 'declof' in e:
                el.append({'declof': dmap.get(e['declof'], e['declof'])})
            else:
                el.append(e)
        blk['el'] = el
        for key in ('cond', 'term', 'label'):
            if key in blk and isinstance(blk[key], int) and blk[key] >= 0:
                blk[key] = blk[key] + off
                if key == 'term' and blk[key] == (dropped or -1) + off:
                    pass
        blk['succ'] = [(s + boff) if s is not None else None for s in blk['succ']]
    b2id = boff + max(b['id'] for b in gcfg['blocks']) + 1
    B2 = {'id': b2id, 'el': [cid] + B['el'][p + 1:], 'succ': B['succ']}
    for key in ('term', 'tk', 'cond', 'noreturn'):
        if key in B:
            B2[key] = B.pop(key)
    B['el'] = B['el'][:p] + [pd_id]
    B['succ'] = [gcfg['entry'] + boff]
    for blk in gb:
        if blk['id'] == gcfg['exit'] + boff:
            blk['succ'] = [b2id]
    cfg['blocks'].extend(gb)
    cfg['blocks'].append(B2)
    if cfg['exit'] == B['id']:
        cfg['exit'] = b2id


def _anc(root, target):
    """ancestors of target inside root (small trees: linear search)"""
    path = []

    def rec(n):
        if n is target:
            return True
        if isinstance(n, dict):
            for v in n.values():
                if isinstance(v, (dict, list)) and rec(v):
                    if 'k' in n and 'i' in n:
                        path.append(n)
                    return True
        elif isinstance(n, list):
            for v in n:
                if isinstance(v, (dict, list)) and rec(v):
                    return True
        return False
    rec(root)
    return path


def same_class_helper(keep=()):
    """policy: private helpers of the class of f invoked on *this (any depth), except the named members"""
    def want(f, call, g):
        if not f.cls or g.cls != f.cls:
            return False
        obj = call.get('obj')
        if obj is not None:
            o = obj
            while o is not None and o.get('k') in ('cast', 'defarg'):
                o = o.get('e')
            if o is None or o.get('k') != 'this':
                return False
        name = g.q.split('::')[-1]
        return name not in keep
    return want


def same_file_detail_helper():
    """policy: free functions of a `detail` namespace defined in the same file as the caller (a long function split into parts)"""
    def want(f, call, g):
        return not g.cls and g.file == f.file and '::detail::' in g.q and g.q != f.q
    return want


def expand(f, want, limit=12):
    """copy of f with the accepted helper calls inlined (transitively, at most `limit` expansions); f itself when nothing applies"""
    u = f.unit
    if f.j.get('cfg') is None:
        return f
    j = None
    cur = f
    done = 0
    stack_q = {f.q}
    while done < limit:
        target = None
        elems = set()
        for blk in cur.j['cfg']['blocks']:
            for e in blk['el']:
                if isinstance(e, int):
                    elems.add(e)
        for n in sorted(cur.nodes.values(), key=lambda t: t['i']):
            if n['k'] != 'call' or 'fd' not in n or n['i'] not in elems:
                continue
            g = u.by_id.get(n['fd'])
            if g is None or g.body is None or g.j.get('cfg') is None or g.id == f.id or g.q in stack_q:
                continue
            if any(a['k'] == 'lambda' for a in cur.ancestors(n)):
                continue
            if not want(cur, n, g):
                continue
            target = (n, g)
            break
        if target is None:
            break
        if j is None:
            j = copy.deepcopy(f.j)
            cur = Func(u, j)
            continue        # re-find the call in the private copy
        try:
            _inline_one(u, j, target[0], target[1])
        except ValueError:
            break
        done += 1
        cur = Func(u, j)
    if done:
        cur.inlined = done
    return cur if done else f
