// Type-level witnesses (C13 / C07): identities of the value-type traits and of the backend mixing rules that the block / complex /
// mixed-precision formulations rely on.  Compiled with -fsyntax-only -ferror-limit=0; a failing static_assert is a violation of the
// witness named in its message, any other diagnostic in this file or in /repo makes the analysis broken.
#include <complex>
#include <type_traits>
#include <amgcl/backend/builtin.hpp>
#include <amgcl/backend/detail/mixing.hpp>
#include <amgcl/value_type/interface.hpp>
#include <amgcl/value_type/complex.hpp>
#include <amgcl/value_type/static_matrix.hpp>
namespace am = amgcl::math;
namespace ab = amgcl::backend;
typedef std::complex<double> Cd;
typedef std::complex<float>  Cf;
template <class T, int N, int M> using SM = amgcl::static_matrix<T, N, M>;
#define W(id, cond, text) static_assert(cond, "WITNESS " id ": " text)

W("W01", (std::is_same<ab::detail::common_scalar_backend<ab::builtin<SM<float,2,2>>, ab::builtin<double>>::type, ab::builtin<double>>::value),
  "a single-precision block backend mixed with a double-precision scalar backend works in double precision");
W("W02", (std::is_same<ab::detail::common_scalar_backend<ab::builtin<double>, ab::builtin<SM<float,2,2>>>::type, ab::builtin<double>>::value),
  "... in either order");
W("W03", (std::is_same<ab::detail::common_scalar_backend<ab::builtin<SM<double,3,3>>, ab::builtin<float>>::type, ab::builtin<double>>::value),
  "a double-precision block backend mixed with a single-precision scalar backend works in double precision");
W("W04", (std::is_same<ab::detail::common_scalar_backend<ab::builtin<double>, ab::builtin<double>>::type, ab::builtin<double>>::value),
  "equal scalar backends are their own common backend");
W("W05", (std::is_same<am::scalar_of<SM<Cd,2,2>>::type, double>::value), "the scalar of a block of complex numbers is the real type");
W("W06", (std::is_same<am::scalar_of<SM<float,3,1>>::type, float>::value), "the scalar of a real block is its element type");
W("W07", (std::is_same<am::scalar_of<Cf>::type, float>::value), "the scalar of complex<float> is float");
W("W08", (std::is_same<am::rhs_of<SM<double,3,3>>::type, SM<double,3,1>>::value), "the right-hand side type of an N x N block is the N-vector of the same element type");
W("W09", (std::is_same<am::rhs_of<SM<Cd,2,2>>::type, SM<Cd,2,1>>::value), "... also for complex blocks");
W("W10", (std::is_same<am::rhs_of<double>::type, double>::value), "the right-hand side type of a scalar is the scalar");
W("W11", (std::is_same<am::replace_scalar<SM<float,2,2>, double>::type, SM<double,2,2>>::value), "replacing the scalar of a block keeps its shape");
W("W12", (std::is_same<am::replace_scalar<SM<float,4,1>, double>::type, SM<double,4,1>>::value), "... also for block vectors");
W("W13", (std::is_same<am::replace_scalar<Cf, double>::type, Cd>::value), "replacing the scalar of a complex number keeps it complex");
W("W14", (am::static_rows<SM<double,3,2>>::value == 3 && am::static_cols<SM<double,3,2>>::value == 2), "static_rows / static_cols report the block shape");
W("W15", (am::static_rows<double>::value == 1 && am::static_cols<Cd>::value == 1), "scalars are 1 x 1");
W("W16", (am::is_static_matrix<SM<float,2,2>>::value && !am::is_static_matrix<double>::value && !am::is_static_matrix<Cd>::value), "is_static_matrix holds exactly for blocks");
W("W17", (std::is_same<am::inner_product_impl<SM<double,2,1>>::return_type, double>::value), "the inner product of two real block vectors is a real scalar");
W("W18", (std::is_same<am::inner_product_impl<SM<Cd,3,1>>::return_type, Cd>::value), "the inner product of two complex block vectors is a complex scalar");
W("W19", (std::is_same<am::element_of<SM<Cf,2,2>>::type, Cf>::value), "the element type of a block is what it stores");
W("W20", (std::is_same<ab::value_type<ab::crs<SM<double,2,2>>>::type, SM<double,2,2>>::value), "the value type of a CRS matrix of blocks is the block");
W("W21", (sizeof(SM<double,2,2>) == 4 * sizeof(double) && sizeof(SM<Cd,3,1>) == 3 * sizeof(Cd)), "a block is exactly its N*M elements (it is reinterpreted as such by the block views and sent as such by MPI)");
int type_witness_unit() { return 0; }
