// MPI instantiation unit: the compile-time distributed relaxation classes (each says from which operand - the distributed matrix or its
// local diagonal block - the serial relaxation is built); compared with the run-time wrapper by C14 (F.mpi-relaxation-operand).
#include <vector>
#include <amgcl/backend/builtin.hpp>
#include <amgcl/mpi/util.hpp>
#include <amgcl/mpi/distributed_matrix.hpp>
#include <amgcl/mpi/relaxation/spai0.hpp>
#include <amgcl/mpi/relaxation/spai1.hpp>
#include <amgcl/mpi/relaxation/damped_jacobi.hpp>
#include <amgcl/mpi/relaxation/gauss_seidel.hpp>
#include <amgcl/mpi/relaxation/ilu0.hpp>
#include <amgcl/mpi/relaxation/iluk.hpp>
#include <amgcl/mpi/relaxation/ilup.hpp>
#include <amgcl/mpi/relaxation/ilut.hpp>
#include <amgcl/mpi/relaxation/chebyshev.hpp>
#include <amgcl/mpi/relaxation/runtime.hpp>
#include <amgcl/profiler.hpp>
namespace amgcl { profiler<> prof; }
typedef amgcl::backend::builtin<double> Backend;
template <class R> void build(const amgcl::mpi::distributed_matrix<Backend> &A) { R r(A, typename R::params(), typename Backend::params()); (void)r; }
void unit_mpi_relax(const amgcl::mpi::distributed_matrix<Backend> &A) {
    build<amgcl::mpi::relaxation::spai0<Backend>>(A);
    build<amgcl::mpi::relaxation::spai1<Backend>>(A);
    build<amgcl::mpi::relaxation::damped_jacobi<Backend>>(A);
    build<amgcl::mpi::relaxation::gauss_seidel<Backend>>(A);
    build<amgcl::mpi::relaxation::ilu0<Backend>>(A);
    build<amgcl::mpi::relaxation::iluk<Backend>>(A);
    build<amgcl::mpi::relaxation::ilup<Backend>>(A);
    build<amgcl::mpi::relaxation::ilut<Backend>>(A);
    build<amgcl::mpi::relaxation::chebyshev<Backend>>(A);
    boost::property_tree::ptree prm;
    amgcl::runtime::mpi::relaxation::wrapper<Backend> w(A, prm);
    (void)w;
    // copy of a distributed matrix (and its communication pattern) to another backend (C11 K.memberwise-copy)
    amgcl::mpi::distributed_matrix<amgcl::backend::builtin<float>> Af(A);
    (void)Af;
}
