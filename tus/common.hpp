// Instantiation units: no logic of their own; they only force the templates of
// /repo to be instantiated so that the analyzer sees resolved bodies.
#pragma once
#include <vector>
#include <tuple>
#include <boost/property_tree/ptree.hpp>

#include <amgcl/backend/builtin.hpp>
#include <amgcl/adapter/crs_tuple.hpp>
#include <amgcl/adapter/zero_copy.hpp>
#include <amgcl/amg.hpp>
#include <amgcl/make_solver.hpp>
#include <amgcl/solver/runtime.hpp>
#include <amgcl/coarsening/runtime.hpp>
#include <amgcl/relaxation/runtime.hpp>
#include <amgcl/relaxation/as_preconditioner.hpp>
#include <amgcl/preconditioner/runtime.hpp>
#include <amgcl/preconditioner/dummy.hpp>
#include <amgcl/profiler.hpp>

namespace amgcl { profiler<> prof; }

template <class Backend>
struct rt_unit {
    typedef typename Backend::value_type val_t;
    typedef typename amgcl::math::rhs_of<val_t>::type rhs_t;
    typedef amgcl::make_solver<
        amgcl::runtime::preconditioner<Backend>,
        amgcl::runtime::solver::wrapper<Backend>
        > Solver;

    static void run() {
        std::vector<ptrdiff_t> ptr, col;
        std::vector<val_t> val;
        std::vector<rhs_t> rhs, x;
        boost::property_tree::ptree prm;
        ptrdiff_t n = 0;

        auto A = std::tie(n, ptr, col, val);
        Solver solve(A, prm);
        (void)solve(rhs, x);
        (void)solve(A, rhs, x);
        solve.apply(rhs, x);
        solve.precond().rebuild(A);
        boost::property_tree::ptree out;
        solve.prm.get(out, "");
        (void)amgcl::backend::bytes(solve);
        std::cout << solve << std::endl;
    }
};
