#include "common.hpp"
void unit_rt_builtin() { rt_unit< amgcl::backend::builtin<double> >::run(); }
