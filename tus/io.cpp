// IO unit: MatrixMarket and binary readers / writers for the value kinds of C19
#include <complex>
#include <vector>
#include <string>
#include <amgcl/backend/builtin.hpp>
#include <amgcl/adapter/crs_tuple.hpp>
#include <amgcl/value_type/complex.hpp>
#include <amgcl/io/mm.hpp>
#include <amgcl/io/binary.hpp>
template <class Idx, class Val> void sparse(const std::string &fn) {
    amgcl::io::mm_reader r(fn);
    std::vector<Idx> ptr, col; std::vector<Val> val;
    size_t n, m; std::tie(n, m) = r(ptr, col, val);
    std::tie(n, m) = r(ptr, col, val, 1, 2);
    amgcl::io::mm_write(fn, std::tie(n, ptr, col, val));
}
template <class Val> void dense(const std::string &fn) {
    amgcl::io::mm_reader r(fn);
    std::vector<Val> v; size_t n, m; std::tie(n, m) = r(v);
    amgcl::io::mm_write(fn, v.data(), n, m);
}
void unit_io(const std::string &fn) {
    sparse<ptrdiff_t, double>(fn);
    sparse<int, std::complex<double>>(fn);
    sparse<int, int>(fn);
    sparse<unsigned, float>(fn);
    sparse<int, std::complex<float>>(fn);
    sparse<int, long long>(fn); sparse<int, unsigned long>(fn); sparse<int, char>(fn); sparse<int, short>(fn);
    dense<double>(fn); dense<std::complex<double>>(fn); dense<int>(fn); dense<long double>(fn); dense<float>(fn);
    {
        size_t n; std::vector<ptrdiff_t> ptr, col; std::vector<double> val, v;
        n = amgcl::io::crs_size<size_t>(fn);
        amgcl::io::read_crs(fn, n, ptr, col, val);
        amgcl::io::read_crs(fn, n, ptr, col, val, 1, 2);
        size_t m; amgcl::io::dense_size(fn, n, m);
        amgcl::io::read_dense(fn, n, m, v);
        { size_t n2; std::vector<int> p2; std::vector<long> c2; std::vector<float> v2, d2;
          amgcl::io::read_crs(fn, n2, p2, c2, v2, 1, 2);   // all four element types distinct: offsets are checked per type
          size_t m2; amgcl::io::read_dense(fn, n2, m2, d2, 1, 2); }
        std::ofstream f(fn);
        amgcl::io::write(f, n); amgcl::io::write(f, ptr);
    }
}
