// Pattern-level unit for the MPI part of the library (ParMETIS, PT-Scotch and
// PaStiX wrappers excluded: their dependencies are not installed).
#include <amgcl/backend/builtin.hpp>
#include <amgcl/mpi/util.hpp>
#include <amgcl/mpi/inner_product.hpp>
#include <amgcl/mpi/distributed_matrix.hpp>
#include <amgcl/mpi/amg.hpp>
#include <amgcl/mpi/make_solver.hpp>
#include <amgcl/mpi/preconditioner.hpp>
#include <amgcl/mpi/block_preconditioner.hpp>
#include <amgcl/mpi/cpr.hpp>
#include <amgcl/mpi/schur_pressure_correction.hpp>
#include <amgcl/mpi/subdomain_deflation.hpp>
#include <amgcl/mpi/coarsening/aggregation.hpp>
#include <amgcl/mpi/coarsening/smoothed_aggregation.hpp>
#include <amgcl/mpi/coarsening/pmis.hpp>
#include <amgcl/mpi/coarsening/runtime.hpp>
#include <amgcl/mpi/relaxation/runtime.hpp>
#include <amgcl/mpi/relaxation/as_preconditioner.hpp>
#include <amgcl/mpi/solver/runtime.hpp>
#include <amgcl/mpi/direct_solver/runtime.hpp>
#include <amgcl/mpi/direct_solver/skyline_lu.hpp>
#include <amgcl/mpi/partition/merge.hpp>
#include <amgcl/mpi/partition/runtime.hpp>
#include <amgcl/mpi/partition/util.hpp>
