// Composite preconditioners and adapters: cpr, cpr_drs, schur_pressure_correction,
// deflated_solver, make_block_solver, reorder / scaled_problem / crs_builder / complex / block adapters.
#include <complex>
#include <amgcl/value_type/static_matrix.hpp>
#include <amgcl/value_type/complex.hpp>
#include <amgcl/adapter/block_matrix.hpp>
#include <amgcl/adapter/complex.hpp>
#include <amgcl/adapter/crs_builder.hpp>
#include <amgcl/adapter/reorder.hpp>
#include <amgcl/adapter/scaled_problem.hpp>
#include <amgcl/make_block_solver.hpp>
#include <amgcl/deflated_solver.hpp>
#include <amgcl/preconditioner/cpr.hpp>
#include <amgcl/preconditioner/cpr_drs.hpp>
#include <amgcl/preconditioner/schur_pressure_correction.hpp>
#include <amgcl/solver/skyline_lu.hpp>
#include "common.hpp"

typedef amgcl::backend::builtin<double> B;
typedef amgcl::amg<B, amgcl::runtime::coarsening::wrapper, amgcl::runtime::relaxation::wrapper> PPrecond;
typedef amgcl::relaxation::as_preconditioner<B, amgcl::runtime::relaxation::wrapper> SPrecond;
typedef amgcl::make_solver<amgcl::runtime::preconditioner<B>, amgcl::runtime::solver::wrapper<B> > RTSolver;

template <class Solver, class M>
void drive(const M &A) {
    boost::property_tree::ptree prm, out;
    std::vector<double> rhs, x;
    Solver solve(A, prm);
    (void)solve(rhs, x);
    solve.apply(rhs, x);
    solve.prm.get(out, "");
    std::cout << solve << std::endl;
}

struct row_builder {
    typedef double val_type;
    typedef ptrdiff_t col_type;
    size_t rows() const { return 0; }
    size_t nonzeros() const { return 0; }
    void operator()(size_t, std::vector<ptrdiff_t> &, std::vector<double> &) const {}
};

void unit_composite() {
    std::vector<ptrdiff_t> ptr, col;
    std::vector<double> val, rhs, x;
    ptrdiff_t n = 0;
    auto A = std::tie(n, ptr, col, val);

    typedef amgcl::make_solver<amgcl::preconditioner::cpr<PPrecond, SPrecond>, amgcl::runtime::solver::wrapper<B> > CPR;
    drive<CPR>(A);
    {
        boost::property_tree::ptree prm;
        CPR s(A, prm);
        s.precond().partial_update(A);
        auto M = std::make_shared<amgcl::backend::crs<double> >(A);
        CPR s2(M, prm);
    }
    typedef amgcl::make_solver<amgcl::preconditioner::cpr_drs<PPrecond, SPrecond>, amgcl::runtime::solver::wrapper<B> > CPRDRS;
    drive<CPRDRS>(A);
    {
        boost::property_tree::ptree prm;
        CPRDRS s(A, prm);
        s.precond().partial_update(A);
    }
    typedef amgcl::make_solver<amgcl::preconditioner::schur_pressure_correction<RTSolver, RTSolver>, amgcl::runtime::solver::wrapper<B> > SCHUR;
    drive<SCHUR>(A);

    typedef amgcl::deflated_solver<amgcl::runtime::preconditioner<B>, amgcl::runtime::solver::wrapper<B> > DEFL;
    {
        boost::property_tree::ptree prm, out;
        DEFL solve(A, prm);
        (void)solve(rhs, x);
        (void)solve(A, rhs, x);
        solve.prm.get(out, "");
        std::cout << solve << std::endl;
    }

    // block CPR (block-valued system matrix, scalar pressure system)
    typedef amgcl::static_matrix<double, 2, 2> blk;
    typedef amgcl::backend::builtin<blk> BB;
    typedef amgcl::relaxation::as_preconditioner<BB, amgcl::runtime::relaxation::wrapper> BSPrecond;
    typedef amgcl::make_solver<amgcl::preconditioner::cpr<PPrecond, BSPrecond>, amgcl::runtime::solver::wrapper<BB> > BCPR;
    {
        boost::property_tree::ptree prm;
        BCPR s(amgcl::adapter::block_matrix<blk>(A), prm);
        std::vector<amgcl::static_matrix<double, 2, 1> > brhs, bx;
        (void)s(brhs, bx);
        s.precond().partial_update(amgcl::adapter::block_matrix<blk>(A), true);      // block-valued update_transfer
    }
    {
        typedef amgcl::make_solver<amgcl::preconditioner::cpr_drs<PPrecond, BSPrecond>, amgcl::runtime::solver::wrapper<BB> > BCPRDRS;
        boost::property_tree::ptree prm;
        BCPRDRS s(amgcl::adapter::block_matrix<blk>(A), prm);
        std::vector<amgcl::static_matrix<double, 2, 1> > brhs, bx;
        (void)s(brhs, bx);
        s.precond().partial_update(amgcl::adapter::block_matrix<blk>(A), true);
    }

    // make_block_solver on a scalar user matrix (C17 / C13: the block adapter must only ever see sorted rows)
    {
        typedef amgcl::make_block_solver<
            amgcl::amg<BB, amgcl::runtime::coarsening::wrapper, amgcl::runtime::relaxation::wrapper>,
            amgcl::runtime::solver::wrapper<BB> > MBS;
        boost::property_tree::ptree prm;
        MBS s(A, prm);
        (void)s(rhs, x);
    }

    // adapters
    {
        boost::property_tree::ptree prm;
        amgcl::adapter::reorder<> perm(A);
        RTSolver s1(perm(A), prm);
        perm.forward(rhs, x);
        perm.inverse(x, rhs);
        std::vector<double> prhs(rhs.size()), px(rhs.size());
        (void)s1(perm(rhs), perm(x));
        auto sp = amgcl::adapter::scale_diagonal<B>(A);
        RTSolver s2(sp.matrix(A), prm);
        auto srhs = sp.rhs(rhs);
        (void)s2(*srhs, x);
        sp(x);
        RTSolver s3(amgcl::adapter::make_matrix(row_builder()), prm);
        RTSolver s4(amgcl::adapter::zero_copy(size_t(0), ptr.data(), col.data(), val.data()), prm);
        RTSolver s5(amgcl::adapter::zero_copy_direct(size_t(0), ptr.data(), col.data(), val.data()), prm);
        std::vector<std::complex<double> > cval;
        auto C = std::tie(n, ptr, col, cval);
        RTSolver s6(amgcl::adapter::complex_matrix(C), prm);
    }

    // direct solver
    {
        amgcl::solver::skyline_lu<double> lu(A);
        lu(rhs, x);
    }
}
