// Mixed-precision unit (C13): single-precision preconditioner under a double-precision Krylov solver,
// called both with the preconditioner's own (float) matrix and with a double matrix.
#include <vector>
#include <tuple>
#include <amgcl/backend/builtin.hpp>
#include <amgcl/adapter/crs_tuple.hpp>
#include <amgcl/make_solver.hpp>
#include <amgcl/amg.hpp>
#include <amgcl/coarsening/smoothed_aggregation.hpp>
#include <amgcl/relaxation/spai0.hpp>
#include <amgcl/relaxation/ilu0.hpp>
#include <amgcl/solver/cg.hpp>
#include <amgcl/solver/bicgstab.hpp>
#include <amgcl/solver/gmres.hpp>
#include <amgcl/profiler.hpp>
namespace amgcl { profiler<> prof; }
typedef amgcl::backend::builtin<float>  fBackend;
typedef amgcl::backend::builtin<double> dBackend;
template <template <class, class> class S, template <class> class R>
void one() {
    typedef amgcl::make_solver<amgcl::amg<fBackend, amgcl::coarsening::smoothed_aggregation, R>, S<dBackend, amgcl::solver::detail::default_inner_product> > Solver;
    std::vector<ptrdiff_t> ptr, col; std::vector<double> val, rhs, x; int n = 0;
    auto A = std::tie(n, ptr, col, val);
    Solver solve(A);
    (void)solve(rhs, x);        // matrix-vector products with the single-precision system matrix
    (void)solve(A, rhs, x);     // ... and with a double-precision one
}
void unit_mixed() {
    one<amgcl::solver::cg, amgcl::relaxation::spai0>();
    one<amgcl::solver::bicgstab, amgcl::relaxation::ilu0>();
    one<amgcl::solver::gmres, amgcl::relaxation::spai0>();
}
