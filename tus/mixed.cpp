// Mixed-precision unit (C13): single-precision preconditioner under a double-precision Krylov solver,
// called both with the preconditioner's own (float) matrix and with a double matrix.
#include <vector>
#include <tuple>
#include <amgcl/backend/builtin.hpp>
#include <amgcl/value_type/static_matrix.hpp>
#include <amgcl/adapter/crs_tuple.hpp>
#include <amgcl/make_solver.hpp>
#include <amgcl/amg.hpp>
#include <amgcl/coarsening/smoothed_aggregation.hpp>
#include <amgcl/relaxation/spai0.hpp>
#include <amgcl/relaxation/ilu0.hpp>
#include <amgcl/solver/cg.hpp>
#include <amgcl/solver/bicgstab.hpp>
#include <amgcl/solver/gmres.hpp>
#include <amgcl/profiler.hpp>
namespace amgcl { profiler<> prof; }
typedef amgcl::backend::builtin<float>  fBackend;
typedef amgcl::backend::builtin<double> dBackend;
template <template <class, class> class S, template <class> class R>
void one() {
    typedef amgcl::make_solver<amgcl::amg<fBackend, amgcl::coarsening::smoothed_aggregation, R>, S<dBackend, amgcl::solver::detail::default_inner_product> > Solver;
    std::vector<ptrdiff_t> ptr, col; std::vector<double> val, rhs, x; int n = 0;
    auto A = std::tie(n, ptr, col, val);
    Solver solve(A);
    (void)solve(rhs, x);        // matrix-vector products with the single-precision system matrix
    (void)solve(A, rhs, x);     // ... and with a double-precision one
}
void unit_views() {
    // scalar vectors viewed as block vectors for a matrix of another precision (C07 / C13): the view keeps the vector's scalar type
    std::vector<double> xd(8); std::vector<float> xf(8);
    const std::vector<double> &cxd = xd;
    auto a = amgcl::backend::reinterpret_as_rhs<amgcl::static_matrix<float, 2, 2> >(xd);
    auto b = amgcl::backend::reinterpret_as_rhs<amgcl::static_matrix<float, 2, 2> >(cxd);
    auto c = amgcl::backend::reinterpret_as_rhs<amgcl::static_matrix<double, 2, 2> >(xf);
    auto d = amgcl::backend::reinterpret_as_rhs<amgcl::static_matrix<double, 4, 4> >(xd);
    (void)a; (void)b; (void)c; (void)d;
}
void unit_mixed() {
    one<amgcl::solver::cg, amgcl::relaxation::spai0>();
    one<amgcl::solver::bicgstab, amgcl::relaxation::ilu0>();
    one<amgcl::solver::gmres, amgcl::relaxation::spai0>();
}
