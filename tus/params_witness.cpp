// C14-D must-compile witnesses: for every params struct of the serial library,
// composed at compile time, construct it from a property tree and export it
// again.  A diagnostic located in /repo is the verdict for that struct.
#include "all_headers.cpp"

template <class P> void witness() {
    boost::property_tree::ptree in, out;
    P prm(in);
    prm.get(out, "");
}

typedef amgcl::backend::builtin<double> B;
typedef amgcl::amg<B, amgcl::coarsening::smoothed_aggregation, amgcl::relaxation::spai0> AMG;
typedef amgcl::make_solver<AMG, amgcl::solver::cg<B>> MS;

void params_witnesses() {
    using namespace amgcl;
    witness< solver::cg<B>::params >();
    witness< solver::bicgstab<B>::params >();
    witness< solver::bicgstabl<B>::params >();
    witness< solver::gmres<B>::params >();
    witness< solver::fgmres<B>::params >();
    witness< solver::lgmres<B>::params >();
    witness< solver::idrs<B>::params >();
    witness< solver::richardson<B>::params >();
    witness< solver::preonly<B>::params >();
    witness< relaxation::damped_jacobi<B>::params >();
    witness< relaxation::gauss_seidel<B>::params >();
    witness< relaxation::chebyshev<B>::params >();
    witness< relaxation::ilu0<B>::params >();
    witness< relaxation::iluk<B>::params >();
    witness< relaxation::ilup<B>::params >();
    witness< relaxation::ilut<B>::params >();
    witness< relaxation::spai0<B>::params >();
    witness< relaxation::spai1<B>::params >();
    witness< relaxation::detail::ilu_solve<B>::params >();
    witness< coarsening::plain_aggregates::params >();
    witness< coarsening::pointwise_aggregates::params >();
    witness< coarsening::nullspace_params >();
    witness< coarsening::aggregation<B>::params >();
    witness< coarsening::smoothed_aggregation<B>::params >();
    witness< coarsening::smoothed_aggr_emin<B>::params >();
    witness< coarsening::ruge_stuben<B>::params >();
    witness< AMG::params >();
    witness< MS::params >();
    witness< make_block_solver<AMG, solver::cg<B>>::params >();
    witness< deflated_solver<AMG, solver::cg<B>>::params >();
    witness< preconditioner::cpr<AMG, relaxation::as_preconditioner<B, relaxation::ilu0>>::params >();
    witness< preconditioner::cpr_drs<AMG, relaxation::as_preconditioner<B, relaxation::ilu0>>::params >();
    witness< preconditioner::schur_pressure_correction<MS, MS>::params >();
    witness< preconditioner::dummy<B>::params >();
    witness< relaxation::as_preconditioner<B, relaxation::ilu0>::params >();
    witness< backend::block_crs<double>::params >();
}
