// C14-D must-compile witnesses for the params structs of the MPI part.
#include "all_headers_mpi.cpp"
#include <amgcl/solver/cg.hpp>
#include <amgcl/relaxation/spai0.hpp>
#include <amgcl/amg.hpp>
#include <amgcl/coarsening/smoothed_aggregation.hpp>
#include <amgcl/mpi/solver/cg.hpp>
#include <amgcl/mpi/relaxation/spai0.hpp>

template <class P> void witness() {
    boost::property_tree::ptree in, out;
    P prm(in);
    prm.get(out, "");
}

typedef amgcl::backend::builtin<double> B;
typedef amgcl::mpi::amg<
    B,
    amgcl::mpi::coarsening::smoothed_aggregation<B>,
    amgcl::mpi::relaxation::spai0<B>,
    amgcl::mpi::direct::skyline_lu<double>,
    amgcl::mpi::partition::merge<B> > MAMG;
typedef amgcl::mpi::make_solver<MAMG, amgcl::mpi::solver::cg<B> > MMS;
typedef amgcl::amg<B, amgcl::coarsening::smoothed_aggregation, amgcl::relaxation::spai0> AMG;

void params_witnesses_mpi() {
    using namespace amgcl;
    witness< mpi::partition::merge<B>::params >();
    witness< mpi::coarsening::pmis<B>::params >();
    witness< mpi::coarsening::aggregation<B>::params >();
    witness< mpi::coarsening::smoothed_aggregation<B>::params >();
    witness< MAMG::params >();
    witness< MMS::params >();
    witness< mpi::cpr<MAMG, mpi::relaxation::as_preconditioner<mpi::relaxation::spai0<B>>>::params >();
    witness< mpi::schur_pressure_correction<MMS, MMS>::params >();
    witness< mpi::subdomain_deflation<AMG, mpi::solver::cg<B>, mpi::direct::skyline_lu<double>>::params >();
    witness< mpi::direct::skyline_lu<double>::params >();
}
