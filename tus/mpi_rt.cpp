// MPI instantiation unit: run-time distributed solver, CPR, Schur pressure
// correction, subdomain deflation, distributed matrix kernels.
#include <complex>
#include <amgcl/value_type/static_matrix.hpp>
#include <amgcl/value_type/complex.hpp>
#include <vector>
#include <tuple>
#include <boost/property_tree/ptree.hpp>

#include <amgcl/backend/builtin.hpp>
#include <amgcl/adapter/crs_tuple.hpp>
#include <amgcl/amg.hpp>
#include <amgcl/make_solver.hpp>
#include <amgcl/coarsening/runtime.hpp>
#include <amgcl/relaxation/runtime.hpp>
#include <amgcl/relaxation/as_preconditioner.hpp>
#include <amgcl/preconditioner/runtime.hpp>
#include <amgcl/mpi/util.hpp>
#include <amgcl/mpi/make_solver.hpp>
#include <amgcl/mpi/preconditioner.hpp>
#include <amgcl/mpi/amg.hpp>
#include <amgcl/mpi/cpr.hpp>
#include <amgcl/mpi/schur_pressure_correction.hpp>
#include <amgcl/mpi/block_preconditioner.hpp>
#include <amgcl/mpi/subdomain_deflation.hpp>
#include <amgcl/mpi/coarsening/runtime.hpp>
#include <amgcl/mpi/relaxation/runtime.hpp>
#include <amgcl/mpi/relaxation/as_preconditioner.hpp>
#include <amgcl/mpi/solver/runtime.hpp>
#include <amgcl/mpi/direct_solver/runtime.hpp>
#include <amgcl/mpi/partition/runtime.hpp>
#include <amgcl/profiler.hpp>

namespace amgcl { profiler<> prof; }

typedef amgcl::backend::builtin<double> Backend;
typedef amgcl::mpi::distributed_matrix<Backend> DMatrix;

template <class Solver, bool Print, class M>
void drive(amgcl::mpi::communicator comm, const M &A) {
    boost::property_tree::ptree prm, out;
    std::vector<double> rhs, x;
    Solver solve(comm, A, prm);
    (void)solve(rhs, x);
    solve.apply(rhs, x);
    solve.prm.get(out, "");
    if constexpr (Print) std::cout << solve << std::endl;
}

void unit_mpi_rt() {
    amgcl::mpi::communicator comm(MPI_COMM_WORLD);
    std::vector<ptrdiff_t> ptr, col;
    std::vector<double> val;
    ptrdiff_t n = 0;
    auto A = std::tie(n, ptr, col, val);

    typedef amgcl::mpi::make_solver<
        amgcl::runtime::mpi::preconditioner<Backend>,
        amgcl::runtime::mpi::solver::wrapper<Backend> > RT;
    drive<RT, true>(comm, A);
    {
        boost::property_tree::ptree prm;
        auto dA = std::make_shared<DMatrix>(comm, A);
        RT solve(comm, dA, prm);
        solve.precond().rebuild(dA);
        double r = amgcl::backend::spectral_radius<true>(*dA, 0);
        r += amgcl::backend::spectral_radius<false>(*dA, 5);
        (void)r;
        auto T = amgcl::mpi::transpose(*dA);
        auto P = amgcl::mpi::product(*dA, *T);
        amgcl::mpi::scale(*P, 2.0);
        amgcl::mpi::sort_rows(*P);
    }

    typedef amgcl::mpi::amg<
        Backend,
        amgcl::runtime::mpi::coarsening::wrapper<Backend>,
        amgcl::runtime::mpi::relaxation::wrapper<Backend>,
        amgcl::runtime::mpi::direct::solver<double>,
        amgcl::runtime::mpi::partition::wrapper<Backend> > MAMG;

    typedef amgcl::mpi::make_solver<
        amgcl::mpi::cpr<
            MAMG,
            amgcl::mpi::relaxation::as_preconditioner<amgcl::runtime::mpi::relaxation::wrapper<Backend> > >,
        amgcl::runtime::mpi::solver::wrapper<Backend> > CPR;
    drive<CPR, true>(comm, A);

    typedef amgcl::mpi::make_solver<
        amgcl::mpi::schur_pressure_correction<
            amgcl::mpi::make_solver<
                amgcl::mpi::block_preconditioner<
                    amgcl::relaxation::as_preconditioner<Backend, amgcl::runtime::relaxation::wrapper> >,
                amgcl::runtime::mpi::solver::wrapper<Backend> >,
            amgcl::mpi::subdomain_deflation<
                amgcl::amg<Backend, amgcl::runtime::coarsening::wrapper, amgcl::runtime::relaxation::wrapper>,
                amgcl::runtime::mpi::solver::wrapper<Backend>,
                amgcl::runtime::mpi::direct::solver<double> > >,
        amgcl::runtime::mpi::solver::wrapper<Backend> > SCHUR;
    drive<SCHUR, false>(comm, A);

    typedef amgcl::mpi::subdomain_deflation<
        amgcl::runtime::preconditioner<Backend>,
        amgcl::runtime::mpi::solver::wrapper<Backend>,
        amgcl::runtime::mpi::direct::solver<double> > SDD;
    {
        boost::property_tree::ptree prm;
        std::vector<double> rhs, x;
        SDD solve(comm, A, prm);
        (void)solve(rhs, x);
    }
    // MPI datatypes of every value type that can travel between ranks (C11: the datatype covers the whole value)
    {
        typedef std::complex<double> Cx;
        (void)amgcl::mpi::datatype<amgcl::static_matrix<double, 2, 2> >();
        (void)amgcl::mpi::datatype<amgcl::static_matrix<float, 3, 3> >();
        (void)amgcl::mpi::datatype<amgcl::static_matrix<Cx, 2, 2> >();
        (void)amgcl::mpi::datatype<amgcl::static_matrix<Cx, 3, 1> >();
        (void)amgcl::mpi::datatype<amgcl::static_matrix<double, 4, 1> >();
    }
}
