#include <amgcl/value_type/static_matrix.hpp>
#include <amgcl/adapter/block_matrix.hpp>
#include <amgcl/make_block_solver.hpp>
#include <amgcl/relaxation/as_block.hpp>
#include <amgcl/coarsening/as_scalar.hpp>
#include <amgcl/coarsening/smoothed_aggregation.hpp>
#include <amgcl/relaxation/ilu0.hpp>
#include <amgcl/relaxation/spai0.hpp>
#include <amgcl/relaxation/damped_jacobi.hpp>
#include <amgcl/relaxation/chebyshev.hpp>
#include <amgcl/relaxation/gauss_seidel.hpp>
#include <amgcl/solver/bicgstab.hpp>
#include "common.hpp"
typedef amgcl::static_matrix<double, 2, 2> blk;
template <template <class> class Relax>
void as_block_unit() {
    typedef amgcl::backend::builtin<blk> BB;
    typedef amgcl::backend::builtin<double> SB;
    typedef amgcl::make_solver<
        amgcl::amg<SB, amgcl::coarsening::smoothed_aggregation,
                   amgcl::relaxation::as_block<BB, Relax>::template type>,
        amgcl::solver::bicgstab<SB> > S;
    std::vector<ptrdiff_t> ptr, col;
    std::vector<double> val, rhs, x;
    ptrdiff_t n = 0;
    boost::property_tree::ptree prm;
    S s(std::tie(n, ptr, col, val), prm);
    (void)s(rhs, x);
}

void unit_vt_block() {
    rt_unit< amgcl::backend::builtin<blk> >::run();

    // scalar system solved through the block-solver wrapper (mixed scalar/block vectors)
    typedef amgcl::backend::builtin<blk> BB;
    typedef amgcl::make_block_solver<
        amgcl::amg<BB, amgcl::runtime::coarsening::wrapper, amgcl::runtime::relaxation::wrapper>,
        amgcl::runtime::solver::wrapper<BB> > BSolver;
    std::vector<ptrdiff_t> ptr, col;
    std::vector<double> val, rhs, x;
    ptrdiff_t n = 0;
    boost::property_tree::ptree prm;
    BSolver bs(std::tie(n, ptr, col, val), prm);
    (void)bs(rhs, x);

    // scalar backend with block relaxation
    typedef amgcl::backend::builtin<double> SB;
    typedef amgcl::make_solver<
        amgcl::amg<SB, amgcl::coarsening::smoothed_aggregation,
                   amgcl::relaxation::as_block<BB, amgcl::relaxation::ilu0>::type>,
        amgcl::solver::bicgstab<SB> > ABSolver;
    ABSolver as(std::tie(n, ptr, col, val), prm);
    (void)as(rhs, x);
    as_block_unit<amgcl::relaxation::spai0>();
    as_block_unit<amgcl::relaxation::damped_jacobi>();
    as_block_unit<amgcl::relaxation::chebyshev>();

    // scalar vectors passed where block vectors are expected (mixed kernels)
    {
        amgcl::backend::crs<blk> Ab;
        amgcl::backend::numa_vector<blk> Db;
        amgcl::backend::numa_vector<double> xs, ys, zs;
        amgcl::backend::spmv(2.0, Ab, xs, 0.0, ys);
        amgcl::backend::residual(xs, Ab, ys, zs);
        amgcl::backend::vmul(2.0, Db, xs, 0.0, zs);
    }
}
