#include <amgcl/backend/eigen.hpp>
#include "common.hpp"
void unit_be_eigen() {
    typedef amgcl::backend::eigen<double> Backend;
    typedef amgcl::make_solver<
        amgcl::amg<Backend, amgcl::runtime::coarsening::wrapper, amgcl::runtime::relaxation::wrapper>,
        amgcl::runtime::solver::wrapper<Backend> > Solver;
    std::vector<ptrdiff_t> ptr, col;
    std::vector<double> val;
    ptrdiff_t n = 0;
    boost::property_tree::ptree prm;
    Solver solve(std::tie(n, ptr, col, val), prm);
    Eigen::VectorXd rhs, x;
    (void)solve(rhs, x);
    solve.apply(rhs, x);
}
