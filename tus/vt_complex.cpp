#include <complex>
#include <amgcl/value_type/complex.hpp>
#include "common.hpp"
void unit_vt_complex() { rt_unit< amgcl::backend::builtin< std::complex<double> > >::run(); }
