// inner-product conventions: every value type and backend
#include <complex>
#include <vector>
#include <amgcl/value_type/interface.hpp>
#include <amgcl/value_type/complex.hpp>
#include <amgcl/value_type/static_matrix.hpp>
#include <amgcl/value_type/eigen.hpp>
#include <amgcl/backend/builtin.hpp>
#include <amgcl/backend/eigen.hpp>
#include <amgcl/solver/detail/givens_rotations.hpp>
typedef std::complex<double> C;
void unit_ip() {
    double d = amgcl::math::inner_product(1.0, 2.0);
    C c = amgcl::math::inner_product(C(1, 2), C(3, 4));
    amgcl::static_matrix<C, 2, 1> sv;
    amgcl::static_matrix<C, 2, 2> sm;
    Eigen::Matrix<C, 2, 1> ev;
    Eigen::Matrix<C, 2, 2> em;
    c += amgcl::math::inner_product(sv, sv);
    auto p1 = amgcl::math::inner_product(sm, sm);
    c += amgcl::math::inner_product(ev, ev);
    auto p2 = amgcl::math::inner_product(em, em);
    std::vector<C> x, y;
    amgcl::backend::numa_vector<C> nx, ny;
    c += amgcl::backend::inner_product(x, y);
    c += amgcl::backend::inner_product(nx, ny);
    Eigen::VectorXcd vx, vy;
    c += amgcl::backend::inner_product(vx, vy);
    // conjugate transposes of every value type (C08)
    double ad = amgcl::math::adjoint(1.0);
    C ac = amgcl::math::adjoint(C(1, 2));
    auto asm_ = amgcl::math::adjoint(sm);
    auto asv = amgcl::math::adjoint(sv);
    amgcl::static_matrix<double, 2, 2> rm; auto arm = amgcl::math::adjoint(rm);
    Eigen::Matrix<C, 2, 2> aem = amgcl::math::adjoint(em);
    (void)ad; (void)ac; (void)asm_; (void)asv; (void)arm; (void)aem;
    (void)d; (void)p1; (void)p2;
    // plane rotations of the GMRES family for complex scalars (C05 rotation-unitary)
    C gc, gs, gx(1, 2), gy(3, 4);
    amgcl::solver::detail::generate_plane_rotation(gx, gy, gc, gs);
    amgcl::solver::detail::apply_plane_rotation(gx, gy, gc, gs);
}
