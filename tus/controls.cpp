// Positive controls: constructs the zero-instance rules must find on every run (they are NOT part of amgcl).
#include <algorithm>
#include <vector>
#include <amgcl/backend/builtin.hpp>
namespace verif_control {
// F.binary-search-sorted must report this function: a binary search over the column indices of a matrix that was not sorted here
inline bool has_entry(const amgcl::backend::crs<double> &A, ptrdiff_t i, ptrdiff_t c) {
    return std::binary_search(A.col + A.ptr[i], A.col + A.ptr[i + 1], c);
}
}
namespace verif_control {
// F.resize-is-not-reset must report scratch::prepare: a reused member buffer "initialised" by resize(n, v)
struct scratch {
    std::vector<double> buf;
    double prepare(size_t n) { buf.resize(n, 0.0); double s = 0; for (size_t i = 0; i < n; ++i) { s += buf[i]; buf[i] = 1.0; } return s; }
};
}
double unit_control_scratch(size_t n) { verif_control::scratch s; return s.prepare(n) + s.prepare(n + 1); }
bool unit_controls(const amgcl::backend::crs<double> &A) { return verif_control::has_entry(A, 0, 0); }

// instantiation only (not a control): move construction / move assignment / swap of the owning containers (C17 G.move-transfers-all)
#include <utility>
#include <amgcl/coarsening/rigid_body_modes.hpp>
// instantiation only: public helper with an output container parameter (C10 / C15 F.resize-is-not-reset)
int unit_rbm(const std::vector<double> &coo, std::vector<double> &B) { return amgcl::coarsening::rigid_body_modes(3, coo, B); }
void unit_moves() {
    amgcl::backend::crs<double> a; amgcl::backend::crs<double> b(std::move(a)); a = std::move(b);
    amgcl::backend::crs<double> c; c = a;     // copy assignment (C.own-only-allocated)
    amgcl::backend::numa_vector<double> v(4), w(4); v.swap(w);
}

namespace verif_control {
// rmerge-row-consumed must report this walk: the pair loop stops with up to two entries left, the tail takes one
inline long rmerge_leaves_one(const long *acol, const long *acol_end, const long *bptr) {
    long w = 0;
    while (acol_end - acol > 2) { long a1 = *acol++; long a2 = *acol++; w += bptr[a1 + 1] - bptr[a1] + bptr[a2 + 1] - bptr[a2]; }
    if (acol < acol_end) { long a = *acol++; w += bptr[a + 1] - bptr[a]; }
    return w;
}
}
long unit_control_rmerge(const long *c, const long *e, const long *p) { return verif_control::rmerge_leaves_one(c, e, p); }

namespace verif_control {
// C.own-only-allocated must report this function: the ownership flag is raised over arrays the matrix did not allocate here
inline void adopt(amgcl::backend::crs<double> &A) { A.own_data = true; A.free_data(); }
}
void unit_control_adopt(amgcl::backend::crs<double> &A) { verif_control::adopt(A); }

namespace verif_control {
// G.resized-member-rewritten must report columns::rebuild: the member is only resize()d and the part of column i above the diagonal is never written
struct columns {
    std::vector<double> q; int m;
    void rebuild(int rows) {
        m = rows; q.resize(m * m);
        for (int i = 0; i < m; ++i) {
            q[i * m + i] = 1.0;
            for (int j = i + 1; j < m; ++j) q[j * m + i] = 0.5;
        }
    }
};
}
double unit_control_columns(int n) { verif_control::columns c; c.rebuild(n); c.rebuild(n + 1); return c.q[0]; }

// instantiation only: product of rectangular static matrices with three distinct extents (C16 static-product-extents)
#include <amgcl/value_type/static_matrix.hpp>
amgcl::static_matrix<double, 2, 4> unit_rect_product(const amgcl::static_matrix<double, 2, 3> &a, const amgcl::static_matrix<double, 3, 4> &b) { return a * b; }
