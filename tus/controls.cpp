// Positive controls: constructs the zero-instance rules must find on every run (they are NOT part of amgcl).
#include <algorithm>
#include <amgcl/backend/builtin.hpp>
namespace verif_control {
// F.binary-search-sorted must report this function: a binary search over the column indices of a matrix that was not sorted here
inline bool has_entry(const amgcl::backend::crs<double> &A, ptrdiff_t i, ptrdiff_t c) {
    return std::binary_search(A.col + A.ptr[i], A.col + A.ptr[i + 1], c);
}
}
bool unit_controls(const amgcl::backend::crs<double> &A) { return verif_control::has_entry(A, 0, 0); }

// instantiation only (not a control): move construction / move assignment / swap of the owning containers (C17 G.move-transfers-all)
#include <utility>
void unit_moves() {
    amgcl::backend::crs<double> a; amgcl::backend::crs<double> b(std::move(a)); a = std::move(b);
    amgcl::backend::numa_vector<double> v(4), w(4); v.swap(w);
}
