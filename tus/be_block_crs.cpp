#include <amgcl/backend/block_crs.hpp>
#include "common.hpp"
void unit_be_block_crs() { rt_unit< amgcl::backend::block_crs<double> >::run(); }
