#include "common.hpp"
void unit_vt_float() { rt_unit< amgcl::backend::builtin<float> >::run(); }
