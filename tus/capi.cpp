// C interface unit: the library source file itself (not part of the baseline build)
#include <lib/amgcl.cpp>
