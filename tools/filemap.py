#!/usr/bin/env python3
"""filemap.py: which repository files does each check read?  For every check, the units it parsed (cached IR under .work/<check tag>*/
after a thorough run of every check) are mapped to their sources under tus/ (or lib/amgcl.cpp) and `clang++ -MM` lists every header of
/repo they include.  Written to .work/filemap.json; used by tools/runall.sh SMART=1 to skip checks a patch cannot influence (a check's
verdict depends only on the files its units parse).  Development aid for the self-test corpora, not a registered command."""
import glob, json, os, re, subprocess, sys
sys.path.insert(0, '/verif/sa')
import ir
deps = {}
def unit_deps(src, mpi):
    key = (src, mpi)
    if key not in deps:
        cmd = ['clang++', '-MM'] + ir.BASE_FLAGS + (ir.mpi_flags() if mpi else []) + ['-I/repo/lib', src]
        r = subprocess.run(cmd, capture_output=True, text=True)
        files = set()
        for tok in r.stdout.replace('\\\n', ' ').split():
            if tok.startswith('/repo/'):
                files.add(os.path.normpath(tok)[len('/repo/'):])
        deps[key] = files
    return deps[key]
out = {}
for d in sorted(glob.glob('/verif/.work/C*')):
    tag = os.path.basename(d)
    pid = re.match(r'(C\d+)', tag).group(1)
    for j in glob.glob(d + '/*.json'):
        name = os.path.basename(j)[:-5]
        src = '/verif/tus/%s.cpp' % name
        if not os.path.exists(src):
            try:
                src = json.load(open(j)).get('unit')
            except Exception:
                src = None
        if not src or not os.path.exists(src):
            continue
        out.setdefault(pid, set()).update(unit_deps(src, 'mpi' in name))
        if src.startswith('/repo/'):
            out[pid].add(src[len('/repo/'):])
for pid, srcs in (('C13', ['type_witness']), ('C07', ['type_witness']), ('C14', ['params_witness', 'params_witness_mpi'])):
    for n in srcs:
        if os.path.exists('/verif/tus/%s.cpp' % n):
            out.setdefault(pid, set()).update(unit_deps('/verif/tus/%s.cpp' % n, 'mpi' in n))
json.dump({k: sorted(v) for k, v in out.items()}, open('/verif/.work/filemap.json', 'w'))
print({k: len(v) for k, v in sorted(out.items())})
