#!/usr/bin/env python3
"""record_confirm.py <keep log> <suite log> ...: write `confirmed_by_me` of seeded/<id>/meta.json from my own runs:
keep log lines  `<id> clean_exit=0 mutant_exit=1 | ...`  (demo on /repo and on a patched scratch copy) and confirm_suite.sh logs
(`applied: ids` + ctest summary).  Only ids with a passing suite run and clean 0 / mutant 1 demo are marked confirmed."""
import json, os, re, sys
demo = {}
suite = {}
for fn in sys.argv[1:]:
    txt = open(fn).read()
    for m in re.finditer(r'^(C\d+-m\d+) clean_exit=(\d+) mutant_exit=(\d+)', txt, flags=re.M):
        demo[m.group(1)] = (int(m.group(2)), int(m.group(3)), os.path.basename(fn))
    m = re.search(r'^applied:(.*)$', txt, flags=re.M)
    if m:
        ids = m.group(1).split()
        ok = '100% tests passed' in txt
        for i in ids:
            if ok or i not in suite:
                suite[i] = (ok, ids, os.path.basename(fn))
n = 0
for sid in sorted(set(demo) | set(suite)):
    f = '/verif/seeded/%s/meta.json' % sid
    if not os.path.exists(f):
        continue
    m = json.load(open(f))
    c = m.get('confirmed_by_me') or {}
    if sid in demo:
        d = demo[sid]
        c['demo'] = 'run.sh %s on /repo (exit %d) and %s on a scratch copy of /repo with patch.diff applied (exit %d)' % ('PASSes' if d[0] == 0 else 'FAILS', d[0], 'FAILs' if d[1] else 'PASSES', d[1])
    if sid in suite:
        ok, ids, fn = suite[sid]
        c['test_suite'] = 'tools/confirm_suite.sh %s (applied together on a scratch copy of /repo, OMP_NUM_THREADS=4 ctest -j6): %s' % (' '.join(ids), '12/12 ctest entries passed' if ok else 'NOT all passed')
    m['confirmed_by_me'] = c
    json.dump(m, open(f, 'w'), indent=1)
    n += 1
print('updated', n)
