#!/bin/bash
# usage: confirm_suite.sh <seed id> [<seed id> ...]
# Applies the seeded patches to a scratch copy of /repo, builds the pinned tests there and runs them
# (OMP_NUM_THREADS=4, see MANIFEST notes).  Prints which patches were applied and the ctest summary.
S=/tmp/mutbuild.$$
rm -rf $S; mkdir -p $S; rsync -a --exclude _build --exclude .git /repo/ $S/
applied=""
for id in "$@"; do
  if (cd $S && patch -p1 -s --dry-run < /verif/seeded/$id/patch.diff >/dev/null 2>&1); then
    (cd $S && patch -p1 -s < /verif/seeded/$id/patch.diff) && applied="$applied $id"
  else
    echo "SKIP $id (does not apply on top of the others)"
  fi
done
echo "applied:$applied"
cmake -G Ninja -S $S -B $S/_build -DAMGCL_BUILD_TESTS=ON -DCMAKE_BUILD_TYPE=RelWithDebInfo -DCMAKE_CXX_FLAGS=-Wno-error > /dev/null 2>&1
cmake --build $S/_build -j${J:-8} 2>&1 | grep -E "error|FAILED" | head -5
OMP_NUM_THREADS=4 ctest --test-dir $S/_build -j6 --timeout 900 2>&1 | tail -5
rm -rf $S
