#!/bin/bash
# usage: all_checks.sh [quick|thorough]  -> every registered check against /repo; prints exit code, summary line and any ANALYSIS-BROKEN / VIOLATION line
T=${1:-quick}; bad=0
for p in $(python3 -c "import json;print(' '.join(c['property_id'] for c in json.load(open('/verif/MANIFEST.json'))['checks']))"); do
  python3 /verif/check.py $p --tier $T > /tmp/ac_$p.log 2>&1; rc=$?
  echo "$p exit=$rc $(head -1 /tmp/ac_$p.log | cut -c1-100)"
  grep -E "^(ANALYSIS-BROKEN|VIOLATION|Traceback)" /tmp/ac_$p.log | cut -c1-200
  [ $rc != 0 ] && bad=1
done
exit $bad
