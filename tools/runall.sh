#!/bin/bash
# usage: runall.sh <patch.diff> [tier]   -> applies the patch to a scratch copy of /repo and runs every check
# against it in parallel (evidence redirected into the scratch copy).  One line per check; scratch removed.
P=$(readlink -f "$1"); TIER=${2:-quick}
S=$(mktemp -d /tmp/ra_repo.XXXXXX)
rsync -a --exclude _build --exclude .git /repo/ $S/
( cd $S && patch -p1 -s < "$P" ) || { echo "PATCH FAILED"; rm -rf $S; exit 3; }
mkdir -p $S/.ev
# SMART=1: run only the checks whose units parse a file the patch touches (tools/filemap.py builds the map after a thorough run of all
# checks); a check that reads none of the touched files cannot change its verdict
ALL="${CHECKS:-C01 C02 C03 C05 C06 C07 C08 C09 C10 C11 C12 C13 C14 C15 C16 C17 C18 C19 C20}"
if [ -n "$SMART" ] && [ -f /verif/.work/filemap.json ]; then
  ALL=$(python3 - "$P" $ALL <<'PY'
import json, re, sys
patch, checks = sys.argv[1], sys.argv[2:]
touched = set(re.findall(r'^\+\+\+ b/(\S+)', open(patch).read(), flags=re.M)) | set(re.findall(r'^--- a/(\S+)', open(patch).read(), flags=re.M))
fm = json.load(open('/verif/.work/filemap.json'))
print(' '.join(c for c in checks if c not in fm or touched & set(fm[c])))
PY
)
  echo "-- smart: $ALL"
fi
CHECKS="$ALL"
for C in ${CHECKS:-C01 C02 C03 C05 C06 C07 C08 C09 C10 C11 C12 C13 C14 C15 C16 C17 C18 C19 C20}; do
  ( AMGCL_SA_REPO=$S AMGCL_SA_WORK=$S/.work AMGCL_SA_EVIDENCE=$S/.ev python3 /verif/check.py $C --tier $TIER > $S/.ev/$C.log 2>&1; echo $? > $S/.ev/$C.rc ) &
done
wait
for C in ${CHECKS:-C01 C02 C03 C05 C06 C07 C08 C09 C10 C11 C12 C13 C14 C15 C16 C17 C18 C19 C20}; do
  rc=$(cat $S/.ev/$C.rc)
  if [ "$rc" != 0 ]; then
    echo "$C exit=$rc"
    sed "s|$S|<scratch>|g" $S/.ev/$C.log | grep -E "^(  rule=|ANALYSIS)" | cut -c1-${W:-330}
  fi
done
echo "-- done ($P)"
rm -rf $S
