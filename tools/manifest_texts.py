#!/usr/bin/env python3
"""Refresh technique / level texts of MANIFEST.json: the base texts stay, the clauses added in the later sessions are appended
(hand-written summary per property + the names of all rules the check evaluates, taken from its evidence file).  Idempotent."""
import json, os
M = '/verif/MANIFEST.json'
ADD = {
 'C01': ("cycle analysis of operator applications against counter updates; last-writer dataflow of the vectors added to x",
         "Also decided: every CFG cycle through an application of A modifies the returned counter (the count bounds the work), x is only incremented inside a solve, and under right / left preconditioning x is incremented only by vectors of the solution space (last-writer dataflow)."),
 'C02': ("fact-level inlining of helpers; shared zero-overwrite and Chebyshev-bound rules",
         "Also decided: the Chebyshev smoother estimates its spectral bound for the operator it iterates on (scaled / unscaled), zero-coefficient primitives really overwrite the scratch they are used to reset, smoothed aggregation damps with the radius of the diagonally scaled operator."),
 'C03': ("argument-flow rules on policy construction; contradiction rule on the coarse_enough tests; sorted-operand rule for the 16-thread SpGEMM switch",
         "Also decided: every coarsening / relaxation policy object of setup and rebuild is constructed from the configured parameters, every test against coarse_enough is the strict `rows > coarse_enough`, the operators handed to the SpGEMM (P, R, coarse A) are sorted, product dispatch and factor order of the marker-based SpGEMM, amg::rebuild runs the level loop on every normally returning path."),
 'C05': ("inner-product argument-role analysis (conjugation side), cycle analysis of operator applications against counter updates, freshness dataflow of normalisers, last-writer dataflow of x increments, type-level lint on the complex instantiation of the plane rotation",
         "Also decided: conjugate-linearity is used on the correct side in every projection coefficient and shadow-vector product (found and repaired BiCGStab and IDR(s)), plane rotations of the GMRES family are unitary for complex scalars (found and repaired), with maxiter = k exactly k operator applications are counted, basis vectors are normalised with a fresh norm, x is x0 plus solution-space increments, the applied rotation is the unitary completion of its annihilating row."),
 'C06': ("sibling rules over the ILU constructors; CFG path rules on the level schedules",
         "Also decided: the inverted pivot is the right factor of the elimination multiplier in ilu0 / iluk / ilut, the level of fill of ILU(k) is lowered on exactly the paths that accumulate a contribution, the Chebyshev bounds belong to the scaled / unscaled operator used, the level schedules of the triangular solves cover every level and derive the level of a row from all its entries, SPAI-0 takes the adjoint of the diagonal entry as numerator (found and repaired for complex matrices)."),
 'C07': ("loop-extent rule on output writes; type-level rules and compile-time witnesses on the block views",
         "Also decided: kernels that write an output write its full extent, a scalar vector viewed as block vector keeps its own precision and the view covers exactly the bytes of the vector (canonical types per mixed-precision instantiation), inner products conjugate their second argument for every value type, 21 type identities of the value-type traits (compile-time witnesses)."),
 'C08': ("cursor-discipline path rule for grouped scans, scope rule for flagged min/max reductions, def-use rule in the power iteration, zero-instance binary-search rule with positive control",
         "Also decided: in the block-to-pointwise reduction an element that opens the next block column is not consumed by the scan that rejects it (found and repaired), the first-element flag of a block maximum is armed outside the loops the reduction runs over, the power iteration accumulates the norm of the vector it stores, no binary search over unsorted rows."),
 'C09': ("nowait phase analysis, path rules on the schedule constructors (final level, whole-row maximum), zero-instance resize rule with positive control",
         "Also decided: nothing written in an `omp for nowait` loop is touched before the next barrier, all levels of the schedules are turned into tasks, the level that pushes not-yet-swept neighbours is final, the ILU level is a maximum over the whole row, thread-private scratch objects (QR) are not 're-initialised' by resize(n, v), operators handed to the thread-count dependent SpGEMM switch are sorted, an owned index does not make a write to a bit-packed container (std::vector<bool>) exclusive."),
 'C10': ("scratch re-initialisation dataflow per loop iteration, null-dereference guard dataflow with sibling contradiction, exception / OpenMP region rule, shared history-freedom rules",
         "Also decided: local C arrays are initialised before any read (also per participating thread), scratch handed whole to a callee is rebuilt in every iteration, a shared_ptr that a sibling path guards is not dereferenced unguarded (found and repaired cpr_drs), no exception can leave an OpenMP region, the cycle and the zero-coefficient primitives do not read stale memory, the counting and the filling pass of every two-pass CRS assembly select the same entries (truth-table comparison of the selection predicates), the skyline copy pass stores only what the profile pass sized."),
 'C11': ("polynomial normal forms of message offsets / counts, may-analysis of in-flight nonblocking buffers, exact path condition on keep_src, sentinel rule, MPI datatype size rule (constant evaluation)",
         "Also decided: MPI datatypes cover the whole value for every block / complex type, global reductions use the operator of the local accumulation, a slice is sent from / received into its own position, buffers of nonblocking operations are neither modified nor out of scope before completion (found and repaired the loop-local count buffer of PMIS), move_to_backend(keep_src) leaves the source matrices intact, a column count of 0 is not 'not given', per-row sums cover the ghost columns, the requests of start_exchange are waited for on every path of finish_exchange, converting copy constructors copy member by member."),
 'C12': ("loop-nesting rule for the factor order of mpi::product, shared nonblocking-buffer / message-extent / keep-src rules, cross-class sibling rule for the run-time MPI relaxations",
         "Also decided: mpi::product multiplies (entry of A) * (entry of B), per-row sums of distributed kernels cover the remote part, messages are taken at their own slice and their buffers stay valid, transfer operators moved with keep_src stay intact, every run-time MPI relaxation is built from the operand its compile-time class uses (Chebyshev from the distributed matrix), a row is classified as lonely only from both of its parts."),
 'C13': ("symbolic four-state evaluation of the complex adapter, type-level view rules, compile-time witnesses",
         "Also decided: adapter::complex_matrix presents a + ib as [[a, -b], [b, a]] (evaluated for all states of its iterator), block views keep the scalar of the vector and cover it exactly, blocks gathered by the block adapter are reset per block column, inner products conjugate the second argument, the block adapter is handed sorted rows inside the library (known finding for direct use), flat loops over a static_matrix run over all N*M entries."),
 'C14': ("cross-member and cross-class sibling agreement of the run-time wrappers (operands, exports)",
         "Also decided: every member of a run-time wrapper dispatches each enumerator with the same operands, exports are unconditional, detail::empty_params reports every key, the run-time MPI relaxation wrapper uses the operand of the compile-time class, the default of every value import is the same-named member of a default-constructed params object."),
 'C15': ("clear()-coverage rule, zero-instance resize rule with positive control, path-conditional documented-domain exemptions",
         "Also decided: clear() members reset every member other mutators write, member.resize(n, v) is never relied on to re-initialise a reused member, zero-coefficient primitives overwrite; the Schur scratch vectors are exempt only outside the documented parameter domain (path condition), not as a whole; output container parameters are not 'initialised' by resize(n, v) either (found and repaired rigid_body_modes)."),
 'C16': ("path enumeration over index orderings (profile), loop-nesting rule (LU factor order), integer-width rule on local work arrays",
         "Also decided: the skyline profile covers every store of the copy pass, L entries are the left and U entries the right factor of every update, no wider non-constant integer is stored into a narrower local work array of the reordering / direct kernels."),
 'C17': ("semantic own_data borrowing rule, sortedness rule before the block adapter, move / swap completeness, dimension forwarding, row-scan rule",
         "Also decided: own_data is cleared exactly where arrays are borrowed, make_block_solver sorts before the block adapter sees the matrix (found and repaired; known finding for direct use of the adapter), move construction / assignment / swap transfer all members, adapters forward rows / cols of the wrapped matrix, gathered blocks are reset, a row scan over a user matrix (adapters, backend::diagonal) is left early only on an equality test."),
 'C18': ("reaching-modification rule (Lm), polynomial index rule (deflation), shared sort-on-entry / scratch / null-deref rules",
         "Also decided: the explicit pressure block of the Schur operator is the extracted Kpp (copied before any adjustment), the deflation correction applies E^-1 with the written coefficient as row index, CPR sorts its private copy in constructor and partial_update, the per-cell scratch of the CPR weighting is rebuilt per cell, partial updates dereference only what they built."),
 'C19': ("compile-time evaluation of the written precision per value type, control-dependence rule for the symmetric mirror, polynomial seek-layout rule, integer parse width, sentinel and parallel-region rules",
         "Also decided: the written precision is max_digits10 of the scalar for every value type, the mirrored entry of a symmetric file depends only on the symmetry flag, i != j and the position of j, every seek of the binary readers equals the section start plus first element times element size (distinct-type instantiation), integers are parsed in the width of their type, row_beg / row_end = -1 is the only 'whole file' value, no exception can leave the parallel row-sorting loop, the readers do not rely on resize(n, v) to reset reused output containers."),
 'C20': ("symbolic evaluation of every entry point with helpers inlined",
         "Also decided: amgcl_precond_apply performs exactly amg.apply(rhs, x) and the solve entry points exactly solver([A,] rhs, x) on the cast handle, the matrix arguments are untouched before the solve, read_json forwards the tree unchanged."),
}
m = json.load(open(M))
for c in m['checks']:
    pid = c['property_id']
    if pid not in ADD:
        continue
    tech, lvl = ADD[pid]
    base_t = c['technique'].split(' || ')[0]
    c['technique'] = base_t + ' || later additions: ' + tech
    base_l = c['level_claimed']['text'].split(' [Later sessions] ')[0]
    c['level_claimed']['text'] = base_l + ' [Later sessions] ' + lvl
    c['level_claimed']['design_ref'] = c['level_claimed'].get('design_ref', '').split(';')[0] + '; sections 10.3, 10.4, 11.2'
    ev = '/verif/evidence/%s.json' % pid
    if os.path.exists(ev):
        rules = sorted(json.load(open(ev)).get('coverage', {}).get('rules', {}).keys())
        base_n = c.get('level_note', '').split(' Rules evaluated: ')[0]
        c['level_note'] = base_n + ' Rules evaluated: ' + ', '.join(rules) + ' (texts in the evidence file).'
json.dump(m, open(M, 'w'), indent=1)
print('ok')
