#!/usr/bin/env python3
"""keep_mutant.py <src dir> <seed id> <caught_by text> : copy an agent-produced mutant into /verif/seeded/<seed id>/"""
import json, os, shutil, sys
src, sid, caught = sys.argv[1:4]
dst = os.path.join('/verif/seeded', sid)
os.makedirs(dst, exist_ok=True)
for fn in os.listdir(src):
    p = os.path.join(src, fn)
    if os.path.isfile(p) and fn != 'demo' and not fn.endswith('.o') and os.path.getsize(p) < 200000:
        shutil.copy(p, os.path.join(dst, fn))
m = json.load(open(os.path.join(dst, 'meta.json')))
m['seed_id'] = sid
m['breaks_property'] = m.get('property')
m['detected_by'] = caught
m.setdefault('confirmed_by_me', {})
json.dump(m, open(os.path.join(dst, 'meta.json'), 'w'), indent=1)
print('kept', dst, sorted(os.listdir(dst)))
