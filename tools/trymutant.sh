#!/bin/bash
# usage: trymutant.sh <mutant dir with patch.diff [+ run.sh]> <PID> [<PID>...]
# Applies the patch to a scratch copy of /repo, optionally runs the demo on clean and mutated trees,
# and runs the given checks against the scratch copy.  Removes the scratch copy afterwards.
D=$1; shift
S=$(mktemp -d /tmp/mut_repo.XXXXXX)
rsync -a --exclude _build --exclude .git /repo/ $S/
if [ -x "$D/run.sh" ] && [ -z "$NODEMO" ]; then
  echo "-- demo on clean tree:";  ( "$D/run.sh" /repo 2>&1 | tail -3 ); echo "   exit=$?"
fi
( cd $S && patch -p1 -s < "$D/patch.diff" ) || { echo "PATCH FAILED"; rm -rf $S; exit 3; }
if [ -x "$D/run.sh" ] && [ -z "$NODEMO" ]; then
  echo "-- demo on mutant:"; ( "$D/run.sh" $S 2>&1 | tail -3 ); echo "   exit=$?"
fi
for P in "$@"; do
  AMGCL_SA_REPO=$S AMGCL_SA_WORK=$S/.work python3 /verif/check.py $P --tier ${TIER:-quick} 2>&1 | sed "s|$S|<scratch>|g" | grep -E "^(VIOLATION|  rule=|ANALYSIS|C[0-9]+ \[)" | cut -c1-300
  echo "   check $P exit=${PIPESTATUS[0]}"
done
rm -rf $S
