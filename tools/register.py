#!/usr/bin/env python3
"""register/refresh one check in MANIFEST.json: register.py ID 'technique' 'level text' 'level note' 'design ref'"""
import json, sys
pid, technique, text, note, ref = sys.argv[1:6]
m = json.load(open('/verif/MANIFEST.json'))
m['checks'] = [c for c in m['checks'] if c['property_id'] != pid]
m['checks'].append({
    "property_id": pid,
    "quick_cmd": "python3 /verif/check.py %s --tier quick" % pid,
    "thorough_cmd": "python3 /verif/check.py %s --tier thorough" % pid,
    "evidence_file": "/verif/evidence/%s.json" % pid,
    "engine": "amgcl-sa",
    "technique": technique,
    "level_claimed": {"category": "other", "text": text, "design_ref": ref},
    "level_note": note})
m['checks'].sort(key=lambda c: c['property_id'])
m['not_applicable'] = [n for n in m['not_applicable'] if n['property_id'] != pid]
m['engines'][0]['serves_properties'] = sorted({c['property_id'] for c in m['checks']})
json.dump(m, open('/verif/MANIFEST.json', 'w'), indent=1)
