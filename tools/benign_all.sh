#!/bin/bash
# usage: benign_all.sh [tier]  -> runs every check against every behaviour-preserving change under selftest/benign
# (each applied alone to a scratch copy of /repo).  Every line must be silent ("-- done" only).
TIER=${1:-thorough}
for d in /verif/selftest/benign/*/; do
  echo "== $(basename $d)"
  SMART=1 /verif/tools/runall.sh $d/patch.diff $TIER
done
