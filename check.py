#!/usr/bin/env python3
"""Driver: python3 /verif/check.py <ID> [--tier quick|thorough]"""
import argparse
import importlib
import os
import sys

HERE = os.path.dirname(os.path.abspath(__file__))
sys.path.insert(0, os.path.join(HERE, 'sa'))


def main():
    ap = argparse.ArgumentParser()
    ap.add_argument('pid')
    ap.add_argument('--tier', default=os.environ.get('VERIF_TIER', 'quick'), choices=['quick', 'thorough'])
    a = ap.parse_args()
    from framework import run_check
    mod = importlib.import_module(a.pid.lower())
    sys.exit(run_check(a.pid, a.tier, mod.main))


if __name__ == '__main__':
    main()
