// Replay of the C06 finding "SPAI-0 is not the least-squares minimiser for complex matrices" (rule spai0-numerator-adjoint).
// SPAI-0: diagonal M minimising ||I - M A||_F.  Row i:  sum_j |delta_ij - m_i a_ij|^2  is minimal for  m_i = conj(a_ii) / sum_j |a_ij|^2.
// relaxation::spai0 computed  m_i = a_ii / sum_j |a_ij|^2  (no conjugate): equal for real matrices, not the minimiser as soon as a
// diagonal entry has an imaginary part (C06: "SPAI-0 ... the row-wise least-squares minimiser of ||I - M A||_F on their pattern ...
// for all square matrices ... complex").
// Build: g++ -std=gnu++17 -O1 -fopenmp -I<repo> C06_spai0_complex.cpp && ./a.out
// Exit 0 (PASS) when, for every row, no perturbation of amgcl's m_i lowers the row objective and m_i equals the closed-form minimiser.
#include <complex>
#include <vector>
#include <iostream>
#include <tuple>
#include <amgcl/backend/builtin.hpp>
#include <amgcl/value_type/complex.hpp>
#include <amgcl/adapter/crs_tuple.hpp>
#define private public      // replay only: read the computed diagonal M
#include <amgcl/relaxation/spai0.hpp>
#undef private
#include <amgcl/profiler.hpp>
namespace amgcl { profiler<> prof; }
typedef std::complex<double> C;
typedef amgcl::backend::builtin<C> B;

int main() {
    const int n = 8;
    std::vector<ptrdiff_t> ptr(1, 0), col; std::vector<C> val;
    for (int i = 0; i < n; ++i) {
        if (i > 0)     { col.push_back(i - 1); val.push_back(C(-1.0, 0.5)); }
        col.push_back(i); val.push_back(C(2.0 + 0.1 * i, 1.5 - 0.2 * i));      // diagonal with an imaginary part
        if (i + 1 < n) { col.push_back(i + 1); val.push_back(C(-0.7, -0.3)); }
        ptr.push_back(col.size());
    }
    amgcl::backend::crs<C> A(std::tie(n, ptr, col, val));
    amgcl::relaxation::spai0<B> S(A, amgcl::relaxation::spai0<B>::params(), B::params());
    int bad = 0;
    double obj_amgcl = 0, obj_min = 0;
    for (int i = 0; i < n; ++i) {
        C m = (*S.M)[i];
        C aii = 0; double den = 0;
        for (ptrdiff_t j = ptr[i]; j < ptr[i + 1]; ++j) { den += std::norm(val[j]); if (col[j] == i) aii = val[j]; }
        C best = std::conj(aii) / den;
        auto obj = [&](C mi) { double s = 0; for (ptrdiff_t j = ptr[i]; j < ptr[i + 1]; ++j) s += std::norm(C(col[j] == i ? 1.0 : 0.0) - mi * val[j]); return s; };
        obj_amgcl += obj(m); obj_min += obj(best);
        if (std::abs(m - best) > 1e-12 * std::abs(best)) {
            ++bad;
            std::cout << "row " << i << ": amgcl m = " << m << " (row objective " << obj(m) << "), minimiser conj(a_ii)/sum|a_ij|^2 = " << best << " (row objective " << obj(best) << ")" << std::endl;
        }
    }
    std::cout << "||I - M A||_F^2: amgcl " << obj_amgcl << ", minimum over diagonal M " << obj_min << std::endl;
    std::cout << (bad ? "FAIL" : "PASS") << std::endl;
    return bad ? 1 : 0;
}
