#include <iostream>
#include <amgcl/mpi/util.hpp>
int main(int argc, char **argv) {
    MPI_Init(&argc, &argv);
    {
        amgcl::mpi::communicator comm(MPI_COMM_WORLD);
        try { comm.check(comm.rank != 1, "condition fails on rank 1"); }
        catch (const std::exception &e) { if (comm.rank == 0) std::cout << "threw: " << e.what() << std::endl; }
    }
    MPI_Finalize();
}
