// Replay of the C11/C12 finding "pmis sends the point count through a variable local to one loop iteration" (rule J.buffer-outlives-request).
//   for (i ...) { int npts = send_pts[i].size(); MPI_Isend(&npts, 1, MPI_INT, ..., &send_cnt_req[i]); ... }     (two places in pmis.hpp)
// MPI-3.1 section 3.7.2: the send buffer of a nonblocking send must stay untouched (and alive) until the request completes.  An MPI
// runtime may read it as late as the matching receive is posted (rendezvous); the variable is gone / overwritten by the next
// iteration by then.  Open MPI copies 4-byte messages eagerly, which hides the defect; the quantifier of C11 / C12 ranges over every
// behaviour a conforming runtime may show.  This program interposes (PMPI) a conforming "lazy" runtime: a nonblocking send is started
// (its buffer read) when the process enters its next blocking MPI call - exactly what a rendezvous protocol does.
// Build: mpicxx -std=gnu++17 -O1 -fopenmp -I<repo> C12_pmis_isend_loop_local.cpp -o t
// Run:   mpirun --allow-run-as-root --oversubscribe -np 3 ./t          (lazy runtime; must behave like the eager one)
// Exit 0 / PASS when the distributed AMG setup + solve give the same iteration count and residual under the lazy runtime as under the
// eager one (DEFER=0 in the environment switches the interposer off).
#include <mpi.h>
#include <cstdlib>
#include <cstring>
#include <iostream>
#include <vector>
#include <map>
#include <tuple>

// ---------------------------------------------------------------- lazy nonblocking sends (PMPI interposer)
struct pending { const void *buf; int count; MPI_Datatype dt; int dest, tag; MPI_Comm comm; MPI_Request *user; };
static std::vector<pending> g_pending;
static bool g_defer = true;
static void flush_pending() {
    for (auto &p : g_pending) PMPI_Isend(p.buf, p.count, p.dt, p.dest, p.tag, p.comm, p.user);    // the buffer is read NOW
    g_pending.clear();
}
extern "C" {
int MPI_Isend(const void *buf, int count, MPI_Datatype dt, int dest, int tag, MPI_Comm comm, MPI_Request *req) {
    if (!g_defer) return PMPI_Isend(buf, count, dt, dest, tag, comm, req);
    *req = MPI_REQUEST_NULL;
    g_pending.push_back({buf, count, dt, dest, tag, comm, req});
    return MPI_SUCCESS;
}
int MPI_Recv(void *b, int c, MPI_Datatype d, int s, int t, MPI_Comm cm, MPI_Status *st) { flush_pending(); return PMPI_Recv(b, c, d, s, t, cm, st); }
int MPI_Wait(MPI_Request *r, MPI_Status *st) { flush_pending(); return PMPI_Wait(r, st); }
int MPI_Waitall(int n, MPI_Request *r, MPI_Status *st) { flush_pending(); return PMPI_Waitall(n, r, st); }
int MPI_Waitany(int n, MPI_Request *r, int *i, MPI_Status *st) { flush_pending(); return PMPI_Waitany(n, r, i, st); }
int MPI_Allreduce(const void *s, void *r, int c, MPI_Datatype d, MPI_Op o, MPI_Comm cm) { flush_pending(); return PMPI_Allreduce(s, r, c, d, o, cm); }
int MPI_Allgather(const void *s, int sc, MPI_Datatype sd, void *r, int rc, MPI_Datatype rd, MPI_Comm cm) { flush_pending(); return PMPI_Allgather(s, sc, sd, r, rc, rd, cm); }
int MPI_Barrier(MPI_Comm cm) { flush_pending(); return PMPI_Barrier(cm); }
}

#include <amgcl/backend/builtin.hpp>
#include <amgcl/adapter/crs_tuple.hpp>
#include <amgcl/mpi/util.hpp>
#include <amgcl/mpi/make_solver.hpp>
#include <amgcl/mpi/amg.hpp>
#include <amgcl/mpi/coarsening/smoothed_aggregation.hpp>
#include <amgcl/mpi/relaxation/spai0.hpp>
#include <amgcl/mpi/solver/cg.hpp>
#include <amgcl/profiler.hpp>
namespace amgcl { profiler<> prof; }

typedef amgcl::backend::builtin<double> B;
typedef amgcl::mpi::make_solver<
    amgcl::mpi::amg<B, amgcl::mpi::coarsening::smoothed_aggregation<B>, amgcl::mpi::relaxation::spai0<B>>,
    amgcl::mpi::solver::cg<B>> Solver;

static std::tuple<size_t, double> run(amgcl::mpi::communicator comm, bool defer) {
    g_defer = defer;
    // 2D anisotropic diffusion on a 40 x 30 grid, rows distributed in contiguous chunks that cut through grid lines:
    // the interfaces towards the two neighbours of the middle ranks have different sizes
    const ptrdiff_t nx = 40, ny = 30, n = nx * ny;
    std::vector<ptrdiff_t> cut = {0, (ptrdiff_t)(0.23 * n) + 7, (ptrdiff_t)(0.61 * n) + 13, n};
    if (comm.size != 3) { if (comm.rank == 0) std::cerr << "run with -np 3" << std::endl; MPI_Abort(comm, 2); }
    ptrdiff_t beg = cut[comm.rank], end = cut[comm.rank + 1], nloc = end - beg;
    std::vector<ptrdiff_t> ptr(1, 0), col; std::vector<double> val, rhs(nloc, 1.0), x(nloc, 0.0);
    for (ptrdiff_t g = beg; g < end; ++g) {
        ptrdiff_t i = g % nx, j = g / nx;
        double ax = 1.0 + 0.5 * ((i * 7 + j * 3) % 5), ay = 0.2 + 0.1 * ((i + 2 * j) % 7);
        if (j > 0)      { col.push_back(g - nx); val.push_back(-ay); }
        if (i > 0)      { col.push_back(g - 1);  val.push_back(-ax); }
        col.push_back(g); val.push_back(2 * ax + 2 * ay);
        if (i + 1 < nx) { col.push_back(g + 1);  val.push_back(-ax); }
        if (j + 1 < ny) { col.push_back(g + nx); val.push_back(-ay); }
        ptr.push_back(col.size());
    }
    Solver::params prm;
    prm.precond.coarse_enough = 50;
    Solver solve(comm, std::tie(nloc, ptr, col, val), prm);
    size_t it; double res;
    std::tie(it, res) = solve(rhs, x);
    return std::make_tuple(it, res);
}

int main(int argc, char **argv) {
    MPI_Init(&argc, &argv);
    int rc = 0;
    {
        amgcl::mpi::communicator comm(MPI_COMM_WORLD);
        MPI_Comm_set_errhandler(MPI_COMM_WORLD, MPI_ERRORS_RETURN);
        const char *e = std::getenv("DEFER");
        bool lazy = !(e && std::strcmp(e, "0") == 0);
        size_t it0, it1; double r0, r1;
        std::tie(it0, r0) = run(comm, false);
        if (comm.rank == 0) std::cout << "eager runtime: iterations " << it0 << " residual " << r0 << std::endl;
        if (lazy) {
            try {
                std::tie(it1, r1) = run(comm, true);
                if (comm.rank == 0) std::cout << "lazy  runtime: iterations " << it1 << " residual " << r1 << std::endl;
                if (it1 != it0 || r1 != r0) rc = 1;
            } catch (const std::exception &ex) {
                std::cout << "rank " << comm.rank << ": lazy runtime: exception: " << ex.what() << std::endl;
                rc = 1;
            }
        }
        int all = 0; g_defer = false; PMPI_Allreduce(&rc, &all, 1, MPI_INT, MPI_MAX, MPI_COMM_WORLD); rc = all;
        if (comm.rank == 0) std::cout << (rc ? "FAIL" : "PASS") << std::endl;
    }
    MPI_Finalize();
    return rc;
}
