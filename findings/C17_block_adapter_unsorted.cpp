// Replay for C17 rule E.block-adapter-sorted.
//  (1) make_block_solver built from a valid matrix whose row entries are listed in arbitrary order must give the same solution as
//      from the sorted matrix (fixed in /repo by sorting a private copy);
//  (2) KNOWN FINDING: adapter::block_matrix itself, applied to such a matrix, does not describe the same operator
//      (its row iterator merges the scalar rows with one cursor per row and needs sorted input).
// Build: g++ -std=gnu++17 -O1 -fopenmp -I<repo> C17_block_adapter_unsorted.cpp ; exit 0 = both hold.
#include <vector>
#include <tuple>
#include <iostream>
#include <algorithm>
#include <random>
#include <cmath>
#include <amgcl/backend/builtin.hpp>
#include <amgcl/value_type/static_matrix.hpp>
#include <amgcl/adapter/crs_tuple.hpp>
#include <amgcl/adapter/block_matrix.hpp>
#include <amgcl/make_block_solver.hpp>
#include <amgcl/amg.hpp>
#include <amgcl/coarsening/aggregation.hpp>
#include <amgcl/relaxation/spai0.hpp>
#include <amgcl/solver/bicgstab.hpp>
#include <amgcl/profiler.hpp>
namespace amgcl { profiler<> prof; }
typedef amgcl::static_matrix<double, 2, 2> blk;
typedef amgcl::static_matrix<double, 2, 1> bvec;
int main() {
    const int nb = 400, B = 2, n = nb * B;
    std::vector<ptrdiff_t> ptr(1, 0), col; std::vector<double> val;
    for (int ib = 0; ib < nb; ++ib) for (int k = 0; k < B; ++k) {
        for (int jb = std::max(0, ib - 1); jb <= std::min(nb - 1, ib + 1); ++jb) for (int l = 0; l < B; ++l) {
            col.push_back(jb * B + l); val.push_back((ib == jb) ? (k == l ? 4.0 : -0.5) : (k == l ? -1.0 : -0.1 * (1 + k)));
        }
        ptr.push_back(col.size());
    }
    std::vector<ptrdiff_t> c2 = col; std::vector<double> v2 = val; std::mt19937 g(1);
    for (int i = 0; i < n; ++i) {
        std::vector<int> p(ptr[i+1] - ptr[i]); for (size_t k = 0; k < p.size(); ++k) p[k] = k; std::shuffle(p.begin(), p.end(), g);
        for (size_t k = 0; k < p.size(); ++k) { c2[ptr[i] + k] = col[ptr[i] + p[k]]; v2[ptr[i] + k] = val[ptr[i] + p[k]]; }
    }
    int bad = 0;
    {   // (1)
        typedef amgcl::backend::builtin<blk> BB;
        typedef amgcl::make_block_solver<amgcl::amg<BB, amgcl::coarsening::aggregation, amgcl::relaxation::spai0>, amgcl::solver::bicgstab<BB>> Solver;
        std::vector<double> rhs(n, 1.0), x(n, 0.0);
        Solver solve(std::tie(n, ptr, c2, v2));
        size_t it; double res; std::tie(it, res) = solve(rhs, x);
        double rn = 0; for (int i = 0; i < n; ++i) { double r = rhs[i]; for (ptrdiff_t j = ptr[i]; j < ptr[i+1]; ++j) r -= val[j] * x[col[j]]; rn += r * r; }
        std::cout << "make_block_solver on shuffled rows: true residual " << std::sqrt(rn / n) << std::endl;
        if (!(std::sqrt(rn / n) < 1e-6)) ++bad;
    }
    {   // (2) the adapter itself: y = A x through the block adapter vs through the scalar matrix
        auto As = std::tie(n, ptr, c2, v2);
        amgcl::backend::crs<blk> Ab(amgcl::adapter::block_matrix<blk>(As));
        std::vector<double> x(n), y(n, 0.0), yb(n, 0.0);
        for (int i = 0; i < n; ++i) x[i] = std::sin(0.1 * i);
        for (int i = 0; i < n; ++i) for (ptrdiff_t j = ptr[i]; j < ptr[i+1]; ++j) y[i] += val[j] * x[col[j]];
        for (int ib = 0; ib < nb; ++ib) for (ptrdiff_t j = Ab.ptr[ib]; j < Ab.ptr[ib+1]; ++j) for (int k = 0; k < B; ++k) for (int l = 0; l < B; ++l)
            yb[ib * B + k] += Ab.val[j](k, l) * x[Ab.col[j] * B + l];
        double d = 0; for (int i = 0; i < n; ++i) d = std::max(d, std::abs(y[i] - yb[i]));
        std::cout << "adapter::block_matrix on shuffled rows: max |A x - A_block x| = " << d << std::endl;
        if (!(d < 1e-12)) ++bad;
    }
    std::cout << (bad ? "FAIL" : "PASS") << std::endl;
    return bad ? 1 : 0;
}
