#include <iostream>
#include <vector>
#include <amgcl/backend/builtin.hpp>
#include <amgcl/adapter/crs_tuple.hpp>
#include <amgcl/make_solver.hpp>
#include <amgcl/preconditioner/dummy.hpp>
#include <amgcl/solver/bicgstab.hpp>
int main() {
    typedef amgcl::backend::builtin<double> B;
    // 2x2 identity, rhs = (1,1), x0 = exact solution
    std::vector<int> ptr{0,1,2}, col{0,1}; std::vector<double> val{1,1}, rhs{1,1}, x{1,1};
    int n = 2;
    amgcl::make_solver<amgcl::preconditioner::dummy<B>, amgcl::solver::bicgstab<B>>::params prm;
    prm.solver.check_after = true; prm.solver.maxiter = 0;
    amgcl::make_solver<amgcl::preconditioner::dummy<B>, amgcl::solver::bicgstab<B>> s(std::tie(n,ptr,col,val), prm);
    size_t it; double res; std::tie(it,res) = s(rhs, x);
    std::cout << "iters=" << it << " reported=" << res << " (true residual is 0)" << std::endl;
    return res == 0 ? 0 : 1;
}
