#include <iostream>
#include <vector>
#include <random>
#include <omp.h>
#include <amgcl/backend/builtin.hpp>
#include <amgcl/relaxation/gauss_seidel.hpp>
#include <amgcl/adapter/crs_tuple.hpp>
int main() {
    typedef amgcl::backend::builtin<double> B;
    int n = 200; std::mt19937 g(1); std::vector<int> ptr{0}, col; std::vector<double> val;
    for (int i = 0; i < n; ++i) { 
        for (int j = 0; j < n; ++j) if (i==j || g()%20==0) { col.push_back(j); val.push_back(i==j ? 30.0 : -1.0 - (g()%3)); }
        ptr.push_back(col.size()); }
    amgcl::backend::crs<double> A(std::tie(n, ptr, col, val));
    std::vector<double> rhs(n), xs(n), xp(n), t(n);
    for (int i = 0; i < n; ++i) { rhs[i] = (g()%100)/7.0; xs[i] = xp[i] = (g()%100)/11.0; }
    amgcl::relaxation::gauss_seidel<B>::params ps, pp; ps.serial = true; B::params bprm;
    omp_set_num_threads(8);
    amgcl::relaxation::gauss_seidel<B> S(A, ps, bprm), P(A, pp, bprm);
    double maxd = 0;
    for (int it = 0; it < 50; ++it) {
        S.apply_pre(A, rhs, xs, t); P.apply_pre(A, rhs, xp, t);
        S.apply_post(A, rhs, xs, t); P.apply_post(A, rhs, xp, t);
        for (int i = 0; i < n; ++i) maxd = std::max(maxd, std::abs(xs[i]-xp[i]));
    }
    std::cout << "max |serial - parallel| over 50 sweeps: " << maxd << (maxd == 0 ? "  PASS" : "  FAIL") << std::endl;
    return maxd != 0;
}
