// Known finding C19: read_crs cannot validate column indices (the binary format stores no column count)
#include <iostream>
#include <fstream>
#include <vector>
#include <amgcl/io/binary.hpp>
int main() {
    size_t n = 3; std::vector<ptrdiff_t> ptr{0,1,2,3}, col{0,1000000,2}; std::vector<double> val{1,2,3};
    { std::ofstream f("badcol.bin", std::ios::binary); amgcl::io::write(f, n); amgcl::io::write(f, ptr); amgcl::io::write(f, col); amgcl::io::write(f, val); }
    size_t m; std::vector<ptrdiff_t> p, c; std::vector<double> v;
    try { amgcl::io::read_crs("badcol.bin", m, p, c, v); }
    catch (const std::exception &e) { std::cout << "clean failure: " << e.what() << "\nPASS" << std::endl; return 0; }
    std::cout << "no exception; 3x3 matrix returned with col = {"; for (auto x : c) std::cout << x << " "; std::cout << "}\nFAIL (structurally invalid matrix)" << std::endl;
    return 1;
}
