// Replay of the C05 finding "the plane rotation of the GMRES family is not unitary for complex systems" (rule rotation-unitary).
// generate_plane_rotation(dx, dy, cs, sn) normalised with sqrt(1 + t*t), t = dy/dx, instead of sqrt(1 + |t|^2).  The rotation still
// annihilates dy, but [conj(cs) conj(sn); -sn cs] is unitary only when |cs|^2 + |sn|^2 = 1.  With a non-unitary transformation the
// triangular solve does not give the least-squares minimiser: the k-th GMRES iterate is not the residual minimiser over the
// Krylov space (C05: "GMRES/FGMRES minimise the residual norm"), and the inner residual estimate |s_{j+1}| is not a residual norm.
// Build: g++ -std=gnu++17 -O1 -fopenmp -I<repo> C05_complex_gmres_rotation.cpp && ./a.out
// Exit 0 (PASS) when (a) generated rotations are unitary and (b) the k-th GMRES / FGMRES / LGMRES iterate attains the minimal
// residual over x0 + K_k(A, r0) computed by a dense reference (normal equations in long double).
#include <complex>
#include <vector>
#include <iostream>
#include <tuple>
#include <amgcl/backend/builtin.hpp>
#include <amgcl/value_type/complex.hpp>
#include <amgcl/adapter/crs_tuple.hpp>
#include <amgcl/make_solver.hpp>
#include <amgcl/preconditioner/dummy.hpp>
#include <amgcl/solver/gmres.hpp>
#include <amgcl/solver/fgmres.hpp>
#include <amgcl/solver/lgmres.hpp>
#include <amgcl/profiler.hpp>
namespace amgcl { profiler<> prof; }
typedef std::complex<double> C;
typedef std::complex<long double> CL;
typedef amgcl::backend::builtin<C> B;

static const int n = 12;
static std::vector<ptrdiff_t> ptr, col;
static std::vector<C> val;

static std::vector<CL> mul(const std::vector<CL> &x) {
    std::vector<CL> y(n, CL(0));
    for (int i = 0; i < n; ++i) for (ptrdiff_t j = ptr[i]; j < ptr[i + 1]; ++j) y[i] += CL(val[j]) * x[col[j]];
    return y;
}

// minimal residual norm over span{r0, A r0, ..., A^{k-1} r0} (x0 = 0), by modified Gram-Schmidt on the vectors A K_j
static long double optimal(const std::vector<C> &f, int k) {
    std::vector<CL> r(f.begin(), f.end()), v(f.begin(), f.end());
    std::vector<std::vector<CL>> Q;
    for (int j = 0; j < k; ++j) {
        std::vector<CL> w = mul(v);               // A^{j+1} r0
        v = w;
        long double sc = 0; for (auto &z : v) sc += std::norm(z); sc = std::sqrt(sc); for (auto &z : v) z /= sc;   // keep the powers scaled
        for (auto &q : Q) { CL h = 0; for (int i = 0; i < n; ++i) h += std::conj(q[i]) * w[i]; for (int i = 0; i < n; ++i) w[i] -= h * q[i]; }
        for (auto &q : Q) { CL h = 0; for (int i = 0; i < n; ++i) h += std::conj(q[i]) * w[i]; for (int i = 0; i < n; ++i) w[i] -= h * q[i]; }
        long double nw = 0; for (auto &z : w) nw += std::norm(z); nw = std::sqrt(nw);
        if (nw < 1e-25L) break;
        for (auto &z : w) z /= nw;
        Q.push_back(w);
    }
    // residual = r0 minus its projection onto span(A K_k)
    for (auto &q : Q) { CL h = 0; for (int i = 0; i < n; ++i) h += std::conj(q[i]) * r[i]; for (int i = 0; i < n; ++i) r[i] -= h * q[i]; }
    long double s = 0; for (auto &z : r) s += std::norm(z);
    return std::sqrt(s);
}

template <class Solver>
static int run(const char *name, const std::vector<C> &f) {
    auto A = std::tie(n, ptr, col, val);
    int bad = 0;
    for (int k = 1; k <= 8; ++k) {
        typedef amgcl::make_solver<amgcl::preconditioner::dummy<B>, Solver> S;
        typename S::params prm; prm.solver.maxiter = k; prm.solver.tol = 1e-30; prm.solver.M = 30;
        S solve(A, prm);
        std::vector<C> x(n, C(0));
        solve(f, x);
        long double rn = 0;
        for (int i = 0; i < n; ++i) { CL r = f[i]; for (ptrdiff_t j = ptr[i]; j < ptr[i + 1]; ++j) r -= CL(val[j]) * CL(x[col[j]]); rn += std::norm(r); }
        rn = std::sqrt(rn);
        long double opt = optimal(f, k);
        bool ok = rn <= opt * (1 + 1e-8L) + 1e-12L;
        if (!ok) ++bad;
        std::cout << name << " k=" << k << ": residual of the returned iterate " << (double)rn << ", minimal over the Krylov space " << (double)opt << (ok ? "" : "   <-- not the minimiser") << std::endl;
    }
    return bad;
}

int main() {
    int bad = 0;
    {
        C dx(1.0, 2.0), dy(0.5, -1.5), cs, sn;
        amgcl::solver::detail::generate_plane_rotation(dx, dy, cs, sn);
        double u = std::norm(cs) + std::norm(sn);
        C a = dx, b = dy;
        amgcl::solver::detail::apply_plane_rotation(a, b, cs, sn);
        std::cout << "rotation for dx=" << dx << " dy=" << dy << ": |cs|^2+|sn|^2 = " << u << ", rotated = (" << a << ", " << b << "), |dx|^2+|dy|^2 = " << std::norm(dx) + std::norm(dy)
                  << ", |a|^2+|b|^2 = " << std::norm(a) + std::norm(b) << std::endl;
        if (std::abs(u - 1) > 1e-12 || std::abs(std::norm(a) + std::norm(b) - std::norm(dx) - std::norm(dy)) > 1e-10 || std::abs(b) > 1e-12) ++bad;
        C dx2(0.2, -0.3), dy2(-1.0, 0.7);    // the |dy| > |dx| branch
        amgcl::solver::detail::generate_plane_rotation(dx2, dy2, cs, sn);
        u = std::norm(cs) + std::norm(sn);
        std::cout << "rotation for dx=" << dx2 << " dy=" << dy2 << ": |cs|^2+|sn|^2 = " << u << std::endl;
        if (std::abs(u - 1) > 1e-12) ++bad;
    }
    ptr.push_back(0);
    for (int i = 0; i < n; ++i) {     // complex non-Hermitian, well conditioned
        if (i > 0)     { col.push_back(i - 1); val.push_back(C(-1.0, 0.6)); }
        col.push_back(i); val.push_back(C(3.0, 1.0 + 0.1 * i));
        if (i + 1 < n) { col.push_back(i + 1); val.push_back(C(-0.4, -0.9)); }
        if (i + 3 < n) { col.push_back(i + 3); val.push_back(C(0.3, 0.5)); }
        ptr.push_back(col.size());
    }
    std::vector<C> f(n); for (int i = 0; i < n; ++i) f[i] = C(1.0 + 0.1 * i, 0.5 - 0.2 * i);
    bad += run<amgcl::solver::gmres<B>>("gmres ", f);
    bad += run<amgcl::solver::fgmres<B>>("fgmres", f);
    bad += run<amgcl::solver::lgmres<B>>("lgmres", f);
    std::cout << (bad ? "FAIL" : "PASS") << std::endl;
    return bad ? 1 : 0;
}
